"""
C01 — a circuit compiles to the ordered product of its components.

Model: LW.Model.Circuit (compile, mirrors CompiledCircuit.add) and LW.Model.CircuitSpec
(orderedProd, the property's right-hand side).  Theorems: LW/Properties/C01.lean.

Per generated construction program (primitives + unitary blocks + building-block circuits, ~15 %
invalid calls) the implementation is compared with the model on: per-call outcome (ok / exception
class), n_modes, U_full (vs `compile`) and U (vs `orderedProd`, the specification); and the
property's own clauses are evaluated on the implementation: U_full unitary, exactly one extra mode
per loss element, U is the leading block of U_full, a rejected call leaves the observables unchanged.

A program is a list of ops on a pool of objects: the circuit under construction `c`, unitary blocks
`u*`, and building blocks `b*` / `w*` (circuits that themselves hold grouped unitary blocks or a
grouped building block) which are placed in `c` several times, grouped and ungrouped, at mode 0 and
at modes > 0, and edited between placements.  The pseudo-op ["read", "*"] marks a point at which
U / U_full / n_modes of EVERY live object are read and compared with the model's state at that point
(the driver reports the state after every call); there is always a read at the end.  Three read
policies: after every call, sparse, end only — a reported matrix must not depend on when, or how
often, it was asked for before.  A building block may carry a herald (grouping is then forced and
`c` gains an ancilla mode that every later call has to be mapped over).  Streams: (1) a directed
corpus (read - mutate - read around every mutating method, also on a circuit that already has an
ancilla mode; tiled building blocks of depth 1 and 2; programs run under changed GLOBAL SETTINGS, see
below), (2) random programs.

Global settings as a configuration dimension.  `lightworks.settings` (`unitary_precision`,
`sampler_probability_threshold`) is process-global.  Its only legitimate effect on anything this
property talks about is the acceptance test of a user-supplied matrix in `Unitary(...)`
(`check_unitary`: |U^dagger U - 1| <= unitary_precision); the model accepts every block, so blocks are
always exactly unitary (float rounding ~1e-16, below the strictest setting used, 1e-12) and the
accept / reject decisions agree under every setting.  The pseudo-op ["setting", name, value] changes
a setting at that point of the program (before anything is built, in the middle, between the last
call and the read, between two reads); the model never sees it, i.e. the clauses are the same under
every setting, and in addition a matrix read before and after a change of a setting must not move.
Settings are restored in a finally-block after every program (also when the program raises), so the
other streams always run under the defaults.  Such programs carry components whose amplitudes are
tiny but non-zero (reflectivity / loss ~1e-6 ... 1e-21 and 1 - 1e-6, 1 - 1e-9, phases next to 0, pi/2,
pi, 2 pi, unitary blocks with such entries; exact rationals for the model), and U is compared with
the ordered product to 1e-9 absolute AND, per real / imaginary part whose exact value is non-zero, to
1e-6 relative (down to an absolute floor of 1e-13 plus the conditioning of the component matrices in
their float arguments next to reflectivity / loss 1, see float_floor: legitimate float cancellation
stays below it); an entry whose exact value is non-zero must not be reported as exactly 0.  Any chopping / rounding /
thresholding of the reported matrix, keyed on a setting or not, shows up there.

Relatives (`with_family`, `directed_sums`).  `a + b` and `a.copy()` are program steps like any other: a sibling circuit
of the same size is built next to `c`, sums (a + b, b + a, c + c, sums of sums, the SAME sum evaluated twice) and copies
are taken at random points of the construction, `c` goes on being built afterwards and the sums / copies / siblings are
extended too.  Every read looks at EVERY live object, so the operands of a `+` are read again after it, and every
one of them must still be the ordered product of the components that were added to IT.

Caller-owned data (`with_client`, `directed_client`; circgen_ext.Client).  A component is defined by the VALUES the
client handed over.  Under a ["client", cfg] pseudo-op all unitary blocks are read from ONE work buffer per size (or
from the corner of one large array, or from a column-major buffer) that is refilled for the next block, all swap
dictionaries / barrier lists are one dict / list that is refilled, and ["scrub", kind, how] overwrites / clears the
containers at arbitrary points (right after Unitary(buf), after add, after copy / +, between two reads);
["scribble", id, attr, how] writes into a matrix / dict the library handed out (U, U_full, heralds).  None of this is
visible to the model (for it a matrix is a value): U of every live object stays the ordered product of what it was
GIVEN, and a matrix read before and after such a step must not move.
"""

from __future__ import annotations

import json
import random

import contextlib
from fractions import Fraction

import numpy as np

import circgen as cg
import circgen_ext as cx
import lightworks as lw
from core import CIRCLE, GQ, PYTH, Ctx, MachineryFault, ddmin, frac_str, mat_close, parse_mat

TRUSTED = [
    "Lean 4.33 kernel; Mathlib v4.33 as compiled on this image",
    "axioms: subset of {propext, Classical.choice, Quot.sound} (audited per theorem on every run)",
    "hand-written model LW.Model.Circuit / CircuitSpec tied to the code by this correspondence check",
    "float evaluation of sqrt/arccos/cos/sin/exp: real-analytic value up to rounding (1e-9 tolerance)",
    "driver JSON parser and harness comparison code",
]
ASSUMPTIONS = [
    "model scalars are exact Gaussian rationals (Pythagorean c,s; rational points on the unit circle); "
    "the code sees the corresponding floats",
    "programs: <= 8 modes, <= 40 calls on the circuit plus <= 3 building blocks of <= 4 modes in the correspondence "
    "check (theorems are unbounded)",
    "a Parameter that is never re-set stands for its value (re-setting is C10's subject)",
    "global settings: unitary_precision in {1e-12 .. 1e-2}, sampler_probability_threshold in {1e-12 .. 0.3}; unitary "
    "blocks are exactly unitary (the model accepts every block; acceptance of nearly-unitary matrices under a "
    "relaxed unitary_precision is not part of this property)",
    "relative comparison of small entries: 1e-6 relative down to an absolute floor of 1e-13 + 5 x (sum over beam "
    "splitters of 1.2e-16/s and over loss elements of 3e-17/a); reflectivity / loss next to 1 only down to 1 - 1e-9 "
    "(the float 1 - x below that loses more than 1e-6 relative), at most 2 such components per random program",
]

READ = ["read", "*"]
PSEUDO = ("read", "setting", *cx.CLIENT_PSEUDO)  # ops the model never sees

# --------------------------------------------------------------------------- global settings

SETTINGS = ("unitary_precision", "sampler_probability_threshold")
DEFAULTS = {k: getattr(lw.settings, k) for k in SETTINGS}  # at import: nothing has touched them yet
PRECISIONS = [1e-12, 1e-8, 1e-6, 1e-4, 1e-2]
THRESHOLDS = [1e-12, 1e-6, 1e-3, 0.3]


@contextlib.contextmanager
def settings_scope(reset: bool = False):
    """whatever happens inside, the process-global settings are put back on exit"""
    saved = {k: getattr(lw.settings, k) for k in SETTINGS}
    try:
        if reset:
            for k, v in DEFAULTS.items():
                setattr(lw.settings, k, v)
        yield
    finally:
        for k, v in saved.items():
            setattr(lw.settings, k, v)


def _setting(rng, key: str | None = None, default: bool = False) -> list:
    key = key or ("unitary_precision" if rng.random() < 0.8 else "sampler_probability_threshold")
    if default:
        return ["setting", key, DEFAULTS[key]]
    return ["setting", key, rng.choice(PRECISIONS if key == "unitary_precision" else THRESHOLDS)]


# --------------------------------------------------------------------------- tiny amplitudes


def _tiny_pt(m: int) -> tuple:
    """(t, b) with t = 2m/(m^2+1) ~ 2/m, b = (m^2-1)/(m^2+1), t^2 + b^2 = 1"""
    return Fraction(2 * m, m * m + 1), Fraction(m * m - 1, m * m + 1)


# t^2 ~ 1e-6, 1e-9, 1e-12, 1e-16, 1e-21  (t ~ 1e-3, 3.2e-5, 1e-6, 1e-8, 3.2e-11)
TINY = [_tiny_pt(m) for m in (2000, 63246, 2_000_000, 200_000_000, 63_245_553_203)]
# reflectivity / loss b^2 = 1 - t^2 next to 1: the code forms 1 - x (or arccos(sqrt(x))) in floats, which keeps 1e-6
# relative accuracy of the small amplitude only down to 1 - 1e-9
NEAR1 = TINY[:2]


def _tiny_phase(rng) -> GQ:
    t, b = rng.choice(TINY)
    sr, si = rng.choice([1, -1]), rng.choice([1, -1])
    # next to 0 (or 2 pi, from below), next to pi, next to +-pi/2
    return GQ(sr * b, si * t) if rng.random() < 0.7 else GQ(sr * t, si * b)


def tinyfy(rng, op: list, near1: bool = True) -> tuple:
    """(op', tag): a valid-valued bs / ps / loss op with one of its values replaced by a tiny-amplitude one
    (`near1`: reflectivity / loss next to 1 allowed)"""
    kind = op[0]
    if kind not in ("bs", "ps", "loss") or not isinstance(op[-1], dict) or op[-1]:
        return op, None
    op = list(op)
    if kind == "bs":
        if not (op[8] and op[9]):
            return op, None
        w = rng.choice(["refl~0", "refl~0", "refl~1", "loss~0", "loss~1"] if near1 else ["refl~0", "loss~0"])
        if w == "refl~0":
            t, b = rng.choice(TINY)
            op[4], op[5] = frac_str(t), frac_str(b)
        elif w == "refl~1":
            t, b = rng.choice(NEAR1)
            op[4], op[5] = frac_str(b), frac_str(t)
        elif w == "loss~0":
            t, b = rng.choice(TINY)
            op[7] = [frac_str(b), frac_str(t)]  # (amplitude factor, sqrt(loss))
        else:
            t, b = rng.choice(NEAR1)
            op[7] = [frac_str(t), frac_str(b)]
        return op, "bs:" + w
    if kind == "ps":
        if not op[5]:
            return op, None
        w = rng.choice(["phase", "phase", "phase", "loss~0", "loss~1"] if near1 else ["phase", "loss~0"])
        if w == "phase":
            op[3] = _tiny_phase(rng).s()
        elif w == "loss~0":
            t, b = rng.choice(TINY)
            op[4] = [frac_str(b), frac_str(t)]
        else:
            t, b = rng.choice(NEAR1)
            op[4] = [frac_str(t), frac_str(b)]
        return op, "ps:" + w
    if not op[5]:
        return op, None
    if not near1 or rng.random() < 0.6:
        t, b = rng.choice(TINY)
        op[3], op[4] = frac_str(b), frac_str(t)
        return op, "loss~0"
    t, b = rng.choice(NEAR1)
    op[3], op[4] = frac_str(t), frac_str(b)
    return op, "loss~1"


def tiny_unitary(rng, n: int, depth: int | None = None) -> list:
    """exactly unitary n x n block (Givens rotations and phases) with some rotations / phases from the tiny sets:
    entries ~1e-3 ... 1e-11 next to entries ~1"""
    u = [[GQ(1) if i == j else GQ(0) for j in range(n)] for i in range(n)]
    depth = rng.randint(1, 2 * n) if depth is None else depth
    used = False
    for d in range(depth):
        tiny = rng.random() < 0.5 or (d == depth - 1 and not used)
        used = used or tiny
        if n >= 2 and rng.random() < 0.75:
            i, j = rng.sample(range(n), 2)
            c, s = rng.choice(TINY) if tiny else rng.choice(PYTH)
            if tiny and rng.random() < 0.5:
                c, s = s, c
            ph = rng.choice(CIRCLE)
            for k in range(n):
                a, b = u[i][k], u[j][k]
                u[i][k] = GQ(c) * a + (-(GQ(s) * ph.conj())) * b
                u[j][k] = GQ(s) * ph * a + GQ(c) * b
        else:
            i = rng.randrange(n)
            ph = _tiny_phase(rng) if tiny else rng.choice(CIRCLE)
            for k in range(n):
                u[i][k] = ph * u[i][k]
    return u


class Tiny:
    """per-program source of tiny-amplitude variants: `prim(rng, op)` turns a generated primitive into its tiny
    variant with probability p (at most `cap` times per program: every one multiplies the size of the exact model's
    rationals), `unitary(rng, n)` gives a block"""

    def __init__(self, ctx: Ctx | None, p: float, cap: int = 6, cap_near1: int = 2) -> None:
        # next to reflectivity / loss 1 the small amplitude has a relative float error of up to ~1e-7 per component
        # (see float_floor); a few of them in a row stay well below the relative tolerance
        self.ctx, self.p, self.cap, self.cap_near1 = ctx, p, cap, cap_near1

    def _hit(self, rng) -> bool:
        return self.p > 0 and self.cap > 0 and rng.random() < self.p

    def prim(self, rng, op: list) -> list:
        if self._hit(rng):
            op, tag = tinyfy(rng, op, self.cap_near1 > 0)
            if tag:
                self.cap -= 1
                self.cap_near1 -= tag.endswith("~1")
                if self.ctx:
                    self.ctx.count("tiny:" + tag)
        return op

    def unitary(self, rng, n: int) -> list:
        if self._hit(rng):
            self.cap -= 1
            if self.ctx:
                self.ctx.count("tiny:unitary-block")
            return tiny_unitary(rng, n)
        return cg.exact_unitary(rng, n)


NO_TINY = Tiny(None, 0.0)


# --------------------------------------------------------------------------- generation


def _unitary_add(rng, prog: list, tgt: str, n: int, uid: str, p_over: float = 0.15, p_group: float = 0.3,
                 tiny: Tiny = NO_TINY) -> None:
    """unitary block through add(Unitary(u), mode)"""
    sz = rng.randint(1, n)
    mode = rng.randint(0, n - sz)
    if rng.random() < p_over:
        mode = n - sz + rng.randint(1, 2)  # oversize -> rejected
    prog.append(["unitary", uid, cg.mat_json(tiny.unitary(rng, sz))])
    prog.append(["add", tgt, uid, mode, rng.random() < p_group])


def _block(rng, prog: list, bid: str, size: int, ptab: dict, uid: str, tiny: Tiny = NO_TINY) -> None:
    """building block: a circuit with a few primitives and (mostly) a grouped unitary block inside"""
    prog.append(["new", bid, size])
    for _ in range(rng.randint(0, 2)):
        prog.append(cx.with_param(rng, tiny.prim(rng, cg.rand_prim_op(rng, bid, size)), ptab, 0.15))
    if rng.random() < 0.85:
        sz = rng.randint(1, size)
        room = size - sz
        m = rng.randint(1, room) if room > 0 and rng.random() < 0.7 else 0
        prog.append(["unitary", uid, cg.mat_json(tiny.unitary(rng, sz))])
        prog.append(["add", bid, uid, m, rng.random() < 0.8])
    for _ in range(rng.randint(0, 2)):
        prog.append(cx.with_param(rng, tiny.prim(rng, cg.rand_prim_op(rng, bid, size)), ptab, 0.15))


def _place(rng, prog: list, n: int, bid: str, size: int, p_over: float = 0.12, p_group: float = 0.3) -> None:
    room = n - size
    if rng.random() < p_over:
        m = room + rng.randint(1, 2)
    elif room > 0 and rng.random() < 0.75:
        m = rng.randint(1, room)
    else:
        m = 0
    prog.append(["add", "c", bid, m, rng.random() < p_group])


def with_reads(rng, ops: list, policy: str | None = None) -> list:
    policy = policy or rng.choice(["every", "every", "every", "sparse", "sparse", "end"])
    if policy == "end":
        return list(ops)
    out = []
    for op in ops:
        out.append(op)
        if policy == "every" or rng.random() < 0.25:
            out.append(READ)
    return out


def with_settings(ctx: Ctx, rng, prog: list) -> list:
    """1-3 changes of a global setting at random points of a program that already has its reads: before anything is
    built, in the middle, between the last call and a read, between two reads (an extra read follows the change),
    back to the default before a read"""
    out = list(prog)
    for _ in range(rng.choice([1, 1, 2, 3])):
        r = rng.random()
        pos = 0 if r < 0.25 else len(out) if r < 0.45 else rng.randint(0, len(out))
        ins = [_setting(rng, default=rng.random() < 0.15)]
        if rng.random() < 0.5:
            ins.append(READ)
        out[pos:pos] = ins
    return out


def gen_program(ctx: Ctx, rng) -> list:
    n = rng.randint(1, ctx.n(6, 8))
    k = rng.randint(0, ctx.n(14, 40))
    # configuration dimension: global settings changed during the program and / or tiny-amplitude components
    r = rng.random()
    use_tiny, use_settings = r >= 0.60 and not 0.72 <= r < 0.80, r >= 0.72
    tiny = Tiny(ctx, rng.choice([0.15, 0.3, 0.5])) if use_tiny else NO_TINY
    if use_tiny:
        k = min(k, 24)
        ctx.count("program:with-tiny-amplitudes" + ("+settings" if use_settings else "@default-settings"))
    elif use_settings:
        ctx.count("program:with-settings")
    prog = [["new", "c", n]]
    ptab: dict = {}
    nblk = 0
    blocks: dict = {}  # building-block id -> size
    if n >= 2 and rng.random() < 0.4:
        for j in range(rng.randint(1, 2)):
            size = rng.randint(1, min(4, n - 1 if rng.random() < 0.85 else n))
            nblk += 1
            _block(rng, prog, f"b{j}", size, ptab, f"u{nblk}", tiny)
            blocks[f"b{j}"] = size
            if size >= 2 and rng.random() < 0.2:
                # a heralded block: grouping is forced and every placement gives `c` an ancilla mode, which
                # all later calls on `c` have to step over
                prog.append(["herald", f"b{j}", rng.choice([0, 1]), rng.randrange(size), rng.randrange(size)])
                blocks[f"b{j}"] = size - 1
                ctx.count("program:with-heralded-block")
        if rng.random() < 0.3:
            # depth 2: a wrapper that holds a building block as a group
            b0 = rng.choice(sorted(blocks))
            size = min(n, blocks[b0] + rng.randint(0, 1))
            prog.append(["new", "w0", size])
            prog.append(["add", "w0", b0, rng.randint(0, size - blocks[b0]), rng.random() < 0.85])
            if rng.random() < 0.5:
                prog.append(tiny.prim(rng, cg.rand_prim_op(rng, "w0", size)))
            blocks["w0"] = size
        ctx.count("program:with-building-blocks")
    p_herald = 0.04 if rng.random() < 0.3 else 0.0
    for _ in range(k):
        r = rng.random()
        if blocks and r < 0.22:
            bid = rng.choice(sorted(blocks))
            _place(rng, prog, n, bid, blocks[bid])
        elif blocks and r < 0.27:
            bid = rng.choice(sorted(blocks))
            prog.append(tiny.prim(rng, cg.rand_prim_op(rng, bid, blocks[bid], p_invalid=0.1)))  # edit between placements
        elif r < (0.35 if blocks else 0.12):
            nblk += 1
            _unitary_add(rng, prog, "c", n, f"u{nblk}", tiny=tiny)
        elif r < (0.35 if blocks else 0.12) + p_herald:
            prog.append(["herald", "c", rng.choice([0, 1, 2]), rng.randrange(n), rng.randrange(n)])
        else:
            prog.append(cx.with_param(rng, tiny.prim(rng, cg.rand_prim_op(rng, "c", n, p_invalid=0.15)), ptab, 0.08))
    body = prog[1:]
    r = rng.random()
    if r < 0.3:
        body = with_family(ctx, rng, body, n)
    body = with_reads(rng, body)
    if use_settings:
        body = with_settings(ctx, rng, body)
    if 0.2 <= r < 0.55:
        body = with_client(ctx, rng, body)
    return [prog[0], *body]


# ----- relatives: copy() and + as program steps


def with_family(ctx: Ctx, rng, ops: list, n: int) -> list:
    """a sibling `d0` of the size of `c` plus 2-6 family steps at random points of the construction of `c`: a copy, a sum
    (either order, c + c, sums of sums, the same sum once more), an edit of a relative (sibling / sum / copy), a relative
    added to `c`.  Sizes are tracked so that the exact model's matrices stay reportable."""
    size = cx.Size(max_w=44, max_loss=6)
    k = len(ops)
    first = rng.randint(0, max(0, k // 2))
    at = sorted(rng.randint(first, k) for _ in range(rng.randint(2, 6)))
    members = ["c"]
    out: list = []
    last_sum = None

    def emit(op: list) -> None:
        if op[0] in ("bs", "ps", "loss", "barrier", "swaps"):
            size.prim(op)
        elif op[0] == "unitary":
            size.w[op[1]] = 1
        elif op[0] == "add":
            size.add(op[1], op[2])
        out.append(op)

    def relative() -> str:
        return rng.choice(members[1:]) if len(members) > 1 and rng.random() < 0.6 else rng.choice(members)

    def family_step(j: int) -> None:
        nonlocal last_sum
        x = rng.random()
        if x < 0.22:
            src = relative()
            size.copy(f"k{j}", src)
            emit(["copy", f"k{j}", src])
            members.append(f"k{j}")
            ctx.count("family:copy")
        elif x < 0.62:
            a, b = relative(), relative()
            if last_sum is not None and rng.random() < 0.3:
                a, b = last_sum  # the same expression once more
                ctx.count("family:same-sum-evaluated-again")
            elif rng.random() < 0.5:
                a, b = ("c", b) if rng.random() < 0.5 else (a, "c")
            if not size.plus(f"s{j}", a, b):
                ctx.count("family:plus-skipped(size)")
                return
            emit(["plus", f"s{j}", a, b])
            last_sum = (a, b)
            members.append(f"s{j}")
            ctx.count("family:plus" + (":self" if a == b else ":c-is-left" if a == "c" else ":c-is-right" if b == "c" else ""))
        elif x < 0.9:
            m = rng.choice(members[1:])
            emit(cg.rand_prim_op(rng, m, n, p_invalid=0.1))
            ctx.count("family:edit-a-relative")
        else:
            m = rng.choice(members[1:])
            if size.add("c", m):
                emit(["add", "c", m, 0, rng.random() < 0.4])
                ctx.count("family:relative-added-to-c")

    for i in range(k + 1):
        if i == first:
            emit(["new", "d0", n])
            members.append("d0")
            for _ in range(rng.randint(1, 3)):
                emit(cg.rand_prim_op(rng, "d0", n))
            if rng.random() < 0.3:
                sz = rng.randint(1, n)
                emit(["unitary", "ud", cg.mat_json(cg.exact_unitary(rng, sz))])
                emit(["add", "d0", "ud", rng.randint(0, n - sz), rng.random() < 0.5])
        for j, a in enumerate(at):
            if a == i and len(members) > 1:
                family_step(j)
        if i < k:
            emit(ops[i])
    ctx.count("program:with-relatives")
    return out


SUM_SHAPES = ["operands-read-again", "same-sum-twice", "extend-the-sum", "extend-an-operand", "self-sum", "sum-of-sums",
              "copy-then-edit-original", "copy-then-edit-copy", "copy-of-a-sum", "sums-holding-blocks", "rejected-sum"]


def directed_sums(rng, shape: str) -> list:
    """two circuits of one size, `+` / copy() between them, and the life of all of them afterwards"""
    n = rng.randint(3, 5)

    def prims(cid: str, k: int) -> list:
        return [_prim_of(rng, cid, n, rng.choice(["bs", "ps", "swaps", "loss"] if j else ["bs", "swaps"])) for j in range(k)]

    def edit(cid: str) -> list:
        return _prim_of(rng, cid, n, rng.choice(["bs", "ps", "swaps", "bs+loss"]))

    ops: list = [*prims("c", rng.randint(2, 3)), ["new", "d0", n], *prims("d0", rng.randint(2, 3))]
    if shape == "operands-read-again":
        ops += [["plus", "s0", "c", "d0"], ["plus", "s1", "d0", "c"]]
    elif shape == "same-sum-twice":
        ops += [["plus", "s0", "c", "d0"], ["plus", "s1", "c", "d0"], ["plus", "s2", "d0", "c"], ["plus", "s3", "c", "d0"]]
    elif shape == "extend-the-sum":
        ops += [["plus", "s0", "c", "d0"], edit("s0"), edit("s0"), ["plus", "s1", "d0", "c"], edit("s1")]
    elif shape == "extend-an-operand":
        ops += [["plus", "s0", "c", "d0"], edit("c"), edit("d0"), ["plus", "s1", "c", "d0"]]
    elif shape == "self-sum":
        ops += [["plus", "s0", "c", "c"], ["plus", "s1", "s0", "c"], edit("c"), ["plus", "s2", "c", "c"]]
    elif shape == "sum-of-sums":
        ops += [["plus", "s0", "c", "d0"], ["plus", "s1", "s0", "s0"], ["plus", "s2", "d0", "s0"], edit("s0"), edit("s2")]
    elif shape == "copy-then-edit-original":
        ops += [["copy", "k0", "c"], edit("c"), ["plus", "s0", "k0", "c"], edit("c")]
    elif shape == "copy-then-edit-copy":
        ops += [["copy", "k0", "c"], edit("k0"), ["copy", "k1", "k0"], edit("k1"), ["plus", "s0", "k1", "c"]]
    elif shape == "copy-of-a-sum":
        ops += [["plus", "s0", "c", "d0"], ["copy", "k0", "s0"], edit("k0"), edit("s0"), ["plus", "s1", "k0", "s0"]]
    elif shape == "sums-holding-blocks":
        sz = rng.randint(1, 2)
        ops += [["unitary", "u0", cg.mat_json(cg.exact_unitary(rng, sz, depth=2 * sz + 1))],
                ["add", "c", "u0", rng.randint(0, n - sz), True], ["new", "b0", 2], _prim_of(rng, "b0", 2, "bs"),
                ["add", "d0", "b0", rng.randint(0, n - 2), True], ["plus", "s0", "c", "d0"],
                ["add", "s0", "u0", rng.randint(0, n - sz), False], ["plus", "s1", "s0", "c"], edit("d0")]
    else:  # rejected-sum: sizes differ / an operand has a herald; nothing may change, later sums are still right
        ops += [["new", "d1", n + 1], ["plus", "s0", "c", "d1"], ["plus", "s1", "d1", "c"], ["copy", "k0", "d0"],
                ["herald", "k0", rng.choice([0, 1]), rng.randrange(n), rng.randrange(n)], ["plus", "s2", "c", "k0"],
                ["plus", "s3", "k0", "c"], ["plus", "s4", "c", "d0"]]
    return [["new", "c", n], *with_reads(rng, ops, rng.choice(["every", "every", "end"]))]


# ----- caller-owned data


def with_client(ctx: Ctx, rng, body: list) -> list:
    """the program is run by a client that re-uses its own containers (see circgen_ext.Client), overwrites them at 1-4
    random points and now and then writes into a matrix the library handed out"""
    out = list(body)
    for _ in range(rng.choice([1, 2, 2, 3, 4])):
        pos = len(out) if rng.random() < 0.2 else rng.randint(0, len(out))
        if rng.random() < 0.25:
            live = ["c"] + [op[1] for op in out[:pos] if op[0] in ("new", "unitary", "copy", "plus")]
            ins = [["scribble", rng.choice(live), rng.choice(cx.SCRIBBLE_ATTR), rng.choice(cx.SCRIBBLE_HOW)]]
        else:
            # mostly right behind a call that handed a container over
            behind = [i + 1 for i, op in enumerate(out) if op[0] in ("unitary", "swaps", "add")]
            if behind and rng.random() < 0.6:
                pos = rng.choice(behind)
            kind = {"unitary": "unitary", "add": "unitary", "swaps": "swaps"}.get(out[pos - 1][0]) if pos else None
            ins = [cx.rand_scrub(rng, kind if kind and rng.random() < 0.8 else None)]
        if rng.random() < 0.5:
            ins.append(READ)
        out[pos:pos] = ins
    ctx.count("program:with-client-owned-containers")
    return [["client", cx.rand_client_cfg(rng)], *out]


CLIENT_SHAPES = ["buffer-refilled-per-block", "overwritten-before-add", "overwritten-after-add", "block-inside-building-block",
                 "copies-and-sums-of-buffer-blocks", "view-overlapping-sizes", "swaps-dict-and-barrier-list-reused",
                 "scribble-on-handed-out-matrices"]


def directed_client(rng, shape: str) -> list:
    n = rng.randint(4, 5)
    cfg = {"unitary": rng.choice(["buffer", "buffer", "fortran", "view"]), "swaps": "shared", "modes": "shared"}
    scrub = ["scrub", "unitary", rng.choice(cx.SCRUB_HOW["unitary"])]

    def blk(uid: str, sz: int) -> list:
        return ["unitary", uid, cg.mat_json(cg.exact_unitary(rng, sz, depth=2 * sz + 1))]

    def ps() -> list:
        return _prim_of(rng, "c", n, rng.choice(["ps", "bs"]))

    if shape == "buffer-refilled-per-block":
        sz = rng.randint(2, 3)
        ops: list = []
        for j in range(3):
            ops += [blk(f"u{j}", sz), ["add", "c", f"u{j}", rng.randint(0, n - sz), rng.random() < 0.4], ps()]
        return [["new", "c", n], ["client", cfg], *with_reads(rng, ops)]
    if shape == "overwritten-before-add":
        sz = rng.randint(1, n)
        return [["new", "c", n], ["client", cfg], ps(), blk("u0", sz), scrub, READ, ["add", "c", "u0", rng.randint(0, n - sz), rng.random() < 0.5],
                READ, ps(), READ]
    if shape == "overwritten-after-add":
        sz = rng.randint(1, n)
        return [["new", "c", n], ["client", cfg], blk("u0", sz), ["add", "c", "u0", rng.randint(0, n - sz), rng.random() < 0.5],
                *([READ] if rng.random() < 0.6 else []), scrub, READ, ps(), cx.rand_scrub(rng, "unitary"), READ]
    if shape == "block-inside-building-block":
        sz = rng.randint(1, 2)
        size = sz + rng.randint(0, 1)
        return [["new", "c", n], ["client", cfg], blk("u0", sz), ["new", "b0", size], ["add", "b0", "u0", size - sz, True],
                ["add", "c", "b0", rng.randint(1, n - size), False], scrub, ["add", "c", "b0", rng.randint(0, n - size), True], READ,
                blk("u1", sz), ["add", "c", "u1", rng.randint(0, n - sz), False], READ]
    if shape == "copies-and-sums-of-buffer-blocks":
        sz = rng.randint(2, 3)
        return [["new", "c", n], ["client", cfg], blk("u0", sz), ["add", "c", "u0", rng.randint(0, n - sz), rng.random() < 0.5],
                ["copy", "k0", "c"], ["new", "d0", n], blk("u1", sz), ["add", "d0", "u1", rng.randint(0, n - sz), rng.random() < 0.5],
                ["plus", "s0", "c", "d0"], *([READ] if rng.random() < 0.5 else []), scrub, READ, ["plus", "s1", "d0", "k0"], READ]
    if shape == "view-overlapping-sizes":
        cfg["unitary"] = "view"
        a, b = rng.sample([1, 2, 3, min(4, n)], 2)
        return [["new", "c", n], ["client", cfg], *with_reads(rng, [
            blk("u0", a), ["add", "c", "u0", rng.randint(0, n - a), False], blk("u1", b),
            ["add", "c", "u1", rng.randint(0, n - b), True], blk("u2", a), ["add", "c", "u2", rng.randint(0, n - a), False]])]
    if shape == "swaps-dict-and-barrier-list-reused":
        sw = [_prim_of(rng, "c", n, "swaps") for _ in range(3)]
        return [["new", "c", n], ["client", cfg], sw[0], cx.rand_scrub(rng, "swaps"), READ, ["barrier", "c", [0, n - 1]],
                cx.rand_scrub(rng, "modes"), ps(), sw[1], ["barrier", "c", [1, 2]], sw[2], READ, cx.rand_scrub(rng, "swaps"),
                cx.rand_scrub(rng, "modes"), READ]
    # scribble-on-handed-out-matrices
    ops = [ps(), _prim_of(rng, "c", n, "bs+loss"), _prim_of(rng, "c", n, "swaps")]
    out = [["new", "c", n], ["client", cfg], *ops, READ]
    for attr in rng.sample(cx.SCRIBBLE_ATTR, 3):
        out += [["scribble", "c", attr, rng.choice(cx.SCRIBBLE_HOW)], *([READ] if rng.random() < 0.5 else []), ps()]
    return [*out, READ]


# ----- directed corpus


def _prim_of(rng, cid: str, n: int, want: str) -> list:
    """a valid primitive op of the wanted kind that changes the matrix (swaps: not the identity)"""
    for _ in range(400):
        op = cg.rand_prim_op(rng, cid, n)
        kind = op[0]
        if kind == "bs":
            kind = "bs+loss" if op[7] else "bs"
            if op[4] == "1":  # reflectivity 1 in the Rx convention is the identity
                continue
        elif kind == "ps":
            kind = "ps+loss" if op[4] else "ps"
            if op[3] in ("1,0", "1"):
                continue
        elif kind == "swaps" and all(a == b for a, b in op[2]):
            continue
        if kind == want:
            return op
    raise AssertionError(f"no {want} op generated for n={n}")


MUTATORS = ["bs", "bs+loss", "ps", "ps+loss", "loss", "swaps", "barrier", "add-unitary", "add-unitary-grouped",
            "add-block", "add-block-grouped", "herald", "edit-block-after-placement",
            "bs+loss@ancilla", "ps+loss@ancilla", "loss@ancilla", "swaps@ancilla", "add-unitary@ancilla"]


def directed_reads(rng, want: str) -> list:
    """read — mutate — read for one mutating method, twice, with other calls around it: the matrix
    reported after the call must contain the call's effect whatever was read before"""
    n = rng.randint(3, 5)
    prog: list = [["new", "c", n]]
    ptab: dict = {}
    if want.endswith("@ancilla"):
        # the circuit already holds a heralded sub-circuit: its ancilla mode sits below / between the user
        # modes and the call under test has to be mapped over it
        want = want[: -len("@ancilla")]
        hs = rng.choice([2, 2, 3])
        prog += [["new", "h0", hs], cg.op_bs("h0", 0, 1, *rng.choice(PYTH[1:-1])),
                 ["herald", "h0", rng.choice([0, 1]), rng.randrange(hs), rng.randrange(hs)],
                 ["add", "c", "h0", rng.choice([0, 0, 1]), rng.random() < 0.5]]
    blocks_first = want in ("add-block", "add-block-grouped", "edit-block-after-placement")
    if blocks_first:
        _block(rng, prog, "b0", rng.randint(1, n - 1), ptab, "u0")
        size = prog[[op[1] for op in prog].index("b0")][2]
    for _ in range(rng.randint(0, 2)):
        prog.append(_prim_of(rng, "c", n, rng.choice(["bs", "ps", "swaps"])))
    prog.append(READ)
    for rep in range(2):
        if want in ("bs", "bs+loss", "ps", "ps+loss", "loss", "swaps", "barrier"):
            prog.append(_prim_of(rng, "c", n, want))
        elif want.startswith("add-unitary"):
            sz = rng.randint(1, n)
            u = cg.exact_unitary(rng, sz, depth=2 * sz + 1)
            prog.append(["unitary", f"u{rep + 1}", cg.mat_json(u)])
            prog.append(["add", "c", f"u{rep + 1}", rng.randint(0, n - sz), want.endswith("grouped")])
        elif want.startswith("add-block"):
            prog.append(["add", "c", "b0", rng.randint(0 if rep else min(1, n - size), n - size), want.endswith("grouped")])
        elif want == "herald":
            prog.append(["herald", "c", rng.choice([0, 1]), rep, n - 1 - rep])
        else:  # edit-block-after-placement: c must not follow later edits of the block
            prog.append(["add", "c", "b0", rng.randint(0, n - size), bool(rep)])
            prog.append(READ)
            prog.append(_prim_of(rng, "b0", size, rng.choice(["ps", "loss"] + (["bs", "swaps"] if size > 1 else []))))
        prog.append(READ)
        if rep == 0 and rng.random() < 0.6:
            prog.append(_prim_of(rng, "c", n, rng.choice(["bs", "ps", "swaps", "loss"])))
            if rng.random() < 0.5:
                prog.append(READ)
    return prog


def directed_tiles(rng, depth2: bool) -> list:
    """a building block holding a grouped unitary block, placed two or three times in a larger circuit
    (ungrouped at modes > 0 first), with other components in between"""
    sz = rng.randint(1, 2)
    size = sz + rng.randint(0, 2)
    n = size + rng.randint(2, 3) + (1 if depth2 else 0)
    ops: list = [["unitary", "u0", cg.mat_json(cg.exact_unitary(rng, sz, depth=2 * sz + 1))], ["new", "b0", size]]
    if rng.random() < 0.7:
        ops.append(_prim_of(rng, "b0", size, rng.choice(["ps", "loss"] + (["bs"] if size > 1 else []))))
    ops.append(["add", "b0", "u0", rng.randint(min(1, size - sz), size - sz), True])
    tile, tsize = "b0", size
    if depth2:
        tsize = size + rng.randint(0, 1)
        ops += [["new", "w0", tsize], ["add", "w0", "b0", rng.randint(0, tsize - size), True]]
        if rng.random() < 0.5:
            ops.append(_prim_of(rng, "w0", tsize, "ps"))
        tile = "w0"
    room = n - tsize
    ops.append(["add", "c", tile, rng.randint(1, room), False])
    ops.append(_prim_of(rng, "c", n, rng.choice(["bs", "ps", "swaps"])))
    ops.append(["add", "c", tile, rng.randint(1, room), False])
    if rng.random() < 0.6:
        ops.append(["add", "c", tile, rng.randint(0, room), rng.random() < 0.5])
    if rng.random() < 0.5:
        ops.append(_prim_of(rng, "c", n, rng.choice(["bs", "loss"])))
    return [["new", "c", n], *with_reads(rng, ops)]


# ----- directed corpus: global settings x tiny amplitudes

SETTING_SHAPES = ["before-build", "after-build", "between-reads", "restored-before-read", "mid-build",
                  "sampler-threshold", "both-settings", "default-only"]
TINY_KINDS = ["bs-refl~0", "bs-refl~0", "bs-refl~1", "ps-phase", "loss~0", "loss~1", "bs+loss~0", "ps+loss~1",
              "unitary-block", "param-bs", "block"]


def _pick_tiny(rng, prec: float, pool: list = TINY) -> tuple:
    """a tiny point whose amplitude lies below the given precision setting (if there is one), mostly"""
    below = [pt for pt in pool if float(pt[0]) < prec]
    return rng.choice(below) if below and rng.random() < 0.7 else rng.choice(pool)


def _tiny_body(rng, cid: str, n: int, prec: float, tag: str) -> list:
    """a few ordinary components around 2-4 components with tiny amplitudes of every kind (primitives, a
    Parameter-valued one, a unitary block, a building block holding one), chosen relative to `prec`"""
    ops: list = [_prim_of(rng, cid, n, "bs")]
    for j, kd in enumerate(rng.sample(TINY_KINDS, rng.randint(2, 4))):
        m1, m2 = rng.sample(range(n), 2)
        conv = rng.choice(["Rx", "H"])
        t, b = _pick_tiny(rng, prec, NEAR1 if kd.endswith("~1") else TINY)
        if kd == "bs-refl~0":
            ops.append(cg.op_bs(cid, m1, m2, t, b, conv))
        elif kd == "bs-refl~1":
            ops.append(cg.op_bs(cid, m1, m2, b, t, conv))
        elif kd == "ps-phase":
            sr, si = rng.choice([1, -1]), rng.choice([1, -1])
            ops.append(cg.op_ps(cid, m1, GQ(sr * b, si * t) if rng.random() < 0.7 else GQ(sr * t, si * b)))
        elif kd == "loss~0":
            ops.append(cg.op_loss(cid, m1, b, t))
        elif kd == "loss~1":
            ops.append(cg.op_loss(cid, m1, t, b))
        elif kd == "bs+loss~0":
            ops.append(cg.op_bs(cid, m1, m2, *rng.choice(PYTH[1:-1]), conv, loss=(b, t)))
        elif kd == "ps+loss~1":
            ops.append(cg.op_ps(cid, m1, rng.choice(CIRCLE), loss=(t, b)))
        elif kd == "unitary-block":
            sz = rng.randint(2, n)
            ops.append(["unitary", f"u{tag}{j}", cg.mat_json(tiny_unitary(rng, sz))])
            ops.append(["add", cid, f"u{tag}{j}", rng.randint(0, n - sz), rng.random() < 0.5])
        elif kd == "param-bs":
            op = cg.op_bs(cid, m1, m2, t, b, conv)
            op[-1] = {"param": f"q{tag}{j}"}
            ops.append(op)
        else:  # a building block that holds the tiny component, placed grouped or not
            bid = f"b{tag}{j}"
            ops += [["new", bid, 2], cg.op_bs(bid, 0, 1, t, b, conv), cg.op_ps(bid, 1, rng.choice(CIRCLE)),
                    ["add", cid, bid, rng.randint(0, n - 2), rng.random() < 0.5]]
        if rng.random() < 0.5:
            ops.append(_prim_of(rng, cid, n, rng.choice(["bs", "ps", "swaps"])))
    ops.append(_prim_of(rng, cid, n, "bs"))
    return ops


def directed_settings(rng, shape: str, value: float) -> list:
    """one circuit with tiny-amplitude components, and a global setting changed at a given point of its life"""
    n = rng.randint(3, 4)
    key = "sampler_probability_threshold" if shape == "sampler-threshold" else "unitary_precision"
    prec = value if key == "unitary_precision" else rng.choice(PRECISIONS[1:])
    st, back = ["setting", key, value], ["setting", key, DEFAULTS[key]]
    new = ["new", "c", n]
    if shape == "before-build":
        return [new, st, *_tiny_body(rng, "c", n, prec, "a"), READ]
    if shape == "after-build":
        return [new, *_tiny_body(rng, "c", n, prec, "a"), st, READ]
    if shape == "between-reads":
        return [new, *_tiny_body(rng, "c", n, prec, "a"), READ, st, READ, back, READ]
    if shape == "restored-before-read":
        return [new, st, *_tiny_body(rng, "c", n, prec, "a"), back, READ]
    if shape == "mid-build":
        return [new, *_tiny_body(rng, "c", n, prec, "a"), READ, st, *_tiny_body(rng, "c", n, prec, "b"), READ,
                _setting(rng, key), READ]
    if shape == "sampler-threshold":
        return [new, *_tiny_body(rng, "c", n, prec, "a"), READ, st, READ, *_tiny_body(rng, "c", n, prec, "b"), READ]
    if shape == "both-settings":
        return [new, st, ["setting", "sampler_probability_threshold", rng.choice(THRESHOLDS)],
                *with_reads(rng, _tiny_body(rng, "c", n, prec, "a"))]
    # default-only: no setting is touched; amplitudes below the default precision are there all the same
    return [new, *with_reads(rng, _tiny_body(rng, "c", n, DEFAULTS["unitary_precision"], "a"))]


# --------------------------------------------------------------------------- one program


REL = 1e-6     # relative tolerance on a real / imaginary part whose exact value is non-zero ...
FLOOR = 1e-13  # ... down to this absolute error (float noise of a sum of a few dozen terms of size <= 1 is ~1e-15)


def float_floor(prog: list) -> float:
    """absolute accuracy that the float evaluation of this program has at best: FLOOR plus the conditioning of the
    documented component matrices in their float arguments.  A beam splitter's transmission amplitude
    s = sin(arccos(sqrt(r))) carries an absolute error ~1.2e-16 / s (3.8e-12 at r = 1 - 1e-9), a loss element's
    amplitude factor a = sqrt(1 - loss) one of ~3e-17 / a.  These errors are relative to the amplitude and pass the
    relative comparison as long as the amplitude is a factor of the entry; when two such amplitudes reach an entry on
    different paths and nearly cancel there, the difference keeps the absolute error, which is legitimate."""
    n_add = sum(1 for op in prog if op[0] == "add")
    tot = 0.0
    for op in prog:
        e, lossab = 0.0, None
        if op[0] == "bs":
            sv = abs(float(Fraction(op[5])))
            e = 1.2e-16 / sv if sv else 0.0
            lossab = op[7]
        elif op[0] == "ps":
            lossab = op[4]
        elif op[0] == "loss":
            lossab = [op[3], op[4]]
        if lossab:
            av = abs(float(Fraction(lossab[0])))
            e += (2 if op[0] == "bs" else 1) * 3e-17 / av if av else 0.0
        tot += e * (1 if op[1] == "c" else 1 + n_add)  # a component of a building block is there once per placement
    return FLOOR + 5 * tot


def parse_exact(rows: list) -> tuple:
    """the model's matrix as floats plus, per entry, whether its exact real / imaginary part is non-zero"""
    n = len(rows)
    val = np.zeros((n, n), dtype=complex)
    nzr = np.zeros((n, n), dtype=bool)
    nzi = np.zeros((n, n), dtype=bool)
    for i, r in enumerate(rows):
        for j, x in enumerate(r):
            g = GQ.parse(x)
            val[i, j] = complex(g)
            nzr[i, j] = g.re != 0
            nzi[i, j] = g.im != 0
    return val, nzr, nzi


def small_entry_problem(u: np.ndarray, exact: tuple, stats: dict | None = None) -> str | None:
    """relative comparison of the parts whose exact value is non-zero; None when they all agree"""
    val, nzr, nzi = exact
    if u.shape != val.shape:
        return None  # reported by the absolute comparison
    floor = (stats or {}).get("floor", FLOOR)
    for part, nz, a, b in (("real", nzr, u.real, val.real), ("imaginary", nzi, u.imag, val.imag)):
        bad = nz & (np.abs(a - b) > np.maximum(REL * np.abs(b), floor))
        if bad.any():
            i, j = (int(x) for x in np.argwhere(bad)[0])
            return f"{part} part of U[{i},{j}] is {a[i, j]!r}, the ordered product gives {b[i, j]!r}"
        if stats is not None:
            stats["small"] = stats.get("small", 0) + int(np.count_nonzero(nz & (np.abs(b) < 1e-3)))
    zero = (nzr | nzi) & (np.abs(val) > 1e-150) & (u == 0)
    if zero.any():
        i, j = (int(x) for x in np.argwhere(zero)[0])
        return f"U[{i},{j}] is reported as exactly 0, the ordered product gives {val[i, j]!r}"
    return None


def _check_obj(probs: list, cid: str, where: str, obs: dict, m: dict, stats: dict | None = None) -> None:
    """clauses of the property on one object at one read point (`m`: the model's state there)"""
    tag = f" [object {cid}, {where}]"
    if "U_full" not in obs:
        probs.append(f"oracle: valid program does not compile ({obs.get('U_error')})" + tag)
        return
    uf = obs["U_full"]
    n_loss = m["loss_modes"]
    if obs["n"] != m["n"]:
        probs.append(f"corr: n_modes impl={obs['n']} model={m['n']}" + tag)
    if uf.shape != (obs["n"] + n_loss, obs["n"] + n_loss):
        probs.append(f"oracle: U_full has shape {uf.shape}, expected one extra mode per loss element ({n_loss})" + tag)
        return
    if not mat_close(uf.conj().T @ uf, np.eye(uf.shape[0])) or not mat_close(uf @ uf.conj().T, np.eye(uf.shape[0])):
        probs.append("oracle: U_full is not unitary" + tag)
    blk = uf[: obs["n"], : obs["n"]]
    if not mat_close(obs["U"], blk, 1e-12) or np.any(np.abs(obs["U"] - blk) > np.maximum(REL * np.abs(blk), 1e-15)):
        probs.append("oracle: U is not the leading block of U_full" + tag)
    exact = parse_exact(m["U_spec"])
    if not mat_close(obs["U"], exact[0]):
        probs.append("oracle: U differs from the ordered product of the documented component matrices" + tag)
    else:
        small = small_entry_problem(obs["U"], exact, stats)
        if small:
            probs.append("oracle: U differs from the ordered product of the documented component matrices in a small "
                         f"entry (relative tolerance {REL:g}): {small}" + tag)
    if not mat_close(uf, parse_mat(m["U_full"])):
        probs.append("corr: U_full differs from the model's compile" + tag)


def run_case(ctx: Ctx, prog: list) -> list[str]:
    """returns a list of problem descriptions (empty = all clauses hold on this program).  The global settings are
    the defaults on entry and on exit, whatever the program sets and however it ends."""
    now = {k: getattr(lw.settings, k) for k in SETTINGS}
    if now != DEFAULTS:
        raise MachineryFault(f"global lightworks settings are not the defaults at the start of a program: {now}")
    with settings_scope():
        return _run_case(ctx, prog)


def _run_case(ctx: Ctx, prog: list) -> list[str]:
    probs: list[str] = []
    pool: dict = {}
    params: dict = {}
    impl_res: list = []
    reads: list = []  # (index of the last real op done, position in prog, {id: observables})
    fresh = None  # observables of every object, valid while no call has been made since they were read
    real = [op for op in prog if op[0] not in PSEUDO]
    client = cx.client_of(prog)  # the client's own containers (None: a fresh array / dict / list per call)
    for pos, op in enumerate(prog):
        if op[0] == "read":
            if pool:
                fresh = {cid: cg.observe(c) for cid, c in pool.items()}
                reads.append((len(impl_res) - 1, pos, fresh))
            continue
        if op[0] == "client":
            continue
        if op[0] == "setting":
            setattr(lw.settings, op[1], op[2])
            if fresh is not None:
                # nothing was built or changed since the last read: what is reported must not move with a setting
                after = {cid: cg.observe(c) for cid, c in pool.items()}
                for cid, before in fresh.items():
                    d = cx.diff(before, after[cid], 1e-14)
                    if d is not None:
                        probs.append(f"oracle: {d} of an unchanged circuit changed when settings.{op[1]} was set to "
                                     f"{op[2]!r} [object {cid}, after call #{len(impl_res) - 1}]")
                fresh = after
            continue
        if op[0] in ("scrub", "scribble"):
            # the client does something with ITS OWN data (a container it had handed over / a matrix it was handed):
            # no call is made, nothing that any live object reports may move
            before = fresh if fresh is not None else {cid: cg.observe(c) for cid, c in pool.items()}
            if op[0] == "scrub":
                what = (f"the client overwrote ({op[2]}) its own {CONTAINER[op[1]]}, which it had handed to the library earlier"
                        if client is not None and client.scrub(op[1], op[2]) else None)
            else:
                w = cx.scribble(pool, op[1], op[2], op[3])
                what = w and f"the client wrote into ({op[3]}) {w} of object {op[1]}"
            if what:
                after = {cid: cg.observe(c) for cid, c in pool.items()}
                for cid, b in before.items():
                    d = cx.diff(b, after[cid], 1e-14)
                    if d is not None:
                        probs.append(f"oracle: {d} of a circuit changed without any call: {what} [object {cid}, after call "
                                     f"#{len(impl_res) - 1}]")
                fresh = after
            continue
        r = cx.step(pool, op, params, client)
        impl_res.append(r)
        if r != "ok" and fresh is not None:
            for cid, before in fresh.items():
                if cx.diff(before, cg.observe(pool[cid]), 1e-9) is not None:
                    probs.append(f"oracle: rejected call {op[0]} ({r}) changed the circuit [object {cid}, call #{len(impl_res) - 1}]")
        elif r == "ok":
            fresh = None
    reads.append((len(real) - 1, len(prog), {cid: cg.observe(c) for cid, c in pool.items()}))
    if probs:
        return probs
    ids = [op[1] for op in real if op[0] in ("new", "unitary", "copy", "plus")]
    mid = reads[:-1]
    # the model's state at the read points.  Stepping the model is free, reporting the (exact) matrices
    # of a long circuit is what costs: short programs get the state after every call in one request,
    # long ones are compared at the end, at two read points chosen at random and at the first read
    # point (if any) where the long-lived objects differ from a fresh, never-read rebuild of the same
    # prefix (the reads in between are still performed on the implementation)
    every = len(mid) > 2 and len(real) <= LONG
    mres = ctx.model.call({"op": "circ", "prog": real, "observe": ids, "each": every})
    if impl_res != mres["results"]:
        idx = next(i for i, (a, b) in enumerate(zip(impl_res, mres["results"])) if a != b)
        probs.append(f"corr: call #{idx} {real[idx][:4]} impl={impl_res[idx]} model={mres['results'][idx]}")
        return probs
    if every:
        compare = [(k, snapshot, mres["snaps"][k]) for k, _pos, snapshot in reads]
    else:
        chosen = set(range(len(mid)))
        if len(mid) > 2:
            ctx.count("reads:long-program-compared-at-subset")
            chosen = set(random.Random(f"{len(real)}-{len(prog)}").sample(range(len(mid)), 2))
            for j, (k, pos, snapshot) in enumerate(mid):
                if j not in chosen and _differs_from_fresh(prog, pos, snapshot):
                    ctx.count("reads:differs-from-fresh-rebuild")
                    chosen.add(j)
                    break
        compare = []
        for j in sorted(chosen):
            k, _pos, snapshot = mid[j]
            if k == len(real) - 1:
                compare.append((k, snapshot, mres["final"]))
            else:
                compare.append((k, snapshot, ctx.model.call({"op": "circ", "prog": real[: k + 1], "observe": ids})["final"]))
        compare.append((reads[-1][0], reads[-1][2], mres["final"]))
    stats: dict = {"floor": float_floor(real)}
    for k, snapshot, mstate in compare:
        for cid, obs in snapshot.items():
            m = mstate.get(cid)
            if m is not None:
                _check_obj(probs, cid, f"after call #{k}", obs, m, stats)
        if probs:
            break
    if stats.get("small"):
        ctx.count("oracle:small-nonzero-parts-compared-relatively", stats["small"])
    return probs


LONG = 16  # calls; up to here the model reports its state after every call
CONTAINER = {"unitary": "ndarray work buffer(s) (Unitary(buffer))", "swaps": "dictionary (mode_swaps(dict))",
             "modes": "list of modes (barrier(list))"}


def _differs_from_fresh(prog: list, pos: int, snapshot: dict) -> bool:
    """rebuild everything before position `pos` of the program (same calls, same changes of settings) in a fresh
    pool that is never read before, and compare"""
    pool: dict = {}
    params: dict = {}
    client = cx.client_of(prog)
    with settings_scope(reset=True):
        for op in prog[:pos]:
            if op[0] == "setting":
                setattr(lw.settings, op[1], op[2])
            elif op[0] == "scrub":
                if client is not None:
                    client.scrub(op[1], op[2])
            elif op[0] == "scribble":
                cx.scribble(pool, op[1], op[2], op[3])
            elif op[0] not in ("read", "client"):
                cx.step(pool, op, params, client)
        return any(cid in pool and cx.diff(obs, cg.observe(pool[cid]), 1e-9) is not None for cid, obs in snapshot.items())


def classify(prog) -> tuple:
    kinds = tuple(sorted({op[0] + ("+loss" if op[0] in ("bs", "ps") and op[7 if op[0] == "bs" else 4] else "") for op in prog}))
    return kinds


def _stats(ctx: Ctx, prog: list) -> None:
    ops = [op[0] for op in prog]
    for k in set(ops):
        ctx.count("op:" + k, ops.count(k))
    built = False
    for i, op in enumerate(prog):
        if op[0] == "setting":
            ctx.count(f"settings:{op[1]}={op[2]:g}" + (" (default)" if op[2] == DEFAULTS[op[1]] else ""))
            ctx.count("settings:changed-" + ("after-components-were-added" if built else "before-anything-is-built"))
            if i > 0 and prog[i - 1][0] == "read" and i + 1 < len(prog) and prog[i + 1][0] == "read":
                ctx.count("settings:changed-between-two-reads")
        elif op[0] in ("bs", "ps", "loss", "swaps", "add"):
            built = True
    if "setting" in ops:
        # the driver has no notion of the settings: the model's answer is the one for every setting
        ctx.count("program:settings-changed:model-is-setting-independent")
    if any(cx.param_key(op) is not None for op in prog):
        ctx.count("program:with-Parameter")
    for op in prog:
        if op[0] == "client":
            ctx.count("client:unitary-blocks-from=" + op[1].get("unitary", "buffer"))
        elif op[0] == "scrub":
            ctx.count(f"client:scrub:{op[1]}:{op[2]}")
        elif op[0] == "scribble":
            ctx.count(f"client:scribble:{op[2]}:{op[3]}")
        elif op[0] == "plus":
            ctx.count("plus:" + ("self" if op[2] == op[3] else "two-operands"))
    if any(op[0] in cx.CLIENT_PSEUDO for op in prog):
        # the driver has no notion of object identity / of the client's memory: for the model a matrix is a value
        ctx.count("program:client-owned-data:model-sees-values-only")
    sums = [tuple(op[2:4]) for op in prog if op[0] == "plus"]
    if len(set(sums)) < len(sums):
        ctx.count("program:same-sum-evaluated-twice")
    nread = ops.count("read")
    nreal = len([o for o in ops if o not in PSEUDO])
    ctx.count("reads:" + ("end-only" if nread == 0 else "after-every-call" if nread >= nreal - 1 else "sparse"))
    placed: dict = {}
    for op in prog:
        if op[0] == "add" and op[1] == "c" and not op[2].startswith("u"):
            placed[op[2]] = placed.get(op[2], 0) + 1
            if op[3] > 0 and not op[4]:
                ctx.count("place:block-ungrouped@m>0")
    if any(v >= 2 for v in placed.values()):
        ctx.count("program:block-placed-twice-or-more")


def _one(ctx: Ctx, prog: list, sample: bool) -> None:
    probs = run_case(ctx, prog)
    _stats(ctx, prog)
    nontriv = sum(1 for op in prog if op[0] in ("bs", "ps", "loss", "swaps", "add")) >= 3
    ctx.case(repr(prog), nontriv, sample=prog if sample else None)
    if probs:
        ctx.count("programs_with_problems")

        def still(sub):
            p = [prog[0], *sub]
            return cx.well_formed([o for o in p if o[0] not in PSEUDO or o[0] == "read"]) and bool(run_case(ctx, p))

        small = [prog[0], *ddmin(prog[1:], still)]
        sprobs = run_case(ctx, small) or probs
        oracle = [p for p in sprobs if p.startswith("oracle")]
        if oracle:
            kind = oracle[0].split(":", 1)[1].split(" [")[0].strip()[:60]
            ctx.violation(oracle[0], {"program": small, "problems": sprobs},
                          sig={"kind": kind, "ops": sorted({o[0] for o in small})})
        else:
            ctx.disagreement(sprobs[0], {"program": small, "problems": sprobs})


def phase_probe(ctx: Ctx, rng) -> None:
    """"any phase": a phase shifter with a LARGE phase (|phi| up to 1e15 rad; a phase accumulated over a long path, or
    given in units that were not reduced) - implementation only, the model's phases are exact points of the unit circle.
    exp(i*phi) of the very double that was handed over is what the component's matrix element must be: libm reduces
    the argument exactly, a reduction by the inexact float 2*pi does not (error ~ |phi| * 2.4e-16)."""
    import cmath

    phi = rng.choice([1e8, 3e9, 1e10, 1e12, -1e12, 1e15, 123456789.125, -2.5e11]) * rng.choice([1, 1, 0.5, 3, 7])
    n = rng.randint(1, 4)
    m = rng.randrange(n)
    c = lw.Circuit(n)
    how = rng.choice(["const", "param", "param_set"])
    if how == "const":
        c.ps(m, phi)
    else:
        par = lw.Parameter(phi if how == "param" else 0.25)
        c.ps(m, par)
        if how == "param_set":
            _ = c.U
            par.set(phi)
    ctx.count("phase_probe:" + how)
    want = cmath.exp(1j * phi)
    try:
        got = complex(np.array(c.U)[m, m])
    except Exception as e:  # noqa: BLE001
        ctx.violation(f"oracle: a phase shifter with phase {phi!r} does not compile ({type(e).__name__})",
                      {"phase_probe": [n, m, phi, how]}, sig={"kind": "large-phase"})
        return
    if abs(got - want) > 1e-10:
        ctx.violation(f"oracle: U[{m},{m}] of a phase shifter with phase {phi!r} ({how}) is {got:.12g}, exp(i*phi) = {want:.12g} "
                      f"(deviation {abs(got - want):.3g})", {"phase_probe": [n, m, phi, how]}, sig={"kind": "large-phase"})
    ctx.case(json.dumps(["phase_probe", n, m, phi, how]), True)


def run(ctx: Ctx) -> None:
    prng = random.Random(f"C01-phase-{ctx.seed}")
    for _ in range(ctx.n(40, 400)):
        phase_probe(ctx, prng)
    ctx.rule = ("(1) directed corpus: read-mutate-read for every mutating method (bs, ps, loss, mode_swaps, barrier, "
                "add of a unitary / of a building block, herald, edit of a block after placement; loss-bearing calls, "
                "swaps and unitary blocks on a circuit that already has an ancilla mode), tiled building "
                "blocks holding grouped unitary blocks (depth 1 and 2), and circuits with tiny-amplitude components "
                "(reflectivity / loss 1e-6..1e-21 and 1-1e-6, 1-1e-9, phases next to 0, pi/2, pi, unitary blocks with "
                "such entries) whose life is crossed by a change of a global setting (unitary_precision 1e-12..1e-2, "
                "sampler_probability_threshold) before the build, after it, in the middle, between two reads, set and "
                "restored before the read; sums and copies (a + b, b + a, c + c, the same sum twice, sums of sums, copies of "
                "sums; operands, sums and copies extended afterwards; rejected sums) with every operand read again; "
                "client-owned containers (one ndarray work buffer / corner of a large array / column-major buffer for all "
                "unitary blocks, one dict for all mode_swaps, one list for all barriers) refilled per call and overwritten "
                "after Unitary(buf) / add / copy / +, and writes into handed-out U / U_full / heralds; "
                "(2) random construction programs (30% with a sibling circuit and copy / + steps, 35% run by a client that "
                "re-uses and overwrites its containers; 40% of them with tiny-amplitude "
                "components and / or 1-3 changes of a global setting at random points) on one "
                "circuit (1-8 modes, 0-40 calls, all component kinds, both conventions, unitary blocks via "
                "add(Unitary), building blocks placed repeatedly, ~15% invalid calls) with U/U_full of every live "
                "object read after every call / sparsely / at the end only; non-trivial = at least 3 "
                "matrix-changing calls; distinct = distinct op list")
    rng = ctx.rng
    for rep in range(ctx.n(2, 20)):
        for want in MUTATORS:
            if ctx.out_of_time():
                break
            ctx.count("corpus:reads-around:" + want)
            _one(ctx, directed_reads(rng, want), sample=False)
        for depth2 in (False, True):
            ctx.count("corpus:tiles-depth" + ("2" if depth2 else "1"))
            _one(ctx, directed_tiles(rng, depth2), sample=False)
        for si, shape in enumerate(SETTING_SHAPES):
            if ctx.out_of_time():
                break
            vals = PRECISIONS if shape != "sampler-threshold" else THRESHOLDS
            for j in (0, 2) if shape != "default-only" else (0,):
                ctx.count("corpus:settings:" + shape)
                _one(ctx, directed_settings(rng, shape, vals[(2 * rep + si + j) % len(vals)]), sample=False)
        for shape in SUM_SHAPES:
            if ctx.out_of_time():
                break
            ctx.count("corpus:sums:" + shape)
            _one(ctx, directed_sums(rng, shape), sample=False)
        for shape in CLIENT_SHAPES:
            if ctx.out_of_time():
                break
            ctx.count("corpus:client:" + shape)
            _one(ctx, directed_client(rng, shape), sample=False)
    N = ctx.n(250, 1900)
    for i in range(N):
        if ctx.out_of_time():
            break
        _one(ctx, gen_program(ctx, rng), sample=i < 2)


def replay(ctx: Ctx, path: str) -> None:
    data = json.load(open(path))
    if "phase_probe" in data["replay"]:
        n, m, phi, how = data["replay"]["phase_probe"]

        class _Fixed:  # replays the recorded draw
            def __init__(self, vals):
                self.vals = list(vals)

            def choice(self, _seq):
                return self.vals.pop(0)

            def randint(self, _a, _b):
                return self.vals.pop(0)

            def randrange(self, _a):
                return self.vals.pop(0)

        phase_probe(ctx, _Fixed([phi, 1, n, m, how]))
        return
    probs = run_case(ctx, data["replay"]["program"])
    ctx.case("replay", True, sample=data["replay"]["program"])
    for p in probs:
        print("replay:", p)
        if p.startswith("oracle"):
            ctx.violation(p, data["replay"], sig={"kind": "replay"})
        else:
            ctx.disagreement(p, data["replay"])
