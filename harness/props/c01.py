"""
C01 — a circuit compiles to the ordered product of its components.

Model: LW.Model.Circuit (compile, mirrors CompiledCircuit.add) and LW.Model.CircuitSpec
(orderedProd, the property's right-hand side).  Theorems: LW/Properties/C01.lean.

Per generated construction program (primitives + unitary blocks + building-block circuits, ~15 %
invalid calls) the implementation is compared with the model on: per-call outcome (ok / exception
class), n_modes, U_full (vs `compile`) and U (vs `orderedProd`, the specification); and the
property's own clauses are evaluated on the implementation: U_full unitary, exactly one extra mode
per loss element, U is the leading block of U_full, a rejected call leaves the observables unchanged.

A program is a list of ops on a pool of objects: the circuit under construction `c`, unitary blocks
`u*`, and building blocks `b*` / `w*` (circuits that themselves hold grouped unitary blocks or a
grouped building block) which are placed in `c` several times, grouped and ungrouped, at mode 0 and
at modes > 0, and edited between placements.  The pseudo-op ["read", "*"] marks a point at which
U / U_full / n_modes of EVERY live object are read and compared with the model's state at that point
(the driver reports the state after every call); there is always a read at the end.  Three read
policies: after every call, sparse, end only — a reported matrix must not depend on when, or how
often, it was asked for before.  A building block may carry a herald (grouping is then forced and
`c` gains an ancilla mode that every later call has to be mapped over).  Streams: (1) a directed
corpus (read - mutate - read around every mutating method, also on a circuit that already has an
ancilla mode; tiled building blocks of depth 1 and 2), (2) random programs.
"""

from __future__ import annotations

import json
import random

import numpy as np

import circgen as cg
import circgen_ext as cx
from core import CIRCLE, PYTH, Ctx, ddmin, mat_close, parse_mat

TRUSTED = [
    "Lean 4.33 kernel; Mathlib v4.33 as compiled on this image",
    "axioms: subset of {propext, Classical.choice, Quot.sound} (audited per theorem on every run)",
    "hand-written model LW.Model.Circuit / CircuitSpec tied to the code by this correspondence check",
    "float evaluation of sqrt/arccos/cos/sin/exp: real-analytic value up to rounding (1e-9 tolerance)",
    "driver JSON parser and harness comparison code",
]
ASSUMPTIONS = [
    "model scalars are exact Gaussian rationals (Pythagorean c,s; rational points on the unit circle); "
    "the code sees the corresponding floats",
    "programs: <= 8 modes, <= 40 calls on the circuit plus <= 3 building blocks of <= 4 modes in the correspondence "
    "check (theorems are unbounded)",
    "a Parameter that is never re-set stands for its value (re-setting is C10's subject)",
]

READ = ["read", "*"]


# --------------------------------------------------------------------------- generation


def _unitary_add(rng, prog: list, tgt: str, n: int, uid: str, p_over: float = 0.15, p_group: float = 0.3) -> None:
    """unitary block through add(Unitary(u), mode)"""
    sz = rng.randint(1, n)
    mode = rng.randint(0, n - sz)
    if rng.random() < p_over:
        mode = n - sz + rng.randint(1, 2)  # oversize -> rejected
    prog.append(["unitary", uid, cg.mat_json(cg.exact_unitary(rng, sz))])
    prog.append(["add", tgt, uid, mode, rng.random() < p_group])


def _block(rng, prog: list, bid: str, size: int, ptab: dict, uid: str) -> None:
    """building block: a circuit with a few primitives and (mostly) a grouped unitary block inside"""
    prog.append(["new", bid, size])
    for _ in range(rng.randint(0, 2)):
        prog.append(cx.with_param(rng, cg.rand_prim_op(rng, bid, size), ptab, 0.15))
    if rng.random() < 0.85:
        sz = rng.randint(1, size)
        room = size - sz
        m = rng.randint(1, room) if room > 0 and rng.random() < 0.7 else 0
        prog.append(["unitary", uid, cg.mat_json(cg.exact_unitary(rng, sz))])
        prog.append(["add", bid, uid, m, rng.random() < 0.8])
    for _ in range(rng.randint(0, 2)):
        prog.append(cx.with_param(rng, cg.rand_prim_op(rng, bid, size), ptab, 0.15))


def _place(rng, prog: list, n: int, bid: str, size: int, p_over: float = 0.12, p_group: float = 0.3) -> None:
    room = n - size
    if rng.random() < p_over:
        m = room + rng.randint(1, 2)
    elif room > 0 and rng.random() < 0.75:
        m = rng.randint(1, room)
    else:
        m = 0
    prog.append(["add", "c", bid, m, rng.random() < p_group])


def with_reads(rng, ops: list, policy: str | None = None) -> list:
    policy = policy or rng.choice(["every", "every", "every", "sparse", "sparse", "end"])
    if policy == "end":
        return list(ops)
    out = []
    for op in ops:
        out.append(op)
        if policy == "every" or rng.random() < 0.25:
            out.append(READ)
    return out


def gen_program(ctx: Ctx, rng) -> list:
    n = rng.randint(1, ctx.n(6, 8))
    k = rng.randint(0, ctx.n(14, 40))
    prog = [["new", "c", n]]
    ptab: dict = {}
    nblk = 0
    blocks: dict = {}  # building-block id -> size
    if n >= 2 and rng.random() < 0.4:
        for j in range(rng.randint(1, 2)):
            size = rng.randint(1, min(4, n - 1 if rng.random() < 0.85 else n))
            nblk += 1
            _block(rng, prog, f"b{j}", size, ptab, f"u{nblk}")
            blocks[f"b{j}"] = size
            if size >= 2 and rng.random() < 0.2:
                # a heralded block: grouping is forced and every placement gives `c` an ancilla mode, which
                # all later calls on `c` have to step over
                prog.append(["herald", f"b{j}", rng.choice([0, 1]), rng.randrange(size), rng.randrange(size)])
                blocks[f"b{j}"] = size - 1
                ctx.count("program:with-heralded-block")
        if rng.random() < 0.3:
            # depth 2: a wrapper that holds a building block as a group
            b0 = rng.choice(sorted(blocks))
            size = min(n, blocks[b0] + rng.randint(0, 1))
            prog.append(["new", "w0", size])
            prog.append(["add", "w0", b0, rng.randint(0, size - blocks[b0]), rng.random() < 0.85])
            if rng.random() < 0.5:
                prog.append(cg.rand_prim_op(rng, "w0", size))
            blocks["w0"] = size
        ctx.count("program:with-building-blocks")
    p_herald = 0.04 if rng.random() < 0.3 else 0.0
    for _ in range(k):
        r = rng.random()
        if blocks and r < 0.22:
            bid = rng.choice(sorted(blocks))
            _place(rng, prog, n, bid, blocks[bid])
        elif blocks and r < 0.27:
            bid = rng.choice(sorted(blocks))
            prog.append(cg.rand_prim_op(rng, bid, blocks[bid], p_invalid=0.1))  # edit between placements
        elif r < (0.35 if blocks else 0.12):
            nblk += 1
            _unitary_add(rng, prog, "c", n, f"u{nblk}")
        elif r < (0.35 if blocks else 0.12) + p_herald:
            prog.append(["herald", "c", rng.choice([0, 1, 2]), rng.randrange(n), rng.randrange(n)])
        else:
            prog.append(cx.with_param(rng, cg.rand_prim_op(rng, "c", n, p_invalid=0.15), ptab, 0.08))
    return [prog[0], *with_reads(rng, prog[1:])]


# ----- directed corpus


def _prim_of(rng, cid: str, n: int, want: str) -> list:
    """a valid primitive op of the wanted kind that changes the matrix (swaps: not the identity)"""
    for _ in range(400):
        op = cg.rand_prim_op(rng, cid, n)
        kind = op[0]
        if kind == "bs":
            kind = "bs+loss" if op[7] else "bs"
            if op[4] == "1":  # reflectivity 1 in the Rx convention is the identity
                continue
        elif kind == "ps":
            kind = "ps+loss" if op[4] else "ps"
            if op[3] in ("1,0", "1"):
                continue
        elif kind == "swaps" and all(a == b for a, b in op[2]):
            continue
        if kind == want:
            return op
    raise AssertionError(f"no {want} op generated for n={n}")


MUTATORS = ["bs", "bs+loss", "ps", "ps+loss", "loss", "swaps", "barrier", "add-unitary", "add-unitary-grouped",
            "add-block", "add-block-grouped", "herald", "edit-block-after-placement",
            "bs+loss@ancilla", "ps+loss@ancilla", "loss@ancilla", "swaps@ancilla", "add-unitary@ancilla"]


def directed_reads(rng, want: str) -> list:
    """read — mutate — read for one mutating method, twice, with other calls around it: the matrix
    reported after the call must contain the call's effect whatever was read before"""
    n = rng.randint(3, 5)
    prog: list = [["new", "c", n]]
    ptab: dict = {}
    if want.endswith("@ancilla"):
        # the circuit already holds a heralded sub-circuit: its ancilla mode sits below / between the user
        # modes and the call under test has to be mapped over it
        want = want[: -len("@ancilla")]
        hs = rng.choice([2, 2, 3])
        prog += [["new", "h0", hs], cg.op_bs("h0", 0, 1, *rng.choice(PYTH[1:-1])),
                 ["herald", "h0", rng.choice([0, 1]), rng.randrange(hs), rng.randrange(hs)],
                 ["add", "c", "h0", rng.choice([0, 0, 1]), rng.random() < 0.5]]
    blocks_first = want in ("add-block", "add-block-grouped", "edit-block-after-placement")
    if blocks_first:
        _block(rng, prog, "b0", rng.randint(1, n - 1), ptab, "u0")
        size = prog[[op[1] for op in prog].index("b0")][2]
    for _ in range(rng.randint(0, 2)):
        prog.append(_prim_of(rng, "c", n, rng.choice(["bs", "ps", "swaps"])))
    prog.append(READ)
    for rep in range(2):
        if want in ("bs", "bs+loss", "ps", "ps+loss", "loss", "swaps", "barrier"):
            prog.append(_prim_of(rng, "c", n, want))
        elif want.startswith("add-unitary"):
            sz = rng.randint(1, n)
            u = cg.exact_unitary(rng, sz, depth=2 * sz + 1)
            prog.append(["unitary", f"u{rep + 1}", cg.mat_json(u)])
            prog.append(["add", "c", f"u{rep + 1}", rng.randint(0, n - sz), want.endswith("grouped")])
        elif want.startswith("add-block"):
            prog.append(["add", "c", "b0", rng.randint(0 if rep else min(1, n - size), n - size), want.endswith("grouped")])
        elif want == "herald":
            prog.append(["herald", "c", rng.choice([0, 1]), rep, n - 1 - rep])
        else:  # edit-block-after-placement: c must not follow later edits of the block
            prog.append(["add", "c", "b0", rng.randint(0, n - size), bool(rep)])
            prog.append(READ)
            prog.append(_prim_of(rng, "b0", size, rng.choice(["ps", "loss"] + (["bs", "swaps"] if size > 1 else []))))
        prog.append(READ)
        if rep == 0 and rng.random() < 0.6:
            prog.append(_prim_of(rng, "c", n, rng.choice(["bs", "ps", "swaps", "loss"])))
            if rng.random() < 0.5:
                prog.append(READ)
    return prog


def directed_tiles(rng, depth2: bool) -> list:
    """a building block holding a grouped unitary block, placed two or three times in a larger circuit
    (ungrouped at modes > 0 first), with other components in between"""
    sz = rng.randint(1, 2)
    size = sz + rng.randint(0, 2)
    n = size + rng.randint(2, 3) + (1 if depth2 else 0)
    ops: list = [["unitary", "u0", cg.mat_json(cg.exact_unitary(rng, sz, depth=2 * sz + 1))], ["new", "b0", size]]
    if rng.random() < 0.7:
        ops.append(_prim_of(rng, "b0", size, rng.choice(["ps", "loss"] + (["bs"] if size > 1 else []))))
    ops.append(["add", "b0", "u0", rng.randint(min(1, size - sz), size - sz), True])
    tile, tsize = "b0", size
    if depth2:
        tsize = size + rng.randint(0, 1)
        ops += [["new", "w0", tsize], ["add", "w0", "b0", rng.randint(0, tsize - size), True]]
        if rng.random() < 0.5:
            ops.append(_prim_of(rng, "w0", tsize, "ps"))
        tile = "w0"
    room = n - tsize
    ops.append(["add", "c", tile, rng.randint(1, room), False])
    ops.append(_prim_of(rng, "c", n, rng.choice(["bs", "ps", "swaps"])))
    ops.append(["add", "c", tile, rng.randint(1, room), False])
    if rng.random() < 0.6:
        ops.append(["add", "c", tile, rng.randint(0, room), rng.random() < 0.5])
    if rng.random() < 0.5:
        ops.append(_prim_of(rng, "c", n, rng.choice(["bs", "loss"])))
    return [["new", "c", n], *with_reads(rng, ops)]


# --------------------------------------------------------------------------- one program


def _check_obj(probs: list, cid: str, where: str, obs: dict, m: dict) -> None:
    """clauses of the property on one object at one read point (`m`: the model's state there)"""
    tag = f" [object {cid}, {where}]"
    if "U_full" not in obs:
        probs.append(f"oracle: valid program does not compile ({obs.get('U_error')})" + tag)
        return
    uf = obs["U_full"]
    n_loss = m["loss_modes"]
    if obs["n"] != m["n"]:
        probs.append(f"corr: n_modes impl={obs['n']} model={m['n']}" + tag)
    if uf.shape != (obs["n"] + n_loss, obs["n"] + n_loss):
        probs.append(f"oracle: U_full has shape {uf.shape}, expected one extra mode per loss element ({n_loss})" + tag)
        return
    if not mat_close(uf.conj().T @ uf, np.eye(uf.shape[0])) or not mat_close(uf @ uf.conj().T, np.eye(uf.shape[0])):
        probs.append("oracle: U_full is not unitary" + tag)
    if not mat_close(obs["U"], uf[: obs["n"], : obs["n"]], 1e-12):
        probs.append("oracle: U is not the leading block of U_full" + tag)
    if not mat_close(obs["U"], parse_mat(m["U_spec"])):
        probs.append("oracle: U differs from the ordered product of the documented component matrices" + tag)
    if not mat_close(uf, parse_mat(m["U_full"])):
        probs.append("corr: U_full differs from the model's compile" + tag)


def run_case(ctx: Ctx, prog: list) -> list[str]:
    """returns a list of problem descriptions (empty = all clauses hold on this program)"""
    probs: list[str] = []
    pool: dict = {}
    params: dict = {}
    impl_res: list = []
    reads: list = []  # (index of the last real op done, {id: observables})
    fresh = None  # observables of every object, valid while no call has been made since they were read
    real = [op for op in prog if op[0] != "read"]
    for op in prog:
        if op[0] == "read":
            if pool:
                fresh = {cid: cg.observe(c) for cid, c in pool.items()}
                reads.append((len(impl_res) - 1, fresh))
            continue
        r = cx.apply_op(pool, op, params)
        impl_res.append(r)
        if r != "ok" and fresh is not None:
            for cid, before in fresh.items():
                if cx.diff(before, cg.observe(pool[cid]), 1e-9) is not None:
                    probs.append(f"oracle: rejected call {op[0]} ({r}) changed the circuit [object {cid}, call #{len(impl_res) - 1}]")
        elif r == "ok":
            fresh = None
    reads.append((len(real) - 1, {cid: cg.observe(c) for cid, c in pool.items()}))
    ids = [op[1] for op in real if op[0] in ("new", "unitary", "copy", "plus")]
    mid = reads[:-1]
    # the model's state at the read points.  Stepping the model is free, reporting the (exact) matrices
    # of a long circuit is what costs: short programs get the state after every call in one request,
    # long ones are compared at the end, at two read points chosen at random and at the first read
    # point (if any) where the long-lived objects differ from a fresh, never-read rebuild of the same
    # prefix (the reads in between are still performed on the implementation)
    every = len(mid) > 2 and len(real) <= LONG
    mres = ctx.model.call({"op": "circ", "prog": real, "observe": ids, "each": every})
    if impl_res != mres["results"]:
        idx = next(i for i, (a, b) in enumerate(zip(impl_res, mres["results"])) if a != b)
        probs.append(f"corr: call #{idx} {real[idx][:4]} impl={impl_res[idx]} model={mres['results'][idx]}")
        return probs
    if every:
        compare = [(k, snapshot, mres["snaps"][k]) for k, snapshot in reads]
    else:
        chosen = set(range(len(mid)))
        if len(mid) > 2:
            ctx.count("reads:long-program-compared-at-subset")
            chosen = set(random.Random(f"{len(real)}-{len(prog)}").sample(range(len(mid)), 2))
            for j, (k, snapshot) in enumerate(mid):
                if j not in chosen and _differs_from_fresh(real, k, snapshot):
                    ctx.count("reads:differs-from-fresh-rebuild")
                    chosen.add(j)
                    break
        compare = []
        for j in sorted(chosen):
            k, snapshot = mid[j]
            if k == len(real) - 1:
                compare.append((k, snapshot, mres["final"]))
            else:
                compare.append((k, snapshot, ctx.model.call({"op": "circ", "prog": real[: k + 1], "observe": ids})["final"]))
        compare.append((reads[-1][0], reads[-1][1], mres["final"]))
    for k, snapshot, mstate in compare:
        for cid, obs in snapshot.items():
            m = mstate.get(cid)
            if m is not None:
                _check_obj(probs, cid, f"after call #{k}", obs, m)
        if probs:
            break
    return probs


LONG = 16  # calls; up to here the model reports its state after every call


def _differs_from_fresh(real: list, k: int, snapshot: dict) -> bool:
    """rebuild the first k+1 calls in a fresh pool that is never read before, and compare"""
    pool: dict = {}
    params: dict = {}
    for op in real[: k + 1]:
        cx.apply_op(pool, op, params)
    return any(cid in pool and cx.diff(obs, cg.observe(pool[cid]), 1e-9) is not None for cid, obs in snapshot.items())


def classify(prog) -> tuple:
    kinds = tuple(sorted({op[0] + ("+loss" if op[0] in ("bs", "ps") and op[7 if op[0] == "bs" else 4] else "") for op in prog}))
    return kinds


def _stats(ctx: Ctx, prog: list) -> None:
    ops = [op[0] for op in prog]
    for k in set(ops):
        ctx.count("op:" + k, ops.count(k))
    if any(cx.param_key(op) is not None for op in prog):
        ctx.count("program:with-Parameter")
    nread = ops.count("read")
    nreal = len(ops) - nread
    ctx.count("reads:" + ("end-only" if nread == 0 else "after-every-call" if nread >= nreal - 1 else "sparse"))
    placed: dict = {}
    for op in prog:
        if op[0] == "add" and op[1] == "c" and not op[2].startswith("u"):
            placed[op[2]] = placed.get(op[2], 0) + 1
            if op[3] > 0 and not op[4]:
                ctx.count("place:block-ungrouped@m>0")
    if any(v >= 2 for v in placed.values()):
        ctx.count("program:block-placed-twice-or-more")


def _one(ctx: Ctx, prog: list, sample: bool) -> None:
    probs = run_case(ctx, prog)
    _stats(ctx, prog)
    nontriv = sum(1 for op in prog if op[0] in ("bs", "ps", "loss", "swaps", "add")) >= 3
    ctx.case(repr(prog), nontriv, sample=prog if sample else None)
    if probs:
        ctx.count("programs_with_problems")

        def still(sub):
            p = [prog[0], *sub]
            return cx.well_formed(p) and bool(run_case(ctx, p))

        small = [prog[0], *ddmin(prog[1:], still)]
        sprobs = run_case(ctx, small) or probs
        oracle = [p for p in sprobs if p.startswith("oracle")]
        if oracle:
            kind = oracle[0].split(":", 1)[1].split(" [")[0].strip()[:60]
            ctx.violation(oracle[0], {"program": small, "problems": sprobs},
                          sig={"kind": kind, "ops": sorted({o[0] for o in small})})
        else:
            ctx.disagreement(sprobs[0], {"program": small, "problems": sprobs})


def run(ctx: Ctx) -> None:
    ctx.rule = ("(1) directed corpus: read-mutate-read for every mutating method (bs, ps, loss, mode_swaps, barrier, "
                "add of a unitary / of a building block, herald, edit of a block after placement; loss-bearing calls, "
                "swaps and unitary blocks on a circuit that already has an ancilla mode) and tiled building "
                "blocks holding grouped unitary blocks (depth 1 and 2); (2) random construction programs on one "
                "circuit (1-8 modes, 0-40 calls, all component kinds, both conventions, unitary blocks via "
                "add(Unitary), building blocks placed repeatedly, ~15% invalid calls) with U/U_full of every live "
                "object read after every call / sparsely / at the end only; non-trivial = at least 3 "
                "matrix-changing calls; distinct = distinct op list")
    rng = ctx.rng
    for rep in range(ctx.n(2, 30)):
        for want in MUTATORS:
            if ctx.out_of_time():
                break
            ctx.count("corpus:reads-around:" + want)
            _one(ctx, directed_reads(rng, want), sample=False)
        for depth2 in (False, True):
            ctx.count("corpus:tiles-depth" + ("2" if depth2 else "1"))
            _one(ctx, directed_tiles(rng, depth2), sample=False)
    N = ctx.n(250, 3000)
    for i in range(N):
        if ctx.out_of_time():
            break
        _one(ctx, gen_program(ctx, rng), sample=i < 2)


def replay(ctx: Ctx, path: str) -> None:
    data = json.load(open(path))
    probs = run_case(ctx, data["replay"]["program"])
    ctx.case("replay", True, sample=data["replay"]["program"])
    for p in probs:
        print("replay:", p)
        if p.startswith("oracle"):
            ctx.violation(p, data["replay"], sig={"kind": "replay"})
        else:
            ctx.disagreement(p, data["replay"])
