"""
C09 — circuit rewrites preserve the transformation.

Model: LW.Model.Rewrite (compressSwaps, convertNonAdj), LW.Model.Circuit (unpackSpec,
unpackGroups).  A generated circuit (dense mode swaps interleaved with every component kind,
plain and heralded groups, reversed non-adjacent beam splitters) is put through a random sequence
of rewrites; after every rewrite the implementation must still report the same U_full, heralds and
input size as before the first rewrite (property oracle), must satisfy the structural
postcondition of that rewrite, and must agree with the model run on the same program.
"""

from __future__ import annotations

import json

import numpy as np

import circgen as cg
import lightworks as lw
from core import CIRCLE, PYTH, Ctx, ddmin, mat_close, parse_mat
from lightworks.sdk.circuit.components import BeamSplitter, Group, ModeSwaps
from props.c02 import Gen

TRUSTED = [
    "Lean 4.33 kernel; Mathlib v4.33 as compiled on this image",
    "axioms: subset of {propext, Classical.choice, Quot.sound} (audited per theorem on every run)",
    "hand-written model LW.Model.Rewrite / Circuit tied to the code by this correspondence check",
    "float evaluation of sqrt/arccos/cos/sin/exp up to rounding (1e-9 tolerance)",
    "structural postconditions are read through Circuit._get_circuit_spec() (read-only)",
]
ASSUMPTIONS = ["<= 7 modes, <= 25 components, <= 5 rewrites per circuit in the correspondence check"]

REWRITES = ["unpack", "compress", "nonadj", "copy"]


def gen_swappy(ctx: Ctx, rng) -> list:
    """one circuit with many swaps on small supports, separated by single-mode components"""
    n = rng.randint(2, 7)
    prog = [["new", "c1", n]]
    for _ in range(rng.randint(3, 14)):
        r = rng.random()
        if r < 0.55:
            k = rng.choice([2, 2, 2, 3, min(4, n)])
            k = min(k, n)
            modes = rng.sample(range(n), k)
            prog.append(["swaps", "c1", cg.rand_perm_pairs(rng, modes)])
        elif r < 0.75:
            prog.append(cg.op_ps("c1", rng.randrange(n), rng.choice(CIRCLE)))
        elif r < 0.85:
            m1, m2 = rng.sample(range(n), 2)
            c, s = rng.choice(PYTH)
            prog.append(cg.op_bs("c1", m1, m2, c, s, rng.choice(["Rx", "H"])))
        elif r < 0.92:
            a, b = rng.choice(PYTH)
            prog.append(cg.op_loss("c1", rng.randrange(n), a, b))
        else:
            prog.append(["barrier", "c1", [m for m in range(n) if rng.random() < 0.5]])
    return prog


def spec_has_group(spec) -> bool:
    return any(isinstance(s, Group) for s in spec)


def nonadj_bs(spec) -> bool:
    for s in spec:
        if isinstance(s, Group):
            if nonadj_bs(s.circuit_spec):
                return True
        elif isinstance(s, BeamSplitter) and abs(s.mode_1 - s.mode_2) != 1:
            return True
    return False


def run_case(ctx: Ctx, prog: list, top: str, rewrites: list) -> list[str]:
    probs: list[str] = []
    pool: dict = {}
    for op in prog:
        cg.apply_op(pool, op)
    if top not in pool:
        return probs
    c = pool[top]
    base = cg.observe(c)
    if "U_full" not in base:
        return [f"oracle: generated circuit does not compile ({base.get('U_error')})"]
    full = list(prog)
    cur = top
    for k, rw in enumerate(rewrites):
        before_len = len(pool[cur]._get_circuit_spec())
        if rw == "copy":
            new = f"{top}_cp{k}"
            op = ["copy", new, cur]
        else:
            op = [rw, cur]
        r = cg.apply_op(pool, op)
        full.append(op)
        if r != "ok":
            probs.append(f"oracle: rewrite {rw} raised {r}")
            return probs
        if rw == "copy":
            # the copy must share no mutable structure: editing it leaves the original alone
            orig = cg.observe(pool[cur])
            cp = pool[new]
            try:
                cp.ps(0, 1.0)
                if cp.n_modes - len(cp._internal_modes) >= 2:
                    cp.bs(0, 1)
                # declare a further herald on the copy (the only call that updates herald dicts in place)
                free_in = [m for m in range(cp.n_modes) if m not in cp.heralds["input"]]
                free_out = [m for m in range(cp.n_modes) if m not in cp.heralds["output"]]
                if free_in and free_out:
                    users = [m for m in range(cp.n_modes - len(cp._internal_modes))]
                    for ui in users:
                        for uo in users:
                            if cp._map_mode(ui) in free_in and cp._map_mode(uo) in free_out:
                                cp.herald(0, ui, uo)
                                break
                        else:
                            continue
                        break
            except Exception as e:  # noqa: BLE001
                probs.append(f"oracle: editing a copy raised {type(e).__name__}")
            now = cg.observe(pool[cur])
            if "U_full" not in now or not mat_close(orig["U_full"], now["U_full"]) or \
                    orig["in_heralds"] != now["in_heralds"] or orig["out_heralds"] != now["out_heralds"] or \
                    orig["input_modes"] != now["input_modes"]:
                probs.append("oracle: editing a copy changed the original")
            pool[new] = pool[cur].copy()
            cur = new
        obs = cg.observe(pool[cur])
        spec = pool[cur]._get_circuit_spec()
        if "U_full" not in obs:
            probs.append(f"oracle: after {rw} the circuit does not compile ({obs.get('U_error')})")
            return probs
        if obs["U_full"].shape != base["U_full"].shape or not mat_close(obs["U_full"], base["U_full"]):
            probs.append(f"oracle: U_full changed by rewrite #{k} {rw}")
        if sorted(map(tuple, obs["in_heralds"])) != sorted(map(tuple, base["in_heralds"])) or \
                sorted(map(tuple, obs["out_heralds"])) != sorted(map(tuple, base["out_heralds"])):
            probs.append(f"oracle: heralds changed by rewrite #{k} {rw}")
        if obs["input_modes"] != base["input_modes"] or obs["n"] != base["n"]:
            probs.append(f"oracle: input size / n_modes changed by rewrite #{k} {rw}")
        if rw == "unpack" and spec_has_group(spec):
            probs.append("oracle: a group remains after unpack_groups")
        if rw == "nonadj" and nonadj_bs(spec):
            probs.append("oracle: a non-adjacent beam splitter remains after remove_non_adjacent_bs")
        if rw == "compress" and len(spec) > before_len:
            probs.append("oracle: compress_mode_swaps increased the number of components")
        if probs:
            return probs
    # model on the same program
    mres = ctx.model.call({"op": "circ", "prog": full, "observe": [cur]})
    m = mres["final"][cur]
    obs = cg.observe(pool[cur])
    if m is None:
        probs.append("corr: model lost the circuit")
    elif obs["n"] != m["n"] or not mat_close(obs["U_full"], parse_mat(m["U_full"])):
        probs.append("corr: U_full after the rewrites differs from the model")
    return probs


def run(ctx: Ctx) -> None:
    ctx.rule = ("circuits from the C02 tree generator and a swap-dense generator, followed by 1-5 random rewrites "
                "(unpack_groups, compress_mode_swaps, remove_non_adjacent_bs, copy); non-trivial = the circuit holds a "
                "mode swap or a group or a non-adjacent beam splitter; distinct = distinct (program, rewrites)")
    N = ctx.n(300, 8000)
    rng = ctx.rng
    for i in range(N):
        if ctx.out_of_time():
            break
        if rng.random() < 0.5:
            prog = gen_swappy(ctx, rng)
            top = "c1"
            ctx.count("gen:swap-dense")
        else:
            g = Gen(ctx, rng)
            g.circuit(rng.choice([0, 1, 2]))
            prog, top = g.prog, "c1"
            ctx.count("gen:tree")
        rewrites = [rng.choice(REWRITES) for _ in range(rng.randint(1, 5))]
        for rw in rewrites:
            ctx.count("rewrite:" + rw)
        probs = run_case(ctx, prog, top, rewrites)
        nontriv = any(op[0] in ("swaps", "add") for op in prog) or any(
            op[0] == "bs" and abs(op[2] - op[3]) != 1 for op in prog)
        ctx.case(repr((prog, rewrites)), nontriv, sample={"program": prog, "rewrites": rewrites} if i < 2 else None)
        if probs:
            ctx.count("programs_with_problems")

            def still(sub):
                return cg.well_formed(sub) and sub and sub[0][0] == "new" and sub[0][1] == top and \
                    bool(run_case(ctx, sub, top, rewrites))

            small = ddmin(prog, still)
            rsmall = ddmin(rewrites, lambda rs: bool(run_case(ctx, small, top, rs))) if len(rewrites) > 1 else rewrites
            sprobs = run_case(ctx, small, top, rsmall) or probs
            oracle = [p for p in sprobs if p.startswith("oracle")]
            rep = {"program": small, "rewrites": rsmall, "top": top, "problems": sprobs}
            if oracle:
                ctx.violation(oracle[0], rep, sig={"kind": oracle[0][8:40], "rewrites": rsmall})
            else:
                ctx.disagreement(sprobs[0], rep)


def replay(ctx: Ctx, path: str) -> None:
    data = json.load(open(path))["replay"]
    probs = run_case(ctx, data["program"], data["top"], data["rewrites"])
    ctx.case("replay", True, sample=data)
    for p in probs:
        print("replay:", p)
        if p.startswith("oracle"):
            ctx.violation(p, data, sig={"kind": "replay"})
        else:
            ctx.disagreement(p, data)
