"""
C09 — circuit rewrites preserve the transformation.

Model: LW.Model.Rewrite (compressSwaps, convertNonAdj), LW.Model.Circuit (unpackSpec,
unpackGroups).

Streams, in this order:
  1. directed corpus of HISTORIES (helpers in harness/c09gen.py):
     * hoist:   a block (group / grouped unitary / ungrouped) on every span of a 4-mode circuit, a heralded
                sub-circuit whose ancilla is inserted at every position relative to it (before, at either
                boundary, inside, after; also placed BEFORE the block), one swap before and one after, the
                latter on the block's boundary modes; then every rewrite sequence;
     * params:  a Parameter (phase / reflectivity / loss / the shared loss= of a beam splitter) at the top
                level, inside a group, inside a group that arrived through a nested addition, inside a
                heralded group, shared between the top level and a group; every rewrite sequence (also on a
                copy / frozen copy); then Parameter.set, a further rewrite, Parameter.set again;
     * family:  original, copy(), copy(freeze_parameters=True), copy of the copy, a + b, b + a, hosts that
                hold the original as an added sub-circuit (grouped / not): ONE member is rewritten, every
                member is looked at, then every other member is rewritten too;
  1b. VALUES AT REWRITE TIME (c09gen.corpus_degenerate, then c09gen.degenerate_history, own random stream):
     a phase / reflectivity / loss element / loss= keyword - Parameter-valued or constant, at the top level,
     inside a group, an ungrouped or nested or heralded block, shared between the top level and a group - holds
     a DEGENERATE value (loss 0 or 1, reflectivity 1 or 0 in both conventions, phase 0, pi, 2*pi, -pi) while the
     rewrites run and is the only thing between two swaps of which the second acts on its modes; every rewrite
     sequence is applied to copies that stay linked to the same Parameters (and to frozen copies); THEN the
     Parameters move to generic values, everybody is rewritten again, they move to another degenerate value,
     rewrites, generic again.  A rewrite may not specialise on the value a live Parameter holds when it runs;
  2. the one-circuit programs of the first version (swap-dense generator and the C02 tree generator followed
     by 1-5 random rewrites incl. copy, with the copy-mutation probe) - `run_case`;
  3. random histories: swaps (biased to the boundary modes of the blocks added so far), plain / grouped /
     heralded additions at random positions, nested cells, unitary blocks, declared heralds, rewrites in
     mid-construction, Parameter-valued calls at every depth; then related circuits (copies, frozen copies,
     sums in both orders, hosts) with edits on either side; then rewrites on ANY live circuit (also the
     sub-circuits that were added somewhere) interleaved with Parameter.set and further edits.

Oracle of the history streams (`run_history`): after every rewrite, every Parameter.set, every herald
call and at the end, EVERY live circuit must still be observably equal (n_modes, input size, heralds,
U_full, still compilable) to the same construction rebuilt from scratch on the implementation, without
rewrites / copies / Parameters, with the values the circuit is entitled to see now (current values for
live links, values at the time of the copy for frozen copies) - `c09gen.Sym`.  This is the property's
clause "the rewrite changes nothing" read over the whole remaining life of the objects: the rewritten
circuit keeps following its Parameters, and no other circuit notices that a relative was rewritten.
The target of a rewrite is additionally compared with itself before the rewrite and must satisfy the
structural postcondition.  Correspondence: the history up to the first Parameter.set is run on the
model with the rewrites (values as literals), and the final state of every live circuit is compared
with the model run on the rebuilt programs.
"""

from __future__ import annotations

import json
import random
import time

import numpy as np

import c09gen as hg
import circgen as cg
import lightworks as lw
from core import CIRCLE, PYTH, Ctx, ddmin, mat_close, parse_mat
from lightworks.sdk.circuit.components import BeamSplitter, Group, ModeSwaps
from props.c02 import Gen

TRUSTED = [
    "Lean 4.33 kernel; Mathlib v4.33 as compiled on this image",
    "axioms: subset of {propext, Classical.choice, Quot.sound} (audited per theorem on every run)",
    "hand-written model LW.Model.Rewrite / Circuit tied to the code by this correspondence check",
    "float evaluation of sqrt/arccos/cos/sin/exp up to rounding (1e-9 tolerance)",
    "structural postconditions are read through Circuit._get_circuit_spec() (read-only)",
]
ASSUMPTIONS = ["<= 7 modes, <= 25 components, <= 5 rewrites per circuit in the one-circuit programs",
               "histories: main circuits with 3-6 user modes, <= ~10 construction steps, <= 6 related circuits, "
               "<= 8 rewrite / Parameter.set events (values-at-rewrite-time histories: <= 10 related circuits, <= 35 "
               "events); Parameters take exact values (rational points of the circle, Pythagorean reflectivities and "
               "losses, incl. 0 / 1 / pi and phases wound by +-2*pi); groups nest at most one level in constructible circuits "
               "(Circuit.add flattens what it groups), deeper nesting is exercised through nested additions"]

REWRITES = ["unpack", "compress", "nonadj", "copy"]


def gen_swappy(ctx: Ctx, rng) -> list:
    """one circuit with many swaps on small supports, separated by single-mode components"""
    n = rng.randint(2, 7)
    prog = [["new", "c1", n]]
    for _ in range(rng.randint(3, 14)):
        r = rng.random()
        if r < 0.55:
            k = rng.choice([2, 2, 2, 3, min(4, n)])
            k = min(k, n)
            modes = rng.sample(range(n), k)
            prog.append(["swaps", "c1", cg.rand_perm_pairs(rng, modes)])
        elif r < 0.75:
            prog.append(cg.op_ps("c1", rng.randrange(n), rng.choice(CIRCLE)))
        elif r < 0.85:
            m1, m2 = rng.sample(range(n), 2)
            c, s = rng.choice(PYTH)
            prog.append(cg.op_bs("c1", m1, m2, c, s, rng.choice(["Rx", "H"])))
        elif r < 0.92:
            a, b = rng.choice(PYTH)
            prog.append(cg.op_loss("c1", rng.randrange(n), a, b))
        else:
            prog.append(["barrier", "c1", [m for m in range(n) if rng.random() < 0.5]])
    return prog


def spec_has_group(spec) -> bool:
    return any(isinstance(s, Group) for s in spec)


def nonadj_bs(spec) -> bool:
    for s in spec:
        if isinstance(s, Group):
            if nonadj_bs(s.circuit_spec):
                return True
        elif isinstance(s, BeamSplitter) and abs(s.mode_1 - s.mode_2) != 1:
            return True
    return False


def run_case(ctx: Ctx, prog: list, top: str, rewrites: list) -> list[str]:
    probs: list[str] = []
    pool: dict = {}
    for op in prog:
        cg.apply_op(pool, op)
    if top not in pool:
        return probs
    c = pool[top]
    base = cg.observe(c)
    if "U_full" not in base:
        return [f"oracle: generated circuit does not compile ({base.get('U_error')})"]
    full = list(prog)
    cur = top
    for k, rw in enumerate(rewrites):
        before_len = len(pool[cur]._get_circuit_spec())
        if rw == "copy":
            new = f"{top}_cp{k}"
            op = ["copy", new, cur]
        else:
            op = [rw, cur]
        r = cg.apply_op(pool, op)
        full.append(op)
        if r != "ok":
            probs.append(f"oracle: rewrite {rw} raised {r}")
            return probs
        if rw == "copy":
            # the copy must share no mutable structure: editing it leaves the original alone
            orig = cg.observe(pool[cur])
            cp = pool[new]
            try:
                cp.ps(0, 1.0)
                if cp.n_modes - len(cp._internal_modes) >= 2:
                    cp.bs(0, 1)
                # declare a further herald on the copy (the only call that updates herald dicts in place)
                free_in = [m for m in range(cp.n_modes) if m not in cp.heralds["input"]]
                free_out = [m for m in range(cp.n_modes) if m not in cp.heralds["output"]]
                if free_in and free_out:
                    users = [m for m in range(cp.n_modes - len(cp._internal_modes))]
                    for ui in users:
                        for uo in users:
                            if cp._map_mode(ui) in free_in and cp._map_mode(uo) in free_out:
                                cp.herald(0, ui, uo)
                                break
                        else:
                            continue
                        break
            except Exception as e:  # noqa: BLE001
                probs.append(f"oracle: editing a copy raised {type(e).__name__}")
            now = cg.observe(pool[cur])
            if "U_full" not in now or not mat_close(orig["U_full"], now["U_full"]) or \
                    orig["in_heralds"] != now["in_heralds"] or orig["out_heralds"] != now["out_heralds"] or \
                    orig["input_modes"] != now["input_modes"]:
                probs.append("oracle: editing a copy changed the original")
            pool[new] = pool[cur].copy()
            cur = new
        obs = cg.observe(pool[cur])
        spec = pool[cur]._get_circuit_spec()
        if "U_full" not in obs:
            probs.append(f"oracle: after {rw} the circuit does not compile ({obs.get('U_error')})")
            return probs
        if obs["U_full"].shape != base["U_full"].shape or not mat_close(obs["U_full"], base["U_full"]):
            probs.append(f"oracle: U_full changed by rewrite #{k} {rw}")
        if sorted(map(tuple, obs["in_heralds"])) != sorted(map(tuple, base["in_heralds"])) or \
                sorted(map(tuple, obs["out_heralds"])) != sorted(map(tuple, base["out_heralds"])):
            probs.append(f"oracle: heralds changed by rewrite #{k} {rw}")
        if obs["input_modes"] != base["input_modes"] or obs["n"] != base["n"]:
            probs.append(f"oracle: input size / n_modes changed by rewrite #{k} {rw}")
        if rw == "unpack" and spec_has_group(spec):
            probs.append("oracle: a group remains after unpack_groups")
        if rw == "nonadj" and nonadj_bs(spec):
            probs.append("oracle: a non-adjacent beam splitter remains after remove_non_adjacent_bs")
        if rw == "compress" and len(spec) > before_len:
            probs.append("oracle: compress_mode_swaps increased the number of components")
        if probs:
            return probs
    # model on the same program
    mres = ctx.model.call({"op": "circ", "prog": full, "observe": [cur]})
    m = mres["final"][cur]
    obs = cg.observe(pool[cur])
    if m is None:
        probs.append("corr: model lost the circuit")
    elif obs["n"] != m["n"] or not mat_close(obs["U_full"], parse_mat(m["U_full"])):
        probs.append("corr: U_full after the rewrites differs from the model")
    return probs


# --------------------------------------------------------------------------- histories (c09gen)

CHECK_AFTER = (*hg.REWRITE_OPS, "set", "herald")
_REF: dict = {}


def observe(c) -> dict:
    """public observables (U_full only: one compilation)"""
    out = {"n": c.n_modes, "input_modes": c.input_modes,
           "in_heralds": sorted([k, v] for k, v in c.heralds["input"].items()),
           "out_heralds": sorted([k, v] for k, v in c.heralds["output"].items())}
    try:
        out["U_full"] = np.array(c.U_full)
    except Exception as e:  # noqa: BLE001
        out["U_error"] = type(e).__name__
    return out


def rebuild(prog: list, top: str) -> dict:
    """observables of the circuit built from scratch by a plain circgen program (cached)"""
    key = hg.prog_key([prog, top])
    if key not in _REF:
        if len(_REF) > 6000:
            _REF.clear()
        pool: dict = {}
        bad = None
        for op in prog:
            r = cg.apply_op(pool, op)
            if r != "ok" and bad is None:
                bad = f"{op[:5]} -> {r}"
        ref = observe(pool[top]) if top in pool else {"U_error": "not built"}
        if bad:
            ref["rejected"] = bad
        _REF[key] = ref
    return _REF[key]


def obs_diff(live: dict, ref: dict) -> str | None:
    if "U_full" not in ref:
        return None
    if "U_full" not in live:
        return f"it no longer compiles ({live.get('U_error')})"
    if live["n"] != ref["n"] or live["input_modes"] != ref["input_modes"]:
        return f"n_modes / input size ({live['n']}, {live['input_modes']}) != ({ref['n']}, {ref['input_modes']})"
    if live["in_heralds"] != ref["in_heralds"] or live["out_heralds"] != ref["out_heralds"]:
        return (f"heralds {live['in_heralds']} / {live['out_heralds']} != {ref['in_heralds']} / "
                f"{ref['out_heralds']}")
    if live["U_full"].shape != ref["U_full"].shape:
        return f"U_full shape {live['U_full'].shape} != {ref['U_full'].shape}"
    if not mat_close(live["U_full"], ref["U_full"]):
        return f"U_full differs (max |d| = {float(np.abs(live['U_full'] - ref['U_full']).max()):.4f})"
    return None


def model_diff(live: dict, m: dict | None) -> str | None:
    if m is None:
        return "the model lost the circuit"
    if "U_full" not in live:
        return None
    if live["n"] != m["n"] or live["input_modes"] != m["input_modes"]:
        return "n_modes / input size differ from the model"
    if live["in_heralds"] != sorted(map(list, m["in_heralds"])) or \
            live["out_heralds"] != sorted(map(list, m["out_heralds"])):
        return "heralds differ from the model"
    if not mat_close(live["U_full"], parse_mat(m["U_full"])):
        return "U_full differs from the model"
    return None


def _model_ids(ids: list, top: str | None) -> list:
    """the circuits compared with the exact model: its exact compilation is the expensive part of a case, so
    only the main circuit and the two youngest circuits are observed there (all are compared with the rebuild)"""
    pick = [i for i in ids if i == top] + [i for i in ids[-2:] if i != top]
    return pick or ids[-1:]


MODEL_MAX_DIM = 9


def _small(obs: dict) -> bool:
    return "U_full" in obs and obs["U_full"].shape[0] <= MODEL_MAX_DIM


def run_history(ctx: Ctx, prog: list, model: bool = True, stop_at_first: bool = True,
                top: str | None = None) -> list[str]:
    """execute a history on the implementation; `oracle:` problems = property clauses that fail on the
    implementation, `corr:` problems = differences between the model and the implementation"""
    probs: list[str] = []
    pool: dict = {}
    pars: dict = {}
    sym = hg.Sym()
    rewritten: set = set()
    mprog: list = []  # the history with the rewrites, as literals, up to the first Parameter.set
    msnap: dict | None = None

    def check_all(k: int, op: list) -> None:
        name = op[0]
        for cid in list(pool):
            if cid not in sym.rec:
                continue
            live = observe(pool[cid])
            rprog, rtop = sym.flatten(cid)
            ref = rebuild(rprog, rtop)
            if "rejected" in ref:
                probs.append(f"corr: a call accepted in the history is rejected when {cid} is rebuilt from "
                             f"scratch: {ref['rejected']}")
                continue
            d = obs_diff(live, ref)
            if not d:
                continue
            if name in hg.REWRITE_OPS and cid == op[1]:
                probs.append(f"oracle: call #{k} {name} changed its circuit {cid}: {d}")
            elif name in hg.REWRITE_OPS:
                probs.append(f"oracle: call #{k} {name} on {op[1]} changed the related circuit {cid}: {d}")
            elif name == "set":
                how = "rewritten earlier" if cid in rewritten else "never rewritten"
                probs.append(f"oracle: after call #{k} Parameter.set({op[1]}) circuit {cid} ({how}) differs from "
                             f"the same construction built with the current values: {d}")
            else:
                probs.append(f"oracle: after call #{k} {op[:5]} circuit {cid} differs from its own "
                             f"construction rebuilt from scratch: {d}")

    def model_prefix() -> None:
        nonlocal msnap
        msnap = {}
        if not model or not mprog:
            return
        ids = _model_ids([cid for cid in pool if cid in sym.rec], top)
        msnap = {cid: observe(pool[cid]) for cid in ids}
        ids = [cid for cid in ids if _small(msnap[cid])]
        if not ids:
            ctx.count("model:skipped-large")
            return
        mres = ctx.model.call({"op": "circ", "prog": mprog, "observe": ids})
        for mop, r in zip(mprog, mres["results"]):
            if r != "ok":
                probs.append(f"corr: the model answers {r} to {mop[:5]}, accepted by the implementation")
                return
        for cid in ids:
            d = model_diff(msnap[cid], mres["final"].get(cid))
            if d:
                probs.append(f"corr: {cid} after the history with its rewrites: {d}")

    last = len(prog) - 1
    for k, op in enumerate(prog):
        name = op[0]
        is_rw = name in hg.REWRITE_OPS
        if name == "set" and msnap is None:
            model_prefix()
        pre = before_len = None
        if is_rw and op[1] in pool:
            pre = observe(pool[op[1]])
            before_len = len(pool[op[1]]._get_circuit_spec())
        r = hg.apply_op(pool, pars, op)
        if r == "ok":
            sym.record(op)
            if msnap is None and name != "set":
                lit = hg.literal_op(op, sym.val)
                mprog.append(["copy", *lit[1:]] if name == "copyf" else lit)
        elif is_rw and op[1] in pool:
            probs.append(f"oracle: call #{k} {name} on {op[1]} raised {r}")
        if is_rw and r == "ok":
            cid = op[1]
            rewritten.add(cid)
            post = observe(pool[cid])
            spec = pool[cid]._get_circuit_spec()
            if "U_full" in pre:
                d = obs_diff(post, pre)
                if d:
                    probs.append(f"oracle: call #{k} {name} changed its circuit {cid} (before vs after): {d}")
            if name == "unpack" and spec_has_group(spec):
                probs.append(f"oracle: a group remains after unpack_groups (call #{k})")
            if name == "nonadj" and nonadj_bs(spec):
                probs.append(f"oracle: a non-adjacent beam splitter remains after remove_non_adjacent_bs (call #{k})")
            if name == "compress" and len(spec) > before_len:
                probs.append(f"oracle: compress_mode_swaps increased the number of components (call #{k})")
        if r == "ok" and name in ("copy", "copyf") and op[2] in rewritten:
            rewritten.add(op[1])
        if (r == "ok" and name in CHECK_AFTER) or k == last:
            check_all(k, op)
        if probs and stop_at_first:
            return probs
    if msnap is None:
        model_prefix()
    elif model and not probs:
        # final state of every live circuit against the model run on the rebuilt programs
        big: list = []
        tops: dict = {}
        for j, cid in enumerate(_model_ids([c for c in pool if c in sym.rec], top)):
            if not _small(observe(pool[cid])):
                continue
            rprog, rtop = sym.flatten(cid, prefix=f"f{j}_")
            big += rprog
            tops[cid] = rtop
        mres = ctx.model.call({"op": "circ", "prog": big, "observe": list(tops.values())}) if tops else \
            {"results": [], "final": {}}
        if any(r != "ok" for r in mres["results"]):
            probs.append("corr: the model rejects a call of a rebuilt program")
        else:
            for cid, rtop in tops.items():
                d = model_diff(observe(pool[cid]), mres["final"].get(rtop))
                if d:
                    probs.append(f"corr: {cid} at the end of the history vs the model on the rebuilt program: {d}")
    return probs


def _kind(p: str) -> str:
    for tag, words in (("rewrite-changed-its-circuit", "changed its circuit"),
                       ("rewrite-changed-related-circuit", "changed the related circuit"),
                       ("parameter-link", "Parameter.set"), ("postcondition", "remains after"),
                       ("postcondition", "increased the number"), ("rewrite-raised", "raised")):
        if words in p:
            return tag
    return "frame"


def check_history(ctx: Ctx, prog: list, top: str, stream: str, nontriv: bool = True, sample: bool = False,
                  model: bool = True) -> None:
    probs = run_history(ctx, prog, model=model, top=top)
    if not model:
        ctx.count(f"{stream}:oracle-only")
    ctx.case(hg.prog_key(prog), nontriv, sample={"history": prog} if sample else None)
    if not probs:
        return
    ctx.count("histories_with_problems")
    ctx.count(f"histories_with_problems:{stream}")
    want_oracle = any(p.startswith("oracle") for p in probs)

    def fails(sub):
        ps = run_history(ctx, sub, model=not want_oracle, top=top)
        return any(p.startswith("oracle") for p in ps) if want_oracle else bool(ps)

    def still(sub):
        return hg.well_formed(sub) and fails(sub)

    # the first failing histories are shrunk (their replays are written); once the report quota is used up the
    # remaining ones are only counted, so that a broken library does not cost minutes
    reported = len(ctx.violations) + len(ctx.disagreements)
    small = ddmin(prog, still, max_tests=300) if reported < ctx.max_reports else prog
    sprobs = run_history(ctx, small, model=not want_oracle, stop_at_first=False, top=top) or probs
    oracle = [p for p in sprobs if p.startswith("oracle")]
    rep = {"history": small, "top": top, "problems": sprobs, "stream": stream}
    if oracle:
        ctx.violation(oracle[0], rep, sig={"kind": _kind(oracle[0]), "ops": sorted({o[0] for o in small})})
    else:
        ctx.disagreement(sprobs[0], rep)


def run(ctx: Ctx) -> None:
    ctx.rule = ("(1) directed histories: block x ancilla position x boundary swap x rewrite sequence (hoist), "
                "Parameter placement x kind x rewrite sequence x later Parameter.set (params), families of related "
                "circuits with one member rewritten (family); (1b) values at rewrite time: a Parameter-valued or constant "
                "component that holds a degenerate value (loss 0 / 1, reflectivity 1 / 0, phase 0 / pi / 2pi) between two swaps "
                "x placement x rewrite sequence on linked copies, then the Parameter moves to a generic value, further "
                "rewrites, another degenerate value, generic again - directed and random; (2) one-circuit programs from the C02 tree generator and a "
                "swap-dense generator followed by 1-5 random rewrites (unpack_groups, compress_mode_swaps, "
                "remove_non_adjacent_bs, copy); (3) random histories mixing all of it, rewrites on any live circuit "
                "interleaved with Parameter.set; after every rewrite / set every live circuit is compared with its own "
                "construction rebuilt from scratch; non-trivial = holds a mode swap or a group or a non-adjacent beam "
                "splitter; distinct = distinct program")
    t0 = time.time()
    hrng = random.Random(f"C09-histories-{ctx.seed}")
    # -- 1. directed corpus (always first)
    for name, gen in (("hoist", hg.corpus_hoist), ("params", hg.corpus_params), ("family", hg.corpus_family)):
        for i, (prog, top) in enumerate(gen(ctx, hrng)):
            if ctx.out_of_time():
                break
            # the exact model is the expensive half of a case: every hoist case, every third of the others
            check_history(ctx, prog, top, "corpus-" + name, sample=(i == 0 and name == "hoist"),
                          model=name == "hoist" or i % 3 == 0)
    t1 = time.time()
    # -- 1b. values at rewrite time (own generator streams: the streams above stay what they were)
    drng = random.Random(f"C09-degenerate-{ctx.seed}")
    for i, (prog, top) in enumerate(hg.corpus_degenerate(ctx, drng)):
        if ctx.out_of_time():
            break
        check_history(ctx, prog, top, "corpus-degenerate", model=i % 5 == 0)
    for i in range(ctx.n(120, 3000)):
        if ctx.out_of_time():
            break
        prog, top = hg.degenerate_history(ctx, drng)
        check_history(ctx, prog, top, "random-degenerate", model=i % 4 == 0)
    t1b = time.time()
    # -- 2. one-circuit programs
    N = ctx.n(300, 8000)
    rng = ctx.rng
    for i in range(N):
        if ctx.out_of_time():
            break
        if rng.random() < 0.5:
            prog = gen_swappy(ctx, rng)
            top = "c1"
            ctx.count("gen:swap-dense")
        else:
            g = Gen(ctx, rng)
            g.circuit(rng.choice([0, 1, 2]))
            prog, top = g.prog, "c1"
            ctx.count("gen:tree")
        rewrites = [rng.choice(REWRITES) for _ in range(rng.randint(1, 5))]
        for rw in rewrites:
            ctx.count("rewrite:" + rw)
        probs = run_case(ctx, prog, top, rewrites)
        nontriv = any(op[0] in ("swaps", "add") for op in prog) or any(
            op[0] == "bs" and abs(op[2] - op[3]) != 1 for op in prog)
        ctx.case(repr((prog, rewrites)), nontriv, sample={"program": prog, "rewrites": rewrites} if i < 1 else None)
        if probs:
            ctx.count("programs_with_problems")

            def still(sub):
                return cg.well_formed(sub) and sub and sub[0][0] == "new" and sub[0][1] == top and \
                    bool(run_case(ctx, sub, top, rewrites))

            small = ddmin(prog, still)
            rsmall = ddmin(rewrites, lambda rs: bool(run_case(ctx, small, top, rs))) if len(rewrites) > 1 else rewrites
            sprobs = run_case(ctx, small, top, rsmall) or probs
            oracle = [p for p in sprobs if p.startswith("oracle")]
            rep = {"program": small, "rewrites": rsmall, "top": top, "problems": sprobs}
            if oracle:
                ctx.violation(oracle[0], rep, sig={"kind": oracle[0][8:40], "rewrites": rsmall})
            else:
                ctx.disagreement(sprobs[0], rep)
    t2 = time.time()
    # -- 3. random histories
    for i in range(ctx.n(400, 8000)):
        if ctx.out_of_time():
            break
        prog, top = hg.random_history(ctx, hrng)
        nontriv = any(op[0] in ("swaps", "add") for op in prog)
        check_history(ctx, prog, top, "random", nontriv, sample=i == 0, model=i % 4 == 0)
    ctx.extra["stream_wall_s"] = {"corpus": round(t1 - t0, 1), "degenerate": round(t1b - t1, 1),
                                  "one-circuit": round(t2 - t1b, 1),
                                  "histories": round(time.time() - t2, 1)}


def replay(ctx: Ctx, path: str) -> None:
    data = json.load(open(path))["replay"]
    if "history" in data:
        probs = run_history(ctx, data["history"], stop_at_first=False, top=data.get("top"))
    else:
        probs = run_case(ctx, data["program"], data["top"], data["rewrites"])
    ctx.case("replay", True, sample=data)
    for p in probs:
        print("replay:", p)
        if p.startswith("oracle"):
            ctx.violation(p, data, sig={"kind": "replay"})
        else:
            ctx.disagreement(p, data)
