"""
C07 — sampling draws from the exact detected, heralded, post-selected distribution.

Model: LW.Model.Sampling — the detector (tape version + exact kernel) and the sampling pipelines as
functions of the random tape.  The harness reproduces the variates the real code draws from a seed
(numpy Generator.random for `choice`, stdlib random() for the detector), feeds the implementation's
own distribution (floats as the exact dyadic rationals they are) and the tapes to the model, and
demands sample-by-sample agreement.  Every returned state is checked against the property's
clauses on the implementation (heralds removed, post-selection, min_detection, exactly N outputs,
seed determinism), and empirical frequencies are tested against the model's exact
detected/heralded/post-selected distribution (chi-square, false-alarm bound 1e-9 per test).
"""

from __future__ import annotations

import json
import random as pyrandom
from fractions import Fraction

import numpy as np

import circgen as cg
import fockgen as fg
import lightworks as lw
from core import Ctx, exc_class, frac_str
from lightworks import emulator
from props.c05 import gen_rules, make_ps, rule_ok

TRUSTED = [
    "Lean 4.33 kernel; axioms subset of {propext, Classical.choice, Quot.sound} (audited on every run)",
    "numpy Generator.choice(p) = searchsorted(cumsum(p)/sum, Generator.random(N), 'right') and stdlib "
    "random.seed/random() — contract self-tested at the start of every run",
    "convergence 'in the limit' is the law of large numbers applied to the exact kernel; not formalised",
]
ASSUMPTIONS = ["<= 4 user modes, <= 4 photons; N <= 400 per tape replay; 6000 samples per statistical test"]


def fr(x) -> str:
    return frac_str(Fraction(x))


def contract_selftest(ctx: Ctx) -> None:
    p = np.array([0.2, 0.5, 0.3])
    for seed in (0, 5, 99):
        a = np.random.default_rng(seed).choice(np.arange(3), p=p, size=50)
        u = np.random.default_rng(seed).random(50)
        cdf = np.cumsum(p)
        cdf /= cdf[-1]
        b = np.searchsorted(cdf, u, side="right")
        if not (a == b).all():
            raise RuntimeError("numpy Generator.choice contract does not hold; tape replay is impossible")
    ctx.count("numpy_choice_contract_selftest_ok")


def gen_case(ctx: Ctx, rng):
    prog = fg.gen_circuit(ctx, rng, max_depth=1, max_n=4)
    pool = fg.build_impl(prog)
    c = pool.get("c1")
    if c is None or c.input_modes == 0 or np.array(c.U_full).shape[0] > 8:
        return None
    hp = fg.herald_photons(c)
    if hp > 2:
        return None
    nph = max(0, min(rng.choice([1, 1, 2, 2, 3]), 4 - hp))
    im = c.input_modes
    det = {"eta": rng.choice([1, 1, 0.9, 0.5, 0.75]), "pdark": rng.choice([0, 0, 0, 0.05, 0.25]),
           "pnr": rng.random() < 0.6}
    return {"prog": prog, "input": fg.rand_state(rng, im, nph), "det": det, "rules": gen_rules(rng, im, nph),
            "min": rng.choice([0, 0, 1, nph]), "seed": rng.randrange(10**6), "N": rng.choice([50, 200, 400])}


def det_json(det):
    return {"eta": fr(det["eta"]), "pdark": fr(det["pdark"]), "pnr": det["pnr"]}


def py_tape(seed: int, n: int) -> list[str]:
    st = pyrandom.getstate()
    pyrandom.seed(seed)
    out = [fr(pyrandom.random()) for _ in range(n)]
    pyrandom.setstate(st)
    return out


def run_case(ctx: Ctx, case: dict) -> list[str]:
    probs: list[str] = []
    pool = fg.build_impl(case["prog"])
    c = pool.get("c1")
    if c is None or c.input_modes != len(case["input"]):
        return probs
    det, rules, mind, seed, N = case["det"], case["rules"], case["min"], case["seed"], case["N"]
    hout = c.heralds["output"]
    if hout and max(hout.values()) > 1 and not det["pnr"]:
        return probs  # documented SamplerError
    ps = make_ps(rules)
    smp = emulator.Sampler(c, lw.State(case["input"]),
                           detector=emulator.Detector(efficiency=det["eta"], p_dark=det["pdark"],
                                                      photon_counting=det["pnr"]))
    pd = smp.probability_distribution
    dist = [[k.s, fr(float(v))] for k, v in pd.items()]
    outher = [[m, n] for m, n in hout.items()]

    def clauses(states, what):
        for s in states:
            if len(s) != c.input_modes:
                return f"oracle: {what} returned {s}, heralded modes are not removed (expected {c.input_modes} modes)"
            if not rule_ok(rules, s):
                return f"oracle: {what} returned {s}, which fails the post-selection {rules}"
            if sum(s) < mind:
                return f"oracle: {what} returned {s} with fewer than min_detection={mind} photons"
        return None

    # ---- sample_N_inputs
    try:
        r1 = smp.sample_N_inputs(N, post_select=ps, min_detection=mind, seed=seed)
        r1b = smp.sample_N_inputs(N, post_select=ps, min_detection=mind, seed=seed)
    except Exception as e:  # noqa: BLE001
        return [f"oracle: sample_N_inputs raised {exc_class(e)}: {str(e)[:80]}"]
    c1 = {tuple(s.s): n for s, n in r1.items()}
    if c1 != {tuple(s.s): n for s, n in r1b.items()}:
        probs.append("oracle: sample_N_inputs with the same seed gave different results")
    bad = clauses([list(k) for k in c1], "sample_N_inputs")
    if bad:
        probs.append(bad)
    if sum(c1.values()) > N:
        probs.append("oracle: sample_N_inputs returned more samples than inputs")
    us = [fr(u) for u in np.random.default_rng(seed).random(N)]
    ntape = N * (sum(case["input"]) + sum(hout.values()) + 2 * len(pd and next(iter(pd)).s) + 4)
    m1 = ctx.model.call({"op": "samp", "what": "n_inputs", "dist": dist, "det": det_json(det), "outher": outher,
                         "rules": rules, "min": mind, "us": us, "tape": py_tape(seed, ntape)})
    mc: dict = {}
    for s in m1:
        mc[tuple(s)] = mc.get(tuple(s), 0) + 1
    if mc != c1 and not probs:
        probs.append(f"corr: sample_N_inputs(N={N}, seed={seed}) counts differ from the tape replay on the model: "
                     f"impl={sorted(c1.items())[:6]} model={sorted(mc.items())[:6]}")
    # ---- sample_N_outputs (documented: no dark counts)
    if det["pdark"] == 0 and not probs:
        cond = ctx.model.call({"op": "samp", "what": "outputs_dist", "dist": dist, "pnr": det["pnr"], "outher": outher,
                               "rules": rules, "min": mind})
        try:
            r2 = smp.sample_N_outputs(N, post_select=ps, min_detection=mind, seed=seed)
            c2 = {tuple(s.s): n for s, n in r2.items()}
            err = None
        except Exception as e:  # noqa: BLE001
            c2, err = None, exc_class(e)
        if c2 is None:
            if cond:
                probs.append(f"oracle: sample_N_outputs raised {err} although accepted outputs exist")
        else:
            if not cond:
                probs.append("corr: sample_N_outputs succeeded although the model finds no accepted output")
            else:
                if sum(c2.values()) != N:
                    probs.append(f"oracle: sample_N_outputs returned {sum(c2.values())} samples instead of exactly {N}")
                bad = clauses([list(k) for k in c2], "sample_N_outputs")
                if bad:
                    probs.append(bad)
                m2 = ctx.model.call({"op": "samp", "what": "n_outputs", "cond": cond, "us": us})
                mc2: dict = {}
                for s in m2:
                    mc2[tuple(s)] = mc2.get(tuple(s), 0) + 1
                if mc2 != c2 and not probs:
                    probs.append(f"corr: sample_N_outputs(N={N}, seed={seed}) counts differ from the tape replay on the model")
    # ---- single-shot sample()
    if not probs:
        pyrandom.seed(seed)
        try:
            s1 = smp.sample().s
        except Exception as e:  # noqa: BLE001
            return [f"oracle: Sampler.sample raised {exc_class(e)}"]
        tape = py_tape(seed, 64)
        m = ctx.model.call({"op": "samp", "what": "one", "dist": dist, "u": tape[0]})
        md = ctx.model.call({"op": "samp", "what": "det", "det": det_json(det), "state": m, "tape": tape[1:]})
        if md["state"] != s1:
            probs.append(f"corr: Sampler.sample (seed {seed}) returned {s1}, tape replay gives {md['state']}")
        if hout:
            full_ok = all(s1[m_] == n for m_, n in hout.items()) if len(s1) == c.n_modes else True
            if len(s1) != c.input_modes or not full_ok:
                probs.append(f"oracle: Sampler.sample returned {s1} on a heralded circuit: heralded modes are not "
                             f"removed / heralds not checked")
    return probs


def reuse_probe(ctx: Ctx, rng) -> None:
    """post-selection as configured at call time: one PostSelection object is used for sampling, gets a
    further rule, and is used again (sample_N_inputs and sample_N_outputs)"""
    for _ in range(ctx.n(6, 60)):
        if ctx.out_of_time():
            break
        case = None
        while case is None:
            case = gen_case(ctx, rng)
        pool = fg.build_impl(case["prog"])
        c = pool["c1"]
        im = c.input_modes
        if im < 2 or sum(case["input"]) == 0:
            continue
        hout = c.heralds["output"]
        smp = emulator.Sampler(c, lw.State(case["input"]))
        ps = lw.PostSelection()
        m0 = rng.randrange(im)
        ps.add(m0, tuple(range(0, sum(case["input"]) + 1)))  # permissive first rule
        try:
            smp.sample_N_inputs(300, post_select=ps, seed=case["seed"])
            smp.sample_N_outputs(300, post_select=ps, seed=case["seed"])
        except Exception:  # noqa: BLE001
            continue
        m1 = rng.choice([m for m in range(im) if m != m0])
        k = rng.choice([0, 1])
        ps.add(m1, k)  # restrictive rule added AFTER the object has been used
        rules = [[[m0], list(range(0, sum(case["input"]) + 1))], [[m1], [k]]]
        ctx.case(("reuse", json.dumps(case)), True)
        ctx.count("postselection_object_reused")
        for name in ("sample_N_inputs", "sample_N_outputs"):
            try:
                res = getattr(smp, name)(300, post_select=ps, seed=case["seed"] + 1)
            except Exception:  # noqa: BLE001  (no accepted output left: SamplerError is fine)
                continue
            for st in res:
                if not rule_ok(rules, st.s):
                    ctx.violation(f"oracle: {name} returned {st.s}, which fails the post-selection configured at call time "
                                  f"(rule on mode {m1} was added to the PostSelection object after an earlier sampling call)",
                                  {"case": case, "rules": rules, "method": name}, sig={"kind": "postselection-reuse"})
                    return


def stat_test(ctx: Ctx, rng) -> None:
    """frequencies of sample_N_inputs vs the exact detected/heralded/post-selected distribution"""
    from scipy.stats import chi2

    for _ in range(ctx.n(3, 25)):
        if ctx.out_of_time():
            break
        case = None
        while case is None:
            case = gen_case(ctx, rng)
        pool = fg.build_impl(case["prog"])
        c = pool["c1"]
        det, rules, mind = case["det"], case["rules"], case["min"]
        hout = c.heralds["output"]
        if hout and max(hout.values()) > 1 and not det["pnr"]:
            continue
        smp = emulator.Sampler(c, lw.State(case["input"]),
                               detector=emulator.Detector(efficiency=det["eta"], p_dark=det["pdark"],
                                                          photon_counting=det["pnr"]))
        pd = smp.probability_distribution
        N = 6000
        res = smp.sample_N_inputs(N, post_select=make_ps(rules), min_detection=mind, seed=case["seed"])
        obs = {tuple(s.s): n for s, n in res.items()}
        # exact expectation from the model kernel
        exp: dict = {}
        for k, p in pd.items():
            ker = ctx.model.call({"op": "samp", "what": "kernel", "det": det_json(det), "state": k.s})
            for t, q in ker:
                if any(t[m] != n for m, n in hout.items()):
                    continue
                u = tuple(x for i, x in enumerate(t) if i not in hout)
                if rule_ok(rules, list(u)) and sum(u) >= mind:
                    exp[u] = exp.get(u, 0.0) + float(p) * float(Fraction(q))
        acc = sum(exp.values())
        nobs = sum(obs.values())
        ctx.case(("stat", json.dumps(case)), True)
        ctx.count("stat_tests")
        # cells: every accepted outcome + the rejected bucket
        cells = [(obs.get(k, 0), N * v) for k, v in exp.items()] + [(N - nobs, N * (1 - acc))]
        if any(k not in exp or exp[k] <= 0 for k in obs):
            ctx.violation("oracle: sample_N_inputs returned a state that has probability zero under the exact "
                          "detected/heralded/post-selected distribution", {"case": case}, sig={"kind": "stat-support"})
            continue
        cells = [(o, e) for o, e in cells if e > 1e-9]
        big = [(o, e) for o, e in cells if e >= 5]
        small_o = sum(o for o, e in cells if e < 5)
        small_e = sum(e for o, e in cells if e < 5)
        if small_e > 0:
            big.append((small_o, small_e))
        if len(big) < 2:
            continue
        stat = sum((o - e) ** 2 / e for o, e in big)
        pval = float(chi2.sf(stat, len(big) - 1))
        if pval < 1e-9:
            ctx.violation(f"oracle: empirical frequencies of sample_N_inputs deviate from the exact distribution "
                          f"(chi2={stat:.1f}, dof={len(big) - 1}, p={pval:.2e}; accepted fraction {nobs / N:.4f} vs {acc:.4f})",
                          {"case": case, "observed": sorted(obs.items()), "expected": sorted((k, N * v) for k, v in exp.items())},
                          sig={"kind": "stat-frequencies"})


def run(ctx: Ctx) -> None:
    ctx.rule = ("generated circuits/inputs, detector settings (efficiency, p_dark, photon counting), post-selection "
                "rules, min_detection, seeds and sample counts; tape replay of sample_N_inputs / sample_N_outputs / "
                "sample on the model + clause checks + chi-square tests; non-trivial = imperfect detector or heralds or "
                "rules or min_detection; distinct = distinct configuration")
    contract_selftest(ctx)
    N = ctx.n(90, 2000)
    rng = ctx.rng
    done = 0
    while done < N:
        case = gen_case(ctx, rng)
        if case is None:
            continue
        done += 1
        probs = run_case(ctx, case)
        d = case["det"]
        nontriv = d["eta"] != 1 or d["pdark"] != 0 or not d["pnr"] or bool(case["rules"]) or case["min"] > 0 or \
            any(op[0] == "herald" for op in case["prog"])
        ctx.count("imperfect_detector" if (d["eta"] != 1 or d["pdark"] != 0 or not d["pnr"]) else "perfect_detector")
        ctx.count("heralded" if any(op[0] == "herald" for op in case["prog"]) else "no_heralds")
        ctx.case(json.dumps(case), nontriv, sample=case if done <= 2 else None)
        for p in probs[:1]:
            if p.startswith("oracle"):
                sig = {"kind": p[8:40]}
                if "Sampler.sample returned" in p:
                    sig = {"method": "Sampler.sample", "circuit_has_heralds": True}
                ctx.violation(p, {"case": case, "problems": probs}, sig=sig)
            else:
                ctx.disagreement(p, {"case": case, "problems": probs})
    reuse_probe(ctx, rng)
    stat_test(ctx, rng)


def replay(ctx: Ctx, path: str) -> None:
    data = json.load(open(path))["replay"]
    probs = run_case(ctx, data["case"])
    ctx.case("replay", True, sample=data["case"])
    for p in probs:
        print("replay:", p)
        (ctx.violation(p, data, sig={"kind": "replay"}) if p.startswith("oracle") else ctx.disagreement(p, data))
