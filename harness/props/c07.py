"""
C07 — sampling draws from the exact detected, heralded, post-selected distribution.

Model: LW.Model.Sampling — the detector (tape version + exact kernel) and the sampling pipelines as
functions of the random tape.  The harness reproduces the variates the real code draws from a seed
(numpy Generator.random for `choice`, stdlib random() for the detector), feeds the implementation's
own distribution (floats as the exact dyadic rationals they are) and the tapes to the model, and
demands sample-by-sample agreement.  Every returned state is checked against the property's
clauses on the implementation (heralds removed, post-selection, min_detection, exactly N outputs,
seed determinism), and empirical frequencies are tested against the model's exact
detected/heralded/post-selected distribution (chi-square, false-alarm bound 1e-9 per test).

Streams (in this order):
  1. boundary seeds  — a directed corpus: every seed of SEED_POOL (0, 0.0, 1, 1.0, 2^31±, 2^32±, 2^63,
     > 2^64, numpy integer and float scalars) on configurations that cover every consumer of randomness
     (numpy `choice`, detector efficiency, dark counts, threshold only, none), for every sampling method of
     the Sampler and the QuickSampler; each call is made twice with the GLOBAL generators (stdlib, numpy
     legacy) put into two different states before the two calls, and replayed on the model.
  2. histories       — ONE long-lived Sampler / QuickSampler is sampled (every method), reconfigured through
     its setters or through the objects it holds (circuit object with other herald modes / photon numbers /
     other values in the same shape, herald added in place, input state, detector object or attributes,
     source, backend, post-selection, min_detection, photon_counting), read through any method, and sampled
     again.  Every returned state must satisfy the CURRENT configuration's clauses; for a fixed seed the
     result must be the one a FRESH object in the current configuration returns, and the one the model
     replays from the fresh object's distribution.  A directed corpus of histories runs first.
  3. global settings — the process-global `lightworks.settings.sampler_probability_threshold` (default 1e-9)
     is a configuration dimension: cases (directed corpus first, then generated) are run with it raised to
     1e-6, 1e-3, 1e-2, 5e-2 (always restored in a try/finally), so that the stored output distribution is
     visibly SUB-NORMALISED.  Every sampling method of the Sampler and the QuickSampler must still draw from the
     normalised distribution of the states that survive the truncation: tape replay on the model (which
     normalises the implementation's own distribution), `continuous_distribution` = normalised cumulative sums
     ending at 1 (before and after the N-inputs method renormalised the stored distribution), and chi-square
     tests of the single-shot methods on these small supports.  A quarter of the generated histories run under
     a raised threshold as well.  sample_N_inputs refuses (ValueError "significantly deviated") a distribution
     that misses more than 1% — counted, and expected exactly then.
  4. worlds          — DEFAULT COMPONENTS are per object: several Samplers / QuickSamplers built with defaults only
     (detector=None, source=None, backend=None, post_select=None) live side by side; one is tuned IN PLACE
     through its accessor (`s.detector.efficiency = …`, `s.source.brightness = …`, `s.backend.backend = …`,
     `q.post_select.add(…)` when the default supports it) or gets a component replaced; every member — built before
     or after the tuning — must read and sample like a fresh object built with EXPLICIT components in the
     configuration it is supposed to have, and like the model's replay.  Part of the history stream (kind "world").
  5. generated single-object cases (tape replay + clauses; seeds drawn from the boundary pool as well),
     the post-selection-object reuse probes, and the chi-square tests (single objects and the long-lived
     objects at the end of a history).
"""

from __future__ import annotations

import json
import random as pyrandom
from contextlib import contextmanager
from fractions import Fraction

import numpy as np

import circgen as cg
import fockgen as fg
import lightworks as lw
from core import PYTH, Ctx, ddmin, exc_class, frac_str
from lightworks import emulator
from props.c05 import gen_rules, make_ps, new_ps, rule_ok

TRUSTED = [
    "Lean 4.33 kernel; axioms subset of {propext, Classical.choice, Quot.sound} (audited on every run)",
    "numpy Generator.choice(p) = searchsorted(cumsum(p)/sum, Generator.random(N), 'right') and stdlib "
    "random.seed/random() — contract self-tested at the start of every run",
    "convergence 'in the limit' is the law of large numbers applied to the exact kernel; not formalised",
]
ASSUMPTIONS = ["<= 5 circuit modes, <= 4 photons; N <= 400 per tape replay; 6000 samples per statistical test",
               "global setting sampler_probability_threshold in {default 1e-9, 1e-6, 1e-3, 1e-2, 5e-2}, constant while an "
               "object lives; sample_N_inputs' announced refusal (ValueError) of a stored distribution that misses more "
               "than 1% is taken as documented behaviour (a refusal at <= 1% is a violation)"]

F13_SIG = {"method": "Sampler.sample", "circuit_has_heralds": True}
NPINT_SIG = {"method": "sample_N_inputs", "seed_type": "numpy-integer"}
QPS_SIG = {"object": "QuickSampler", "postselection_mutated_in_place": True}


def fr(x) -> str:
    return frac_str(Fraction(x))


# --------------------------------------------------------------------------- the global settings

THR_DEFAULT = lw.settings.sampler_probability_threshold  # as found at import: what every other stream must see
THRESHOLDS = [1e-6, 1e-3, 1e-2, 5e-2]
GUARD = Fraction(1, 100)  # sample_N_inputs refuses a distribution whose total deviates more than this from 1
CD_TOL = 1e-12


@contextmanager
def threshold(thr):
    """`lightworks.settings.sampler_probability_threshold` (process-global) raised for the body only"""
    if thr is None:
        yield
        return
    old = lw.settings.sampler_probability_threshold
    lw.settings.sampler_probability_threshold = thr
    try:
        yield
    finally:
        lw.settings.sampler_probability_threshold = old


def total_of(pd) -> Fraction:
    return sum((Fraction(float(v)) for v in pd.values()), Fraction(0))


def cd_problem(obj, name: str):
    """`continuous_distribution` is what the single-shot method walks through: it has to be the cumulative
    NORMALISED distribution of `probability_distribution` — same states, same order, ending at 1"""
    pd = obj.probability_distribution
    cd = obj.continuous_distribution
    if [k.s for k in cd] != [k.s for k in pd]:
        return f"oracle: {name}.continuous_distribution lists other states (or another order) than probability_distribution"
    tot = total_of(pd)
    acc, last = Fraction(0), None
    for k, v in cd.items():
        acc += Fraction(float(pd[k]))
        last = float(v)
        if abs(last - float(acc / tot)) > CD_TOL:
            break
    else:
        return None
    end = float(list(cd.values())[-1])
    return (f"oracle: {name}.continuous_distribution is not the normalised cumulative distribution of "
            f"probability_distribution (which sums to {float(tot)!r}): at {k.s} it reads {last!r} instead of "
            f"{float(acc / tot)!r}; it ends at {end!r}" + ("" if abs(end - 1) <= CD_TOL else " instead of 1") +
            f" [sampler_probability_threshold={lw.settings.sampler_probability_threshold!r}]")


def contract_selftest(ctx: Ctx) -> None:
    p = np.array([0.2, 0.5, 0.3])
    for seed in (0, 5, 99, 2**32, 2**64 + 3):
        a = np.random.default_rng(seed).choice(np.arange(3), p=p, size=50)
        u = np.random.default_rng(seed).random(50)
        cdf = np.cumsum(p)
        cdf /= cdf[-1]
        b = np.searchsorted(cdf, u, side="right")
        if not (a == b).all():
            raise RuntimeError("numpy Generator.choice contract does not hold; tape replay is impossible")
    # stdlib: a float seed with an integer value seeds like that integer (hash of the float)
    st = pyrandom.getstate()
    for a, b in ((0, 0.0), (1, 1.0), (4, 4.0)):
        pyrandom.seed(a)
        x = pyrandom.random()
        pyrandom.seed(b)
        if pyrandom.random() != x:
            raise RuntimeError("stdlib random.seed(float) contract does not hold")
    pyrandom.setstate(st)
    ctx.count("numpy_choice_contract_selftest_ok")


# --------------------------------------------------------------------------- seeds

# [type, value]; a plain int in a (legacy) replay file is ["int", value]
SEED_POOL = [["int", 0], ["float", 0.0], ["int", 1], ["float", 1.0], ["int", 2**31 - 1], ["int", 2**31],
             ["int", 2**32 - 1], ["int", 2**32], ["int", 2**63], ["int", 2**64 + 3],
             ["np.float64", 0.0], ["np.float64", 4.0],
             ["np.int64", 0], ["np.int64", 7], ["np.int32", 0], ["np.uint8", 1], ["np.int64", 2**40]]


def seed_parts(spec):
    """(object handed to the API, its integer value, is-a-numpy-integer)"""
    if isinstance(spec, int):
        return spec, spec, False
    t, v = spec
    if t == "int":
        return int(v), int(v), False
    if t == "float":
        return float(v), int(v), False
    obj = getattr(np, t[3:])(v)
    return obj, int(v), t != "np.float64"


def tape_seed(spec):
    """what the stdlib generator is seeded with for this seed: the value itself (int / float: a float seeds
    through its hash, i.e. like the integer it equals); a numpy integer is converted by process_random_seed"""
    obj, iseed, npint = seed_parts(spec)
    return iseed if npint else obj


def seed_tag(spec) -> str:
    if isinstance(spec, int):
        return "random_int"
    t, v = spec
    return f"{t}:{v if abs(v) < 10 else 'large'}"


def disturb(k: int) -> None:
    """put the GLOBAL generators (stdlib and numpy legacy) in a state that depends on k only: a seeded
    call must not care, a call that silently falls back to a global generator shows up deterministically"""
    pyrandom.seed(f"c07-disturb-{k}")
    np.random.seed(1000 + k)  # noqa: NPY002


def gen_seed(rng):
    return rng.choice(SEED_POOL) if rng.random() < 0.35 else rng.randrange(10**6)


def gen_case(ctx: Ctx, rng):
    prog = fg.gen_circuit(ctx, rng, max_depth=1, max_n=4)
    pool = fg.build_impl(prog)
    c = pool.get("c1")
    if c is None or c.input_modes == 0 or np.array(c.U_full).shape[0] > 8:
        return None
    hp = fg.herald_photons(c)
    if hp > 2:
        return None
    nph = max(0, min(rng.choice([1, 1, 2, 2, 3]), 4 - hp))
    im = c.input_modes
    det = {"eta": rng.choice([1, 1, 0.9, 0.5, 0.75, 0]), "pdark": rng.choice([0, 0, 0, 0.05, 0.25, 1]),
           "pnr": rng.random() < 0.6}  # incl. the extremes: no photon ever detected / a dark count in every mode
    return {"prog": prog, "input": fg.rand_state(rng, im, nph), "det": det, "rules": gen_rules(rng, im, nph),
            "min": rng.choice([0, 0, 1, nph]), "seed": gen_seed(rng), "N": rng.choice([50, 200, 400]),
            "psform": rng.choice(["object", "object", "function"])}


def det_json(det):
    return {"eta": fr(det["eta"]), "pdark": fr(det["pdark"]), "pnr": det["pnr"]}


def py_tape(seed, n: int) -> list[str]:
    st = pyrandom.getstate()
    pyrandom.seed(seed)
    out = [fr(pyrandom.random()) for _ in range(n)]
    pyrandom.setstate(st)
    return out


def mk_post(form: str, rules):
    """the post-selection handed to the API: None, a PostSelection object, or a plain function"""
    if form == "object_always":
        ps = new_ps(rules)
        for ms, cnt in rules:
            ps.add(tuple(ms), tuple(cnt))
        return ps
    if not rules:
        return None
    if form == "function":
        r = json.loads(json.dumps(rules))
        return lambda s: rule_ok(r, s)
    return make_ps(rules)


def counts_of(res) -> dict:
    return {tuple(s.s): n for s, n in res.items()}


def tally(states) -> dict:
    out: dict = {}
    for s in states:
        out[tuple(s)] = out.get(tuple(s), 0) + 1
    return out


def clause_problem(states, what, im, rules, mind, pnr):
    """the property's clauses on returned states (rules / mind None: not applicable to the method)"""
    for s in states:
        s = list(s)
        if len(s) != im:
            return f"oracle: {what} returned {s}, heralded modes are not removed (expected {im} modes)"
        if rules is not None and not rule_ok(rules, s):
            return f"oracle: {what} returned {s}, which fails the post-selection {rules}"
        if mind is not None and sum(s) < mind:
            return f"oracle: {what} returned {s} with fewer than min_detection={mind} photons"
        if not pnr and s and max(s) > 1:
            return f"oracle: {what} returned {s} although threshold detectors (no photon counting) are configured"
    return None


def case_circuit(case: dict):
    """the case's circuit: the program "prog" (circuit 'c1'), then — settings cases — the tail
    "circ" = {"heralds": [...], "param": reflectivity of a final beam splitter on modes 0/1 | None}"""
    if "circ" in case:
        return build_circuit([case["prog"]], dict(case["circ"], base=0))[0]
    return fg.build_impl(case["prog"]).get("c1")


def quick_case(ctx: Ctx, c, case: dict) -> list[str]:
    """QuickSampler on the case's circuit / input / rules / photon counting: sample_N_outputs and sample()
    twice under the seed (global generators disturbed in between), clauses, tape replay on the model"""
    probs: list[str] = []
    rules, N = case["rules"], min(case["N"], 200)
    pnr = case["det"]["pnr"]
    im = c.input_modes
    seed_obj, iseed, _npint = seed_parts(case["seed"])
    try:
        qs = emulator.QuickSampler(c, lw.State(case["input"]), photon_counting=pnr,
                                   post_select=mk_post(case.get("psform", "object"), rules))
        pd = qs.probability_distribution
    except Exception:  # noqa: BLE001  (post-selection / threshold detection leaves no output: documented error)
        ctx.count("quick:no_valid_output")
        return probs
    cond = [[k.s, fr(float(v))] for k, v in pd.items()]
    bad = cd_problem(qs, "QuickSampler")
    if bad:
        return [bad]
    try:
        disturb(1)
        r1 = counts_of(qs.sample_N_outputs(N, seed=seed_obj))
        disturb(2)
        r2 = counts_of(qs.sample_N_outputs(N, seed=seed_obj))
    except Exception as e:  # noqa: BLE001
        return [f"oracle: QuickSampler.sample_N_outputs(seed={seed_obj!r}) raised {exc_class(e)}: {str(e)[:80]}"]
    ctx.count("quick:sample_N_outputs")
    if r1 != r2:
        probs.append(f"oracle: QuickSampler.sample_N_outputs with the same seed ({seed_obj!r}) gave different results")
    if sum(r1.values()) != N:
        probs.append(f"oracle: QuickSampler.sample_N_outputs returned {sum(r1.values())} samples instead of exactly {N}")
    bad = clause_problem(r1, "QuickSampler.sample_N_outputs", im, rules, None, pnr)
    if bad:
        probs.append(bad)
    if not probs:
        us = [fr(u) for u in np.random.default_rng(iseed).random(N)]
        mc = tally(ctx.model.call({"op": "samp", "what": "n_outputs", "cond": cond, "us": us}))
        if mc != r1:
            probs.append(f"corr: QuickSampler.sample_N_outputs(N={N}, seed={seed_obj!r}) counts differ from the tape "
                         f"replay on the model")
    if not probs:
        K = max(3, case.get("K", 3))
        disturb(1)
        pyrandom.seed(iseed)
        s1 = [qs.sample().s for _ in range(K)]
        disturb(2)
        pyrandom.seed(iseed)
        s2 = [qs.sample().s for _ in range(K)]
        ctx.count("quick:sample")
        if s1 != s2:
            probs.append("oracle: QuickSampler.sample under the same seed gave different results")
        bad = clause_problem(s1, "QuickSampler.sample", im, rules, None, pnr)
        if bad:
            probs.append(bad)
        tape = py_tape(iseed, K)
        ms = [ctx.model.call({"op": "samp", "what": "one", "dist": cond, "u": u}) for u in tape]
        if ms != s1 and not probs:
            j = next(i for i in range(K) if ms[i] != s1[i])
            probs.append(f"corr: QuickSampler.sample (seed {iseed}) draw {j} of {K} returned {s1[j]}, tape replay on the "
                         f"normalised distribution gives {ms[j]}")
    return probs


def run_case(ctx: Ctx, case: dict) -> list[str]:
    """one single-object case; "thr" (optional): the global probability threshold it runs under"""
    with threshold(case.get("thr")):
        return _run_case(ctx, case)


def _run_case(ctx: Ctx, case: dict) -> list[str]:
    probs: list[str] = []
    known: list[str] = []
    c = case_circuit(case)
    if c is None or c.input_modes != len(case["input"]):
        return probs
    det, rules, mind, N = case["det"], case["rules"], case["min"], case["N"]
    seed, iseed, npint = seed_parts(case["seed"])
    form = case.get("psform", "object")
    thr = case.get("thr")
    hout = c.heralds["output"]
    if hout and max(hout.values()) > 1 and not det["pnr"]:
        return probs  # documented SamplerError
    ps = mk_post(form, rules)
    smp = emulator.Sampler(c, lw.State(case["input"]), source=mk_src(case.get("src")),
                           detector=emulator.Detector(efficiency=det["eta"], p_dark=det["pdark"],
                                                      photon_counting=det["pnr"]), backend=case.get("backend"))
    pd = smp.probability_distribution
    dist = [[k.s, fr(float(v))] for k, v in pd.items()]
    outher = [[m, n] for m, n in hout.items()]
    tot = total_of(pd)
    dev = abs(tot - 1)
    if thr is not None:
        ctx.count(f"settings:thr={thr:g}:" + ("distribution_subnormalised" if dev > Fraction(1, 10**12) else
                                               "distribution_normalised"))

    def clauses(states, what):
        return clause_problem(states, what, c.input_modes, rules, mind, det["pnr"])

    def single(K):
        disturb(single.k)
        single.k += 1
        pyrandom.seed(iseed)
        return [smp.sample().s for _ in range(K)]

    single.k = 1
    bad = cd_problem(smp, "Sampler")
    if bad:
        return [bad]
    K = case.get("K", 1)
    s0 = None
    if K > 1:  # the single-shot method BEFORE the N-inputs method had a chance to renormalise the stored distribution
        try:
            s0 = single(K)
        except Exception as e:  # noqa: BLE001
            return [f"oracle: Sampler.sample raised {exc_class(e)}"]
    # ---- sample_N_inputs
    c1 = None
    try:
        disturb(1)
        r1 = smp.sample_N_inputs(N, post_select=ps, min_detection=mind, seed=seed)
        disturb(2)
        r1b = smp.sample_N_inputs(N, post_select=ps, min_detection=mind, seed=seed)
        c1 = counts_of(r1)
        if dev > GUARD:
            ctx.count("settings:n_inputs:accepted_although_total_deviates_more_than_1%")
    except Exception as e:  # noqa: BLE001
        if npint and isinstance(e, TypeError):
            # sample_N_outputs / QuickSampler accept and convert the same seed (process_random_seed)
            known.append(f"oracle: sample_N_inputs(seed={seed!r}) raises TypeError for a numpy integer seed, which "
                         f"process_random_seed accepts and the N-outputs methods reproduce: {str(e)[:60]!r}")
        elif dev > GUARD and isinstance(e, ValueError) and "normalisation" in str(e):
            # the method's own, announced refusal: more than 1% of the probability is missing
            ctx.count("settings:n_inputs:refuses_total_deviating_more_than_1%")
        else:
            return [f"oracle: sample_N_inputs raised {exc_class(e)}: {str(e)[:80]}"]
    us = [fr(u) for u in np.random.default_rng(iseed).random(N)]
    if c1 is not None:
        if c1 != counts_of(r1b):
            probs.append(f"oracle: sample_N_inputs with the same seed ({seed!r}) gave different results")
        bad = clauses([list(k) for k in c1], "sample_N_inputs")
        if bad:
            probs.append(bad)
        if sum(c1.values()) > N:
            probs.append("oracle: sample_N_inputs returned more samples than inputs")
        ntape = N * (max(sum(k.s) for k in pd) + 2 * len(pd and next(iter(pd)).s) + 4)
        m1 = ctx.model.call({"op": "samp", "what": "n_inputs", "dist": dist, "det": det_json(det), "outher": outher,
                             "rules": rules, "min": mind, "us": us, "tape": py_tape(tape_seed(case["seed"]), ntape)})
        mc = tally(m1)
        if mc != c1 and not probs:
            probs.append(f"corr: sample_N_inputs(N={N}, seed={seed!r}) counts differ from the tape replay on the model: "
                         f"impl={sorted(c1.items())[:6]} model={sorted(mc.items())[:6]}")
    # ---- the stored distribution after the N-inputs method (it may renormalise it): same states, same
    #      normalised values, and the cumulative distribution still is its normalised cumulative sum
    if not probs:
        pd2 = smp.probability_distribution
        tot2 = total_of(pd2)
        if [k.s for k in pd2] != [k.s for k in pd] or any(
                abs(float(Fraction(float(pd2[k])) / tot2) - float(Fraction(float(v)) / tot)) > CD_TOL for k, v in pd.items()):
            probs.append("oracle: Sampler.probability_distribution, read again after sample_N_inputs, is another "
                         "distribution (after normalisation) than before")
        else:
            bad = cd_problem(smp, "Sampler")
            if bad:
                probs.append(bad + " — after sample_N_inputs")
    # ---- sample_N_outputs (documented: no dark counts)
    if det["pdark"] == 0 and not probs:
        cond = ctx.model.call({"op": "samp", "what": "outputs_dist", "dist": dist, "pnr": det["pnr"], "outher": outher,
                               "rules": rules, "min": mind})
        try:
            disturb(1)
            r2 = smp.sample_N_outputs(N, post_select=ps, min_detection=mind, seed=seed)
            c2 = counts_of(r2)
            disturb(2)
            c2b = counts_of(smp.sample_N_outputs(N, post_select=ps, min_detection=mind, seed=seed))
            err = None
        except Exception as e:  # noqa: BLE001
            c2, c2b, err = None, None, exc_class(e)
        if c2 is None:
            if cond:
                probs.append(f"oracle: sample_N_outputs raised {err} although accepted outputs exist")
        else:
            if not cond:
                probs.append("corr: sample_N_outputs succeeded although the model finds no accepted output")
            else:
                if c2 != c2b:
                    probs.append(f"oracle: sample_N_outputs with the same seed ({seed!r}) gave different results")
                if sum(c2.values()) != N:
                    probs.append(f"oracle: sample_N_outputs returned {sum(c2.values())} samples instead of exactly {N}")
                bad = clauses([list(k) for k in c2], "sample_N_outputs")
                if bad:
                    probs.append(bad)
                m2 = ctx.model.call({"op": "samp", "what": "n_outputs", "cond": cond, "us": us})
                mc2 = tally(m2)
                if mc2 != c2 and not probs:
                    probs.append(f"corr: sample_N_outputs(N={N}, seed={seed!r}) counts differ from the tape replay on the model")
    # ---- single-shot sample(): K draws under the seed, replayed draw by draw on the NORMALISED distribution
    if not probs:
        try:
            s1 = single(K)
            s1b = single(K)
        except Exception as e:  # noqa: BLE001
            return [f"oracle: Sampler.sample raised {exc_class(e)}"]
        if s1 != s1b:
            probs.append("oracle: Sampler.sample under the same seed gave different results")
        elif s0 is not None and s0 != s1:
            j = next(i for i in range(K) if s0[i] != s1[i])
            probs.append(f"oracle: Sampler.sample under seed {iseed}, draw {j}: {s0[j]} before and {s1[j]} after the "
                         f"N-samples methods were used on the same object")
        per = 1 + max(sum(k.s) for k in pd) + c.n_modes
        tape = py_tape(iseed, max(64, K * per))
        pos, ms = 0, []
        perfect = det["eta"] == 1 and det["pdark"] == 0 and det["pnr"]
        for _ in range(K):
            m = ctx.model.call({"op": "samp", "what": "one", "dist": dist, "u": tape[pos]})
            pos += 1
            if not perfect or K == 1:
                md = ctx.model.call({"op": "samp", "what": "det", "det": det_json(det), "state": m,
                                     "tape": tape[pos:pos + per]})
                pos += md["used"]
                m = md["state"]
            ms.append(m)
        if ms != s1 and not probs:
            j = next(i for i in range(K) if ms[i] != s1[i])
            probs.append(f"corr: Sampler.sample (seed {iseed}) draw {j} of {K} returned {s1[j]}, tape replay on the "
                         f"normalised distribution gives {ms[j]}")
        if hout:
            s_ = s1[0]
            full_ok = all(s_[m_] == n for m_, n in hout.items()) if len(s_) == c.n_modes else True
            if len(s_) != c.input_modes or not full_ok:
                probs.append(f"oracle: Sampler.sample returned {s_} on a heralded circuit: heralded modes are not "
                             f"removed / heralds not checked")
    # ---- the quick sampler on the same circuit / input / rules / photon-counting setting
    if not probs or all("Sampler.sample returned" in p for p in probs):
        probs += quick_case(ctx, c, case)
    return probs + known


def report_case(ctx: Ctx, case: dict, probs: list[str]) -> None:
    """first problem of a case -> violation / disagreement; F13 (known finding) and the numpy-integer seed
    finding are reported under their own signatures and do not hide what follows"""
    first = True
    for p in probs:
        if "numpy integer seed" in p:
            if not ctx.extra.get("_npint_reported"):
                ctx.extra["_npint_reported"] = True
                ctx.violation(p, {"case": case, "problems": probs}, sig=dict(NPINT_SIG))
            continue
        if p.startswith("oracle") and "Sampler.sample returned" in p and "heralded circuit" in p:
            ctx.violation(p, {"case": case, "problems": probs}, sig=dict(F13_SIG))
            continue
        if not first:
            continue
        first = False
        if p.startswith("oracle"):
            ctx.violation(p, {"case": case, "problems": probs}, sig={"kind": p[8:40]})
            continue
        # model and code differ: evaluate the property's (statistical) oracle on this very case first
        r = None
        if "sample_N_inputs" in p and ctx.extra.get("_stat_on_corr", 0) < 3:
            ctx.extra["_stat_on_corr"] = ctx.extra.get("_stat_on_corr", 0) + 1
            try:
                r = stat_case(ctx, case, N=20000)
            except Exception:  # noqa: BLE001
                r = None
        if "Sampler.sample (" in p and ctx.extra.get("_stat_on_corr1", 0) < 3:
            ctx.extra["_stat_on_corr1"] = ctx.extra.get("_stat_on_corr1", 0) + 1
            try:
                r = stat_single(ctx, case, K=20000)
            except Exception:  # noqa: BLE001
                r = None
        if r is not None:
            ctx.violation(r[0] + f" [found after: {p[:160]}]", dict(r[1], problems=probs), sig={"kind": r[1]["kind"]})
        else:
            ctx.disagreement(p, {"case": case, "problems": probs})


def seed_corpus(ctx: Ctx, rng) -> None:
    """every boundary seed on configurations that cover every consumer of randomness"""
    wanted = [("choice_only", lambda d: d["eta"] == 1 and d["pdark"] == 0 and d["pnr"]),
              ("efficiency", lambda d: d["eta"] < 1 and d["pdark"] == 0),
              ("dark_counts", lambda d: d["eta"] == 1 and d["pdark"] > 0),
              ("efficiency+dark_counts+threshold", lambda d: d["eta"] < 1 and d["pdark"] > 0 and not d["pnr"])]
    if not ctx.thorough:
        wanted = [wanted[1], wanted[2], wanted[0]]
    for name, pred in wanted:
        case = None
        for _ in range(400):
            cand = gen_case(ctx, rng)
            if cand is None or not pred(cand["det"]) or sum(cand["input"]) == 0:
                continue
            try:  # the quick sampler must have something to sample as well
                cc = fg.build_impl(cand["prog"])["c1"]
                qpd = emulator.QuickSampler(cc, lw.State(cand["input"]), photon_counting=cand["det"]["pnr"],
                                            post_select=mk_post(cand["psform"], cand["rules"])).probability_distribution
                spd = emulator.Sampler(cc, lw.State(cand["input"])).probability_distribution
            except Exception:  # noqa: BLE001
                continue
            if len(qpd) < 2 or len(spd) < 3:
                continue
            case = cand
            break
        if case is None:
            continue
        case["N"] = 50
        pool = SEED_POOL if name != "choice_only" or ctx.thorough else [s for s in SEED_POOL if s[1] in (0, 0.0, 7)]
        for spec in pool:
            if ctx.out_of_time():
                return
            k = dict(case, seed=spec)
            probs = run_case(ctx, k)
            ctx.count(f"seed:{seed_tag(spec)}")
            ctx.count(f"seed_consumer:{name}")
            ctx.case(json.dumps(k), True)
            report_case(ctx, k, probs)


# --------------------------------------------------------------------------- histories on one long-lived object
#
# history = {"kind": "sampler" | "quick", "bases": [prog, ...]  (programs of herald-free circuits "c1", all with
#            the same number of modes), "init": configuration, "steps": [step, ...]}
# configuration = {"circ": {"base": i, "heralds": [[photons, in_mode, out_mode], ...], "param": r | None}, "input": [...],
#                  "rules": [...], "psform": "object" | "object_always" (a PostSelection even without rules) | "function",
#                  sampler: "det": {eta, pdark, pnr}, "src": [brightness, purity, indistinguishability] | None,
#                           "backend": "permanent" | "slos", "min": k        quick: "pnr": bool}
# step = {"set": [op, ...], "reads": [method, ...], "obs": [method, ...], "seed": spec, "N": n}
#   set ops  ["circuit", circ]            a NEW circuit object is assigned (the input is cut / padded to fit)
#            ["herald_inplace", [p,i,o]]  herald() on the circuit object the sampler holds (+ shorter input)
#            ["param", r]                 the live Parameter inside the held circuit is set (circ["param"] not None)
#            ["input", state]  ["rules", rules, form]  ["ps_add", rule] (in place on the PostSelection object in use:
#            the one the QuickSampler holds / the one handed to every sampling call of the Sampler)
#            ["min", k]  ["detector", det]  ["detector_attr", key, value] (in place)  ["source", src]
#            ["source_attr", idx, value] (in place)  ["backend", name]  ["pnr", bool]
#   reads    methods called on the long-lived object only, between the change and the observation ("companion":
#            the other kind of sampler is built on the same circuit and PostSelection objects and used once)
#   obs      "n_inputs" | "n_outputs" | "sample": called on the long-lived object AND on a fresh object built from
#            the current configuration, under the same seed; clauses + equality + tape replay on the model
# A set op that does not apply is skipped, so every sub-list of steps is a history (shrinking).

READS = {"sampler": ["pd", "cd", "sample", "n_inputs", "n_outputs", "companion"],
         "quick": ["pd", "cd", "sample", "n_outputs", "companion"]}
OBS = {"sampler": ["n_inputs", "n_outputs", "sample"], "quick": ["n_outputs", "sample"]}
K_SINGLE = 8  # single-shot draws per observation


def build_circuit(bases: list, circ: dict):
    """-> (circuit, its Parameter or None): the base program, optionally a final beam splitter on modes 0/1 whose
    reflectivity is a live Parameter, then the heralds"""
    c = fg.build_impl(bases[circ["base"]])["c1"]
    par = None
    if circ.get("param") is not None:
        par = lw.Parameter(circ["param"])
        c.bs(0, 1, reflectivity=par)
    for p, i, o in circ["heralds"]:
        c.herald(p, i, o)
    return c, par


def fit_input(inp: list, im: int) -> list:
    return (list(inp) + [0] * im)[:im]


def mk_det(d):
    return emulator.Detector(efficiency=d["eta"], p_dark=d["pdark"], photon_counting=d["pnr"])


def mk_src(s):
    return None if s is None else emulator.Source(brightness=s[0], purity=s[1], indistinguishability=s[2])


SRC_ATTR = ["brightness", "purity", "indistinguishability"]
DET_ATTR = {"eta": "efficiency", "pdark": "p_dark", "pnr": "photon_counting"}


class Live:
    """the long-lived object together with the configuration it is supposed to be in"""

    def __init__(self, hist: dict) -> None:
        self.kind = hist["kind"]
        self.bases = hist["bases"]
        self.cur = json.loads(json.dumps(hist["init"]))
        cur = self.cur
        self.c, self.par = build_circuit(self.bases, cur["circ"])
        cur["input"] = fit_input(cur["input"], self.c.input_modes)
        self.trim_rules()
        self.ps = mk_post(cur["psform"], cur["rules"])
        if self.kind == "sampler":
            self.obj = emulator.Sampler(self.c, lw.State(cur["input"]), source=mk_src(cur["src"]),
                                        detector=mk_det(cur["det"]), backend=cur["backend"])
        else:
            self.obj = emulator.QuickSampler(self.c, lw.State(cur["input"]), photon_counting=cur["pnr"],
                                             post_select=self.ps)

    def trim_rules(self) -> bool:
        im = self.c.input_modes
        keep = [r for r in self.cur["rules"] if max(r[0]) < im]
        changed = keep != self.cur["rules"]
        self.cur["rules"] = keep
        return changed

    def set_ps(self) -> None:
        self.ps = mk_post(self.cur["psform"], self.cur["rules"])
        if self.kind == "quick":
            self.obj.post_select = self.ps

    def refit(self) -> None:
        """after the circuit's input_modes changed: input of the right length, rules on existing modes"""
        cur = self.cur
        new = fit_input(cur["input"], self.c.input_modes)
        if new != cur["input"]:  # the input is only touched when it has to be
            cur["input"] = new
            self.obj.input_state = lw.State(new)
        if self.trim_rules():
            self.set_ps()

    def apply(self, op: list) -> bool:
        cur, obj, a = self.cur, self.obj, op[0]
        sampler = self.kind == "sampler"
        if a == "circuit":
            c, par = build_circuit(self.bases, op[1])
            if c.input_modes < 1:
                return False
            obj.circuit = c
            self.c, self.par = c, par
            cur["circ"] = json.loads(json.dumps(op[1]))
            self.refit()
        elif a == "herald_inplace":
            p, i, o = op[1]
            c = self.c
            if c.input_modes < 2 or i in c.heralds["input"] or o in c.heralds["output"] or max(i, o) >= c.n_modes:
                return False
            c.herald(p, i, o)
            cur["circ"]["heralds"].append([p, i, o])
            self.refit()
        elif a == "param":
            if self.par is None:
                return False
            self.par.set(op[1])  # the Parameter inside the circuit object the sampler holds
            cur["circ"]["param"] = op[1]
        elif a == "input":
            cur["input"] = fit_input(op[1], self.c.input_modes)
            obj.input_state = lw.State(cur["input"])
        elif a == "rules":
            cur["rules"], cur["psform"] = json.loads(json.dumps(op[1])), op[2]
            self.trim_rules()
            self.set_ps()
        elif a == "ps_add":
            used = {m for r in cur["rules"] for m in r[0]}
            if not isinstance(self.ps, lw.PostSelection) or used & set(op[1][0]) or max(op[1][0]) >= self.c.input_modes:
                return False
            self.ps.add(tuple(op[1][0]), tuple(op[1][1]))
            cur["rules"].append(json.loads(json.dumps(op[1])))
        elif a == "min" and sampler:
            cur["min"] = op[1]
        elif a == "detector" and sampler:
            cur["det"] = dict(op[1])
            obj.detector = mk_det(cur["det"])
        elif a == "detector_attr" and sampler:
            setattr(obj.detector, DET_ATTR[op[1]], op[2])
            cur["det"][op[1]] = op[2]
        elif a == "source" and sampler:
            cur["src"] = None if op[1] is None else list(op[1])
            obj.source = mk_src(cur["src"])
        elif a == "source_attr" and sampler:
            if cur["src"] is None:
                cur["src"] = [1, 1, 1]
            setattr(obj.source, SRC_ATTR[op[1]], op[2])
            cur["src"][op[1]] = op[2]
        elif a == "backend" and sampler:
            cur["backend"] = op[1]
            obj.backend = op[1]
        elif a == "pnr" and not sampler:
            cur["pnr"] = op[1]
            obj.photon_counting = op[1]
        else:
            return False
        return True

    def read(self, what: str) -> None:
        obj, cur = self.obj, self.cur
        try:
            if what == "pd":
                obj.probability_distribution  # noqa: B018
            elif what == "cd":
                obj.continuous_distribution  # noqa: B018
            elif what == "sample":
                obj.sample()
            elif what == "companion":
                # another consumer of the SAME circuit and PostSelection objects (the other kind of sampler)
                if self.kind == "sampler":
                    q = emulator.QuickSampler(self.c, lw.State(cur["input"]), post_select=self.ps)
                    q.sample_N_outputs(20, seed=3)
                else:
                    s2 = emulator.Sampler(self.c, lw.State(cur["input"]))
                    s2.sample_N_inputs(20, post_select=self.ps, seed=3)
                    s2.sample_N_outputs(20, post_select=self.ps, seed=3)
            elif what == "n_inputs":
                obj.sample_N_inputs(20, post_select=self.ps, min_detection=cur["min"], seed=3)
            elif self.kind == "sampler":
                obj.sample_N_outputs(20, post_select=self.ps, min_detection=cur["min"], seed=3)
            else:
                obj.sample_N_outputs(20, seed=3)
        except Exception:  # noqa: BLE001  (e.g. no accepted output in this configuration)
            pass

    def fresh(self):
        """a new object, built from scratch (circuit rebuilt from its program) in the current configuration"""
        cur = self.cur
        c, _ = build_circuit(self.bases, cur["circ"])
        ps = mk_post(cur["psform"], cur["rules"])
        if self.kind == "sampler":
            return c, ps, emulator.Sampler(c, lw.State(cur["input"]), source=mk_src(cur["src"]),
                                           detector=mk_det(cur["det"]), backend=cur["backend"])
        return c, ps, emulator.QuickSampler(c, lw.State(cur["input"]), photon_counting=cur["pnr"], post_select=ps)


def _call(f):
    try:
        return "ok", f()
    except Exception as e:  # noqa: BLE001
        return "err", exc_class(e)


def observe(ctx: Ctx, live: Live, step: dict, idx: int, cnt, label: str | None = None) -> list[str]:
    """the observations of one step: long-lived object vs the clauses of the CURRENT configuration, vs a fresh
    object under the same seed, vs the model's replay of the fresh object's distribution"""
    cur, kind = live.cur, live.kind
    sampler = kind == "sampler"
    seed, iseed, _ = seed_parts(step["seed"])
    N = step["N"]
    cref, psf, fresh = live.fresh()
    im, hout = cref.input_modes, cref.heralds["output"]
    outher = [[m, n] for m, n in hout.items()]
    rules = cur["rules"]
    mind = cur["min"] if sampler else None
    pnr = cur["det"]["pnr"] if sampler else cur["pnr"]
    det = cur["det"] if sampler else {"eta": 1, "pdark": 0, "pnr": True}
    name = "Sampler" if sampler else "QuickSampler"
    where = label or (f"history step {idx} ({name} after {[o[0] for o in step.get('set', [])] or 'construction'}, "
                      f"reads {step.get('reads', [])})")
    st, pd = _call(lambda: fresh.probability_distribution)
    dist = [[k.s, fr(float(v))] for k, v in pd.items()] if st == "ok" else None
    if st != "ok":
        cnt("history:configuration_without_distribution")
    for what in step["obs"]:
        if what == "n_inputs" and sampler:
            meth = f"{name}.sample_N_inputs"
            disturb(1)
            a = _call(lambda: live.obj.sample_N_inputs(N, post_select=live.ps, min_detection=mind, seed=seed))
            disturb(2)
            b = _call(lambda: fresh.sample_N_inputs(N, post_select=psf, min_detection=mind, seed=seed))
        elif what == "n_outputs":
            meth = f"{name}.sample_N_outputs"
            disturb(1)
            if sampler:
                a = _call(lambda: live.obj.sample_N_outputs(N, post_select=live.ps, min_detection=mind, seed=seed))
                disturb(2)
                b = _call(lambda: fresh.sample_N_outputs(N, post_select=psf, min_detection=mind, seed=seed))
            else:
                a = _call(lambda: live.obj.sample_N_outputs(N, seed=seed))
                disturb(2)
                b = _call(lambda: fresh.sample_N_outputs(N, seed=seed))
        elif what == "sample":
            meth = f"{name}.sample"
            disturb(1)
            pyrandom.seed(iseed)
            a = _call(lambda: [live.obj.sample().s for _ in range(K_SINGLE)])
            disturb(2)
            pyrandom.seed(iseed)
            b = _call(lambda: [fresh.sample().s for _ in range(K_SINGLE)])
        else:
            continue
        cnt(f"history:{kind}:{what}")
        if a[0] == "err" or b[0] == "err":
            if a != b:
                return [f"oracle: {where}: {meth} on the long-lived object gives {a[0]}:{a[1] if a[0] == 'err' else ''} "
                        f"but a fresh object in the same configuration gives {b[0]}:{b[1] if b[0] == 'err' else ''}"]
            cnt(f"history:{kind}:{what}:both_raise:{a[1]}" + (":dark_counts" if sampler and det["pdark"] else ""))
            continue
        if what == "sample":
            la, fb = a[1], b[1]
            if sampler and hout:
                # F13 (known finding): full-length states, heralds unchecked; compare as they are
                if any(len(s) != im for s in la) and not ctx.extra.get("_f13_hist"):
                    ctx.extra["_f13_hist"] = True
                    ctx.violation(f"oracle: Sampler.sample returned {la[0]} on a heralded circuit: heralded modes are "
                                  f"not removed / heralds not checked", {"history_step": idx}, sig=dict(F13_SIG))
            else:
                bad = clause_problem(la, meth, im, None if sampler else rules, None, pnr)
                if bad:
                    return [bad + f" — {where}"]
            if la != fb:
                return [f"oracle: {where}: {K_SINGLE} x {meth} under seed {iseed} gives {la[:4]}..., a fresh object in the "
                        f"same configuration gives {fb[:4]}...: the result depends on the object's history"]
            # model replay, draw by draw
            tape = py_tape(iseed, K_SINGLE * 40)
            pos, ms = 0, []
            for _ in range(K_SINGLE):
                m = ctx.model.call({"op": "samp", "what": "one", "dist": dist, "u": tape[pos]})
                pos += 1
                if sampler:
                    md = ctx.model.call({"op": "samp", "what": "det", "det": det_json(det), "state": m,
                                         "tape": tape[pos:pos + 30]})
                    pos += md["used"]
                    m = md["state"]
                ms.append(m)
            if ms != la:
                return [f"corr: {where}: {meth} under seed {iseed} gives {la}, tape replay on the model gives {ms}"]
            continue
        ca, cb = counts_of(a[1]), counts_of(b[1])
        bad = clause_problem(ca, meth, im, rules, mind, pnr)
        if bad:
            return [bad + f" — {where}"]
        tot = sum(ca.values())
        if what == "n_outputs" and tot != N:
            return [f"oracle: {where}: {meth} returned {tot} samples instead of exactly {N}"]
        if tot > N:
            return [f"oracle: {where}: {meth} returned more samples than inputs"]
        if ca != cb:
            return [f"oracle: {where}: {meth}(N={N}, seed={seed!r}) gives {sorted(ca.items())[:5]}, a fresh object in the same "
                    f"configuration gives {sorted(cb.items())[:5]}: the result depends on the object's history"]
        us = [fr(u) for u in np.random.default_rng(iseed).random(N)]
        if what == "n_inputs":
            ntape = N * (max(sum(k.s) for k in pd) + cref.n_modes + 2)
            mres = ctx.model.call({"op": "samp", "what": "n_inputs", "dist": dist, "det": det_json(det),
                                   "outher": outher, "rules": rules, "min": mind, "us": us,
                                   "tape": py_tape(tape_seed(step["seed"]), ntape)})
        elif sampler:
            cond = ctx.model.call({"op": "samp", "what": "outputs_dist", "dist": dist, "pnr": pnr, "outher": outher,
                                   "rules": rules, "min": mind})
            mres = ctx.model.call({"op": "samp", "what": "n_outputs", "cond": cond, "us": us})
        else:
            mres = ctx.model.call({"op": "samp", "what": "n_outputs", "cond": dist, "us": us})
        if tally(mres) != ca:
            return [f"corr: {where}: {meth}(N={N}, seed={seed!r}) counts differ from the tape replay on the model "
                    f"(distribution of a fresh object): impl={sorted(ca.items())[:5]} model={sorted(tally(mres).items())[:5]}"]
    return []


def run_history(ctx: Ctx, hist: dict, cnt=None):
    """-> (problems, Live at the point where the history stopped)"""
    cnt = cnt or (lambda *_: None)
    with threshold(hist.get("thr")):  # the whole history runs under one value of the global setting
        if hist["kind"] == "world":
            return run_world(ctx, hist, cnt), None
        return _run_history(ctx, hist, cnt)


def _run_history(ctx: Ctx, hist: dict, cnt):
    try:
        live = Live(hist)
    except Exception:  # noqa: BLE001  (not constructible, e.g. after shrinking)
        return [], None
    for i, step in enumerate(hist["steps"]):
        for op in step.get("set", []):
            try:
                ok = live.apply(op)
            except Exception as e:  # noqa: BLE001
                return [f"oracle: history step {i}: reconfiguration {op[0]} raised {exc_class(e)}: {str(e)[:80]}"], live
            cnt(f"history:set:{op[0]}" + ("" if ok else ":skipped"))
        for r in step.get("reads", []):
            live.read(r)
            cnt(f"history:read:{r}")
        probs = observe(ctx, live, step, i, cnt)
        if probs:
            return probs, live
    return [], live


# ---- worlds: several objects built with DEFAULT components side by side
#
# world = {"kind": "world", "bases": [prog, ...], "steps": [step, ...]}
# step  = {"new": name, "type": "sampler" | "quick", "circ": circ, "input": [...]}   built with defaults only
#       | {"tune": name, "op": op}   IN PLACE through the accessor: ["detector_attr", key, v]  ["source_attr", i, v]
#                                    ["backend_attr", name]  ["ps_add", rule] (if the default post-selection can
#                                    take rules);  or a component REPLACED through the setter: ["detector", det]
#                                    ["source", src]  ["backend", name]  ["pnr", bool]  ["input", state]
#       | {"use": name, "reads": [method, ...]}
#       | {"obs": [method, ...], "who": [name, ...] | None (all), "seed": spec, "N": n}
# After every tune step ALL members' components are read back through the accessors; an observation compares a
# member with a fresh object built with EXPLICIT components in the configuration the member is supposed to have.
# A step naming a member that does not exist is skipped, so every sub-list of steps is a world (shrinking).


WORLD_SHARED = "default components are shared between objects"
WORLD_LEAK = "a default component carries what was done to another object"


def world_kind(msg: str) -> str:
    return "shared" if WORLD_SHARED in msg else "leak" if WORLD_LEAK in msg else "behaviour"


class Member(Live):
    def __init__(self, bases: list, spec: dict) -> None:
        self.kind, self.bases, self.name = spec["type"], bases, spec["new"]
        self.c, self.par = build_circuit(bases, spec["circ"])
        inp = fit_input(spec["input"], self.c.input_modes)
        self.cur = {"circ": json.loads(json.dumps(spec["circ"])), "input": inp, "rules": [], "psform": "object_always"}
        self.ps = None  # the sampling calls of a Sampler are made with post_select=None as well
        self.touched = False
        if self.kind == "sampler":
            self.cur.update({"det": {"eta": 1, "pdark": 0, "pnr": True}, "src": [1, 1, 1], "backend": "permanent", "min": 0})
            self.obj = emulator.Sampler(self.c, lw.State(inp))
        else:
            self.cur["pnr"] = True
            self.obj = emulator.QuickSampler(self.c, lw.State(inp))

    def tune(self, op: list) -> bool:
        cur, obj, a = self.cur, self.obj, op[0]
        sampler = self.kind == "sampler"
        if a == "detector_attr" and sampler:
            setattr(obj.detector, DET_ATTR[op[1]], op[2])
            cur["det"][op[1]] = op[2]
        elif a == "source_attr" and sampler:
            setattr(obj.source, SRC_ATTR[op[1]], op[2])
            cur["src"][op[1]] = op[2]
        elif a == "backend_attr" and sampler:
            obj.backend.backend = op[1]
            cur["backend"] = op[1]
        elif a == "ps_add" and not sampler:
            ps = obj.post_select
            if not hasattr(ps, "add") or max(op[1][0]) >= self.c.input_modes or \
                    {m for r in cur["rules"] for m in r[0]} & set(op[1][0]):
                return False
            ps.add(tuple(op[1][0]), tuple(op[1][1]))
            cur["rules"].append(json.loads(json.dumps(op[1])))
        elif a == "detector" and sampler:
            cur["det"] = dict(op[1])
            obj.detector = mk_det(cur["det"])
        elif a == "source" and sampler:
            cur["src"] = list(op[1])
            obj.source = mk_src(cur["src"])
        elif a == "backend" and sampler:
            cur["backend"] = op[1]
            obj.backend = op[1]
        elif a == "pnr" and not sampler:
            cur["pnr"] = op[1]
            obj.photon_counting = op[1]
        elif a == "input":
            cur["input"] = fit_input(op[1], self.c.input_modes)
            obj.input_state = lw.State(cur["input"])
        else:
            return False
        self.touched = True
        return True

    def components(self):
        """-> (what the accessors read, what the member's configuration says)"""
        obj, cur = self.obj, self.cur
        if self.kind == "sampler":
            d, sc = obj.detector, obj.source
            got = {"detector.efficiency": d.efficiency, "detector.p_dark": d.p_dark,
                   "detector.photon_counting": d.photon_counting, "source.brightness": sc.brightness,
                   "source.purity": sc.purity, "source.indistinguishability": sc.indistinguishability,
                   "backend.backend": obj.backend.backend}
            want = {"detector.efficiency": cur["det"]["eta"], "detector.p_dark": cur["det"]["pdark"],
                    "detector.photon_counting": cur["det"]["pnr"], "source.brightness": cur["src"][0],
                    "source.purity": cur["src"][1], "source.indistinguishability": cur["src"][2],
                    "backend.backend": cur["backend"]}
        else:
            rules = [[list(r.as_tuple()[0]), list(r.as_tuple()[1])] for r in getattr(obj.post_select, "rules", [])]
            got = {"photon_counting": obj.photon_counting, "post_select rules": sorted(rules)}
            want = {"photon_counting": cur["pnr"], "post_select rules": sorted([list(r[0]), list(r[1])] for r in cur["rules"])}
        return got, want

    def fresh(self):
        """a new object in the member's configuration, every component given EXPLICITLY"""
        cur = self.cur
        c, _ = build_circuit(self.bases, cur["circ"])
        if self.kind == "sampler":
            return c, None, emulator.Sampler(c, lw.State(cur["input"]), source=mk_src(cur["src"]),
                                             detector=mk_det(cur["det"]), backend=emulator.Backend(cur["backend"]))
        ps = mk_post("object_always", cur["rules"])
        return c, ps, emulator.QuickSampler(c, lw.State(cur["input"]), photon_counting=cur["pnr"], post_select=ps)


def run_world(ctx: Ctx, hist: dict, cnt) -> list[str]:
    members: dict[str, Member] = {}
    for i, step in enumerate(hist["steps"]):
        if "new" in step:
            try:
                members[step["new"]] = Member(hist["bases"], step)
            except Exception as e:  # noqa: BLE001
                return [f"oracle: world step {i}: building a {step['type']} with default components raised {exc_class(e)}"]
            cnt(f"world:new:{step['type']}" + (":after_a_tuning" if any(m.touched for m in members.values()) else ""))
            got, want = members[step["new"]].components()
            diff = [k for k in want if got[k] != want[k]]
            if diff:
                others = [o.name for o in members.values() if o.touched]
                return [f"oracle: world step {i}: the {step['type']} {step['new']!r}, just built with default components, reads "
                        f"{diff[0]} = {got[diff[0]]!r} instead of the default {want[diff[0]]!r}: {WORLD_LEAK} (objects tuned in "
                        f"place before: {others or 'none in this world — an earlier one'})"]
        elif "tune" in step:
            m = members.get(step["tune"])
            if m is None:
                continue
            try:
                ok = m.tune(step["op"])
            except Exception as e:  # noqa: BLE001
                return [f"oracle: world step {i}: tuning {step['op']} of {m.name} raised {exc_class(e)}: {str(e)[:80]}"]
            cnt(f"world:tune:{step['op'][0]}" + ("" if ok else ":skipped"))
            for o in members.values():  # read every member's components back
                got, want = o.components()
                diff = [k for k in want if got[k] != want[k]]
                if diff:
                    k = diff[0]
                    return [f"oracle: world step {i}: after {step['op']} on {m.name} only, the {o.kind} {o.name!r} "
                            f"({'built with default components and never touched' if not o.touched else 'itself tuned before'}) "
                            f"reads {k} = {got[k]!r}, its own configuration says {want[k]!r}: {WORLD_SHARED}"]
        elif "use" in step:
            m = members.get(step["use"])
            if m is None:
                continue
            for r in step.get("reads", []):
                m.read(r)
                cnt(f"world:read:{r}")
        elif "obs" in step:
            for name in step.get("who") or list(members):
                m = members.get(name)
                if m is None:
                    continue
                cnt("world:observe:" + ("tuned_member" if m.touched else "default_member"))
                st = dict(step, obs=[w for w in step["obs"] if w in OBS[m.kind]])
                others = [o.name for o in members.values() if o.touched and o is not m]
                label = (f"world step {i}: {m.kind} {m.name!r} ({'tuned itself' if m.touched else 'default components, never touched'}"
                         f"; tuned in place elsewhere: {others})")
                probs = observe(ctx, m, st, i, cnt, label=label)
                if probs:
                    return probs
    return []


def world_corpus() -> list[dict]:
    rng = pyrandom.Random("c07-world-corpus")
    u4a, u4b = gen_base(rng, 4, "unitary"), gen_base(rng, 4, "unitary")
    c0 = {"base": 0, "heralds": [], "param": None}
    c1 = {"base": 1, "heralds": [], "param": None}
    ch = {"base": 1, "heralds": [[1, 0, 2]], "param": None}
    all_s = ["n_inputs", "n_outputs", "sample"]

    def new(name, typ, circ, inp):
        return {"new": name, "type": typ, "circ": circ, "input": inp}

    def obs(seed=11, who=None, N=60):
        return {"obs": list(all_s), "who": who, "seed": seed, "N": N}

    ws = []
    # the default detector of one sampler is tuned in place: efficiency, dark counts, threshold detection
    for op in (["detector_attr", "eta", 0.4], ["detector_attr", "pdark", 0.25], ["detector_attr", "pnr", False]):
        ws.append({"kind": "world", "bases": [u4a, u4b], "steps": [
            new("early", "sampler", c1, [1, 1, 0, 0]), {"use": "early", "reads": ["n_inputs"]},
            new("first", "sampler", c0, [1, 0, 1, 0] if op[1] != "pnr" else [2, 0, 1, 0]), {"tune": "first", "op": op},
            {"use": "first", "reads": ["n_inputs", "sample"]},
            new("late", "sampler", ch if op[1] == "eta" else c1, [2, 0, 0, 0]), obs()]})
    # default source and default backend
    ws.append({"kind": "world", "bases": [u4a, u4b], "steps": [
        new("a", "sampler", c0, [1, 0, 1, 0]), new("b", "sampler", c1, [1, 1, 0, 0]), obs(who=["b"]),
        {"tune": "a", "op": ["source_attr", 0, 0.8]}, obs(seed=["int", 0]),
        {"tune": "a", "op": ["source_attr", 2, 0.7]}, new("c", "sampler", c0, [0, 1, 1, 0]), obs(who=["b", "c"])]})
    ws.append({"kind": "world", "bases": [u4a, u4b], "steps": [
        new("a", "sampler", c0, [1, 0, 1, 0]), new("b", "sampler", c0, [1, 0, 1, 0]),
        {"tune": "a", "op": ["backend_attr", "slos"]}, new("c", "sampler", c1, [1, 0, 1, 0]), obs(),
        {"tune": "b", "op": ["detector", {"eta": 0.5, "pdark": 0, "pnr": True}]},
        {"tune": "b", "op": ["detector_attr", "eta", 0.9]}, {"tune": "c", "op": ["source", [1, 0.9, 1]]}, obs(seed=5)]})
    # two heralded samplers on the same unitary with the herald on different output modes (nothing derived from
    # the circuit may be shared between objects either), one of them tuned
    ws.append({"kind": "world", "bases": [u4a, u4b], "steps": [
        new("h1", "sampler", {"base": 0, "heralds": [[0, 0, 0]], "param": None}, [1, 1, 0]),
        {"use": "h1", "reads": ["n_inputs", "n_outputs"]},
        new("h2", "sampler", {"base": 0, "heralds": [[0, 0, 3]], "param": None}, [1, 1, 0]), obs(who=["h2", "h1"]),
        {"tune": "h2", "op": ["detector_attr", "eta", 0.5]},
        new("h3", "sampler", {"base": 0, "heralds": [[1, 1, 2]], "param": None}, [1, 0, 1]), obs(seed=3)]})
    # quick samplers: default post-selection / photon counting
    ws.append({"kind": "world", "bases": [u4a, u4b], "steps": [
        new("q1", "quick", c0, [1, 0, 1, 0]), new("q2", "quick", c1, [2, 0, 1, 0]), {"use": "q2", "reads": ["n_outputs"]},
        {"tune": "q1", "op": ["ps_add", [[0], [0]]]}, {"tune": "q1", "op": ["pnr", False]},
        new("q3", "quick", ch, [1, 0, 1]), new("s", "sampler", c1, [2, 0, 1, 0]), obs()]})
    return ws


def gen_world(ctx: Ctx, rng) -> dict:
    n = rng.choice([3, 4, 4])
    bases = [gen_base(rng, n), gen_base(rng, n, "unitary")]
    names = ["a", "b", "c", "d"]
    kinds = rng.choice([["sampler"] * 4, ["sampler"] * 4, ["quick"] * 4, ["sampler", "quick", "sampler", "quick"]])

    def new(i):
        hs = gen_heralds(rng, n, 1) if rng.random() < 0.5 else []
        return {"new": names[i], "type": kinds[i], "circ": {"base": rng.randrange(2), "heralds": hs, "param": None},
                "input": fg.rand_state(rng, n - len(hs), rng.choice([1, 2, 2, 3]) - sum(h[0] for h in hs) // 2)}

    def tune(i):
        if kinds[i] == "sampler":
            op = rng.choice([["detector_attr", "eta", rng.choice([0.4, 0.9, 0.5])], ["detector_attr", "pdark", 0.25],
                             ["detector_attr", "pnr", False], ["source_attr", 0, 0.8], ["source_attr", 1, 0.9],
                             ["source_attr", 2, 0.7], ["backend_attr", "slos"], ["detector", dict(rng.choice(DETS[2:]))],
                             ["source", rng.choice(SRCS[2:])], ["backend", "slos"]])
        else:
            op = rng.choice([["ps_add", [[rng.randrange(2)], [0, 1]]], ["pnr", False], ["pnr", False],
                             ["input", fg.rand_state(rng, n, 2)]])
        return {"tune": names[i], "op": op}

    def obs(who=None):
        ms = ["n_inputs", "n_outputs", "sample"]
        rng.shuffle(ms)
        return {"obs": ms, "who": who, "seed": rng.choice(SEED_POOL) if rng.random() < 0.3 else rng.randrange(10**6),
                "N": rng.choice([1, 40, 40, 120])}

    steps = [new(0), new(1)]
    if rng.random() < 0.5:
        steps.append({"use": names[rng.randrange(2)], "reads": rng.sample(READS[kinds[0]][:5], 2)})
    if rng.random() < 0.3:
        steps.append(obs())
    steps.append(tune(0))
    if rng.random() < 0.5:
        steps.append(tune(0))
    if rng.random() < 0.6:
        steps.append({"use": names[0], "reads": rng.sample(READS[kinds[0]][:5], 2)})
    steps.append(new(2))
    steps.append(obs())
    if rng.random() < 0.6:
        steps += [tune(rng.choice([1, 2])), new(3), obs()]
    return {"kind": "world", "bases": bases, "steps": steps}


# ---- generation


def gen_base(rng, n: int, kind: str | None = None) -> list:
    kind = kind or rng.choice(["unitary", "unitary", "unitary", "perm", "bs", "bs", "lossy"])
    if kind == "perm":
        return [["new", "c1", n], ["swaps", "c1", cg.rand_perm_pairs(rng, list(range(n)))]]
    if kind == "bs":
        prog = [["new", "c1", n]]
        for _ in range(rng.randint(n - 1, 2 * n)):
            m1, m2 = rng.sample(range(n), 2)
            c, s = rng.choice(PYTH)
            prog.append(cg.op_bs("c1", m1, m2, c, s, rng.choice(["Rx", "H"])))
        return prog
    prog = [["unitary", "c1", cg.mat_json(cg.exact_unitary(rng, n, depth=rng.randint(n, 2 * n)))]]
    if kind == "lossy":
        a, b = rng.choice([p for p in PYTH if 0 < p[1] < 1])
        prog.append(cg.op_loss("c1", rng.randrange(n), a, b))
    return prog


def gen_heralds(rng, n: int, kmax: int = 2) -> list:
    k = min(rng.choice([0, 1, 1, 2]), kmax, n - 2)
    ins = rng.sample(range(n), k)
    outs = list(ins) if rng.random() < 0.3 else rng.sample(range(n), k)
    hs, tot = [], 0
    for i, o in zip(ins, outs):
        p = rng.choice([0, 0, 1, 1, 2])
        if tot + p > 2:
            p = 0
        tot += p
        hs.append([p, i, o])
    return hs


def mutate_heralds(rng, n: int, hs: list) -> list:
    """the neighbouring herald configurations: other output mode, other input mode, other photon number,
    one herald more / fewer, a different set altogether"""
    hs = json.loads(json.dumps(hs))
    how = rng.choice(["out", "out", "in", "photons", "more", "fewer", "new"])
    if not hs and how in ("out", "in", "photons", "fewer"):
        how = "more"
    if how == "out":
        h = rng.choice(hs)
        free = [m for m in range(n) if m not in [x[2] for x in hs]]
        if free:
            h[2] = rng.choice(free)
    elif how == "in":
        h = rng.choice(hs)
        free = [m for m in range(n) if m not in [x[1] for x in hs]]
        if free:
            h[1] = rng.choice(free)
    elif how == "photons":
        h = rng.choice(hs)
        h[0] = rng.choice([p for p in (0, 1, 2) if p != h[0]])
    elif how == "more" and len(hs) < n - 2:
        fi = [m for m in range(n) if m not in [x[1] for x in hs]]
        fo = [m for m in range(n) if m not in [x[2] for x in hs]]
        hs.append([rng.choice([0, 0, 1]), rng.choice(fi), rng.choice(fo)])
    elif how == "fewer":
        hs.pop(rng.randrange(len(hs)))
    else:
        hs = gen_heralds(rng, n)
    while sum(h[0] for h in hs) > 2:
        max(hs, key=lambda h: h[0])[0] -= 1
    return hs


DETS = [{"eta": 1, "pdark": 0, "pnr": True}, {"eta": 1, "pdark": 0, "pnr": True}, {"eta": 1, "pdark": 0, "pnr": False},
        {"eta": 0.5, "pdark": 0, "pnr": True}, {"eta": 0.9, "pdark": 0, "pnr": True}, {"eta": 0.75, "pdark": 0, "pnr": False},
        {"eta": 1, "pdark": 0.25, "pnr": True}, {"eta": 0.9, "pdark": 0.05, "pnr": False},
        {"eta": 0, "pdark": 0.25, "pnr": True}, {"eta": 0, "pdark": 0.5, "pnr": False}, {"eta": 0.5, "pdark": 1, "pnr": True}]
PARAMS = [0.25, 0.5, 0.75, 1.0, 0.0]


def gen_rules_h(rng, modes: int, nph: int) -> list:
    """post-selection rules that usually leave something: count sets of two or three values"""
    rules, used = [], set()
    share = rng.random() < 0.25  # several rules on one mode (multi_rules=True)
    for _ in range(rng.choice([0, 1, 1, 2])):
        free = [m for m in range(modes) if share or m not in used]
        if not free:
            break
        ms = rng.sample(free, rng.randint(1, min(2, len(free))))
        used.update(ms)
        cnt = sorted(set(rng.sample(range(nph + 1), min(nph + 1, rng.randint(2, 3)))))
        rules.append([ms, cnt])
    return rules
SRCS = [None, None, [0.8, 1, 1], [1, 0.9, 1], [1, 1, 0.7], [0.9, 0.95, 0.8]]


def gen_history(ctx: Ctx, rng, kind: str) -> dict:
    n = rng.choice([3, 4, 4, 5])
    bases = [gen_base(rng, n), gen_base(rng, n)]
    if rng.random() < 0.5:
        bases[1] = gen_base(rng, n, "unitary")
    hs = gen_heralds(rng, n)
    im = n - len(hs)
    nph = max(1, min(rng.choice([1, 2, 2, 3]), 4 - sum(h[0] for h in hs)))
    init = {"circ": {"base": 0, "heralds": hs, "param": rng.choice([None, None, *PARAMS[:3]])},
            "input": fg.rand_state(rng, im, nph),
            "rules": gen_rules_h(rng, im, nph), "psform": rng.choice(["object", "object_always", "function"])}
    if kind == "sampler":
        init.update({"det": dict(rng.choice(DETS)), "src": None, "backend": "permanent", "min": rng.choice([0, 0, 1])})
    else:
        init["pnr"] = rng.random() < 0.7
    sim = json.loads(json.dumps(init))  # the generator's own view of the configuration

    def step_ops() -> list:
        ops = []
        menu = (["circuit"] * 6 + ["herald_inplace"] * 2 + ["input"] * 3 + ["rules"] * 4 + ["param"] * 3 + ["ps_add"] * 4 +
                (["min", "min", "detector", "detector", "detector_attr", "detector_attr", "source",
                  "source_attr", "backend"] if kind == "sampler" else ["pnr"] * 4))
        for a in rng.sample(menu, rng.choice([1, 1, 2])):
            cim = n - len(sim["circ"]["heralds"])
            cnph = max(1, min(sum(sim["input"]) or 1, 3))
            if a == "circuit":
                how = rng.choice(["heralds", "heralds", "base", "both"])
                circ = {"base": sim["circ"]["base"], "heralds": sim["circ"]["heralds"], "param": sim["circ"]["param"]}
                if rng.random() < 0.3:
                    circ["param"] = rng.choice([None, *PARAMS])
                if how in ("heralds", "both"):
                    circ["heralds"] = mutate_heralds(rng, n, circ["heralds"])
                if how in ("base", "both"):
                    circ["base"] = 1 - circ["base"]
                sim["circ"] = json.loads(json.dumps(circ))
                sim["input"] = fit_input(sim["input"], n - len(circ["heralds"]))
                ops.append(["circuit", circ])
            elif a == "herald_inplace":
                hcur = sim["circ"]["heralds"]
                fi = [m for m in range(n) if m not in [x[1] for x in hcur]]
                fo = [m for m in range(n) if m not in [x[2] for x in hcur]]
                if cim < 2 or not fi or not fo:
                    continue
                h = [rng.choice([0, 0, 1]) if sum(x[0] for x in hcur) < 2 else 0, rng.choice(fi), rng.choice(fo)]
                hcur.append(h)
                sim["input"] = fit_input(sim["input"], cim - 1)
                ops.append(["herald_inplace", h])
            elif a == "param":
                if sim["circ"]["param"] is None:
                    continue
                sim["circ"]["param"] = rng.choice([r for r in PARAMS if r != sim["circ"]["param"]])
                ops.append(["param", sim["circ"]["param"]])
            elif a == "input":
                sim["input"] = fg.rand_state(rng, cim, rng.choice([1, 2, 2, 3]))
                ops.append(["input", sim["input"]])
            elif a == "rules":
                sim["rules"] = gen_rules_h(rng, cim, cnph) or [[[rng.randrange(cim)], sorted({0, rng.randint(0, cnph)})]]
                if rng.random() < 0.15:
                    sim["rules"] = []
                sim["psform"] = rng.choice(["object", "object_always", "function"])
                ops.append(["rules", sim["rules"], sim["psform"]])
            elif a == "ps_add":
                used = {m for r in sim["rules"] for m in r[0]}
                free = [m for m in range(cim) if m not in used]
                if not free or sim["psform"] == "function" or (sim["psform"] == "object" and not sim["rules"]):
                    continue
                r = [[rng.choice(free)], sorted(set(rng.sample(range(cnph + 1), rng.randint(1, 2))))]
                sim["rules"].append(r)
                ops.append(["ps_add", r])
            elif a == "min":
                ops.append(["min", rng.choice([0, 0, 1, 1, 2, cnph])])
            elif a == "detector":
                ops.append(["detector", dict(rng.choice(DETS))])
            elif a == "detector_attr":
                key = rng.choice(["eta", "pdark", "pnr"])
                ops.append(["detector_attr", key, {"eta": rng.choice([1, 0.5, 0.9]), "pdark": rng.choice([0, 0, 0.25]),
                                                   "pnr": rng.random() < 0.5}[key]])
            elif a == "source":
                ops.append(["source", rng.choice(SRCS)])
            elif a == "source_attr":
                i = rng.randrange(3)
                ops.append(["source_attr", i, rng.choice([1, 0.8, 0.9])])
            elif a == "backend":
                ops.append(["backend", rng.choice(["permanent", "slos"])])
            elif a == "pnr":
                ops.append(["pnr", rng.random() < 0.5])
        return ops

    steps = []
    for i in range(rng.randint(3, 5)):
        obs = list(OBS[kind])
        rng.shuffle(obs)
        if rng.random() < 0.25:
            obs.pop()
        reads = rng.sample(READS[kind], rng.choice([0, 1, 1, 2]))
        steps.append({"set": step_ops() if i else [], "reads": reads if i else [], "obs": obs,
                      "seed": rng.choice(SEED_POOL) if rng.random() < 0.3 else rng.randrange(10**6),
                      "N": rng.choice([0, 1, 40, 40, 40, 120, 120, 120])})
    hist = {"kind": kind, "bases": bases, "init": init, "steps": steps}
    if rng.random() < 0.25:
        hist["thr"] = rng.choice(THRESHOLDS)  # the global setting, constant during the history
    return hist


def corpus_histories() -> list[dict]:
    """directed histories for the nastiest shapes (fixed, independent of VERIF_SEED)"""
    rng = pyrandom.Random("c07-history-corpus")
    u4a, u4b = gen_base(rng, 4, "unitary"), gen_base(rng, 4, "unitary")
    perm4 = [["new", "c1", 4], ["swaps", "c1", [[0, 1], [1, 2], [2, 3], [3, 0]]]]
    det0 = {"eta": 1, "pdark": 0, "pnr": True}

    def s_init(base, hs, inp, **kw):
        d = {"circ": {"base": base, "heralds": hs, "param": None}, "input": inp, "rules": [], "psform": "object",
             "det": dict(det0), "src": None, "backend": "permanent", "min": 0}
        d.update(kw)
        return d

    def q_init(base, hs, inp, **kw):
        d = {"circ": {"base": base, "heralds": hs, "param": None}, "input": inp, "rules": [], "psform": "object", "pnr": True}
        d.update(kw)
        return d

    def st(sets, reads, obs, seed=11, N=60):
        return {"set": sets, "reads": reads, "obs": obs, "seed": seed, "N": N}

    all_s, all_q = ["n_inputs", "n_outputs", "sample"], ["sample", "n_outputs"]
    hs: list[dict] = []
    # the herald moves to another output (and input) mode of a circuit of the same size; photon-carrying heralds
    hs.append({"kind": "sampler", "bases": [u4a, u4b], "init": s_init(0, [[0, 0, 0]], [1, 1, 0]), "steps": [
        st([], [], all_s),
        st([["circuit", {"base": 0, "heralds": [[0, 3, 3]]}]], [], ["n_outputs", "n_inputs", "sample"], seed=["int", 0]),
        st([["circuit", {"base": 0, "heralds": [[1, 0, 2]]}]], ["pd"], all_s),
        st([["circuit", {"base": 1, "heralds": [[1, 2, 0]]}]], ["cd"], all_s),
        st([["circuit", {"base": 0, "heralds": []}], ["input", [1, 0, 1, 0]]], [], all_s),
        st([["circuit", {"base": 0, "heralds": [[0, 1, 1], [0, 2, 2]]}], ["input", [1, 1]]], ["n_inputs"], all_s),
        st([["circuit", {"base": 0, "heralds": [[2, 1, 1]]}]], [], all_s)]})
    # a further herald is declared on the circuit object the sampler already holds
    hs.append({"kind": "sampler", "bases": [u4a, u4b], "init": s_init(0, [[0, 0, 0]], [1, 1, 0]), "steps": [
        st([], [], ["n_inputs"]),
        st([["herald_inplace", [0, 3, 3]]], [], ["n_outputs", "n_inputs"]),
        st([["circuit", {"base": 1, "heralds": [[0, 1, 1]]}], ["input", [1, 0, 1]]], ["n_outputs"], all_s),
        st([["herald_inplace", [1, 0, 2]]], ["pd"], all_s)]})
    # deterministic circuit (mode permutation): every sample is one known state
    hs.append({"kind": "sampler", "bases": [perm4, u4a], "init": s_init(0, [[1, 3, 0]], [1, 0, 0], min=1), "steps": [
        st([], [], all_s),
        st([["circuit", {"base": 0, "heralds": [[1, 0, 1]]}], ["input", [0, 1, 1]]], ["sample"], all_s),
        st([["detector_attr", "pnr", False], ["input", [0, 2, 1]]], [], all_s),
        st([["circuit", {"base": 0, "heralds": [[0, 2, 3]]}], ["min", 2]], ["n_outputs"], all_s),
        st([["detector_attr", "eta", 0.5], ["min", 1]], [], all_s, seed=["int", 0])]})
    # detector / source / backend / post-selection changed between calls
    hs.append({"kind": "sampler", "bases": [u4a, u4b],
               "init": s_init(0, [[1, 0, 3]], [1, 0, 1], rules=[[[0], [0, 1]]], det={"eta": 0.5, "pdark": 0, "pnr": True}),
               "steps": [
        st([], [], all_s),
        st([["detector", {"eta": 1, "pdark": 0.25, "pnr": True}]], ["sample"], all_s, seed=["float", 0.0]),
        st([["ps_add", [[1], [0]]], ["detector_attr", "pdark", 0]], [], all_s),
        st([["source", [0.8, 1, 1]], ["rules", [[[2], [1]]], "function"]], ["pd"], all_s),
        st([["backend", "slos"], ["source_attr", 0, 1]], ["n_outputs"], all_s),
        st([["detector_attr", "pnr", False], ["circuit", {"base": 1, "heralds": [[1, 1, 0]]}]], ["cd"], all_s)]})
    # quick sampler: the setting changes, then another method is called, then sample()
    hs.append({"kind": "quick", "bases": [u4a, u4b], "init": q_init(0, [], [1, 0, 1, 0], rules=[[[0], [1]]], psform="function"),
               "steps": [
        st([], [], all_q),
        st([["rules", [[[0], [0]]], "function"]], ["n_outputs"], all_q),
        st([["pnr", False]], ["pd"], all_q),
        st([["rules", [[[0], [0, 1]]], "object"]], ["cd"], all_q),
        st([["ps_add", [[1], [0]]]], ["n_outputs"], all_q),
        st([["ps_add", [[3], [0, 1]]]], ["companion"], ["n_outputs", "sample"]),
        st([["input", [0, 1, 1, 0]]], ["n_outputs"], ["sample", "n_outputs"]),
        st([["circuit", {"base": 1, "heralds": []}]], ["pd"], all_q),
        st([["circuit", {"base": 1, "heralds": [[0, 2, 2]]}], ["rules", [[[1], [0, 1]]], "object"]], ["n_outputs"], all_q),
        st([["pnr", True], ["circuit", {"base": 1, "heralds": [[1, 2, 0]]}]], ["pd"], all_q),
        st([["herald_inplace", [0, 3, 3]]], ["n_outputs"], all_q)]})
    # quick sampler on a deterministic circuit with a photon-carrying herald
    hs.append({"kind": "quick", "bases": [perm4, u4a], "init": q_init(0, [[1, 3, 0]], [1, 0, 0]), "steps": [
        st([], [], all_q),
        st([["input", [0, 1, 0]]], ["n_outputs"], all_q),
        st([["circuit", {"base": 0, "heralds": [[1, 0, 1]]}], ["input", [0, 0, 1]]], ["pd"], all_q),
        st([["input", [1, 1, 0]]], ["n_outputs"], all_q)]})
    return hs


def shrink_history(ctx: Ctx, hist: dict, cls: str, like: str = "") -> dict:
    def fails_h(h):
        ps, _ = run_history(ctx, h)
        # (a world: state shared between objects outlives the history that produced it, so a smaller world only
        # counts when it fails in the same way — not because of what an earlier run left behind)
        return bool(ps) and ps[0].startswith(cls) and (hist["kind"] != "world" or world_kind(ps[0]) == world_kind(like))

    steps = ddmin(hist["steps"], lambda ss: fails_h(dict(hist, steps=ss)), max_tests=40)
    cur = dict(hist, steps=json.loads(json.dumps(steps)))
    # then the lists inside every step
    for i in range(len(cur["steps"])):
        for key in ("reads", "set", "obs"):
            j = 0
            while j < len(cur["steps"][i].get(key, [])):
                cand = json.loads(json.dumps(cur))
                cand["steps"][i][key].pop(j)
                if (key != "obs" or cand["steps"][i][key]) and fails_h(cand):
                    cur = cand
                else:
                    j += 1
    return cur


def check_history(ctx: Ctx, hist: dict, tag: str):
    probs, live = run_history(ctx, hist, ctx.count)
    ctx.case(("history", json.dumps(hist)), True, sample=hist if tag == "corpus" and len(ctx.samples) < 1 else None)
    ctx.count(f"history:{tag}:{hist['kind']}")
    if probs:
        p = probs[0]
        cls = "oracle" if p.startswith("oracle") else "corr"
        small = shrink_history(ctx, hist, cls, p)
        sp, _ = run_history(ctx, small)
        if not sp or not sp[0].startswith(cls) or (hist["kind"] == "world" and world_kind(sp[0]) != world_kind(p)):
            small, sp = hist, probs
        if sp[0][:70] != p[:70]:  # (state shared between objects can outlive the history it was first seen in)
            sp = [sp[0] + f" [before shrinking, in a history of {len(hist['steps'])} steps: {p[:400]}]", *sp[1:]]
        if cls == "oracle":
            ctx.violation(sp[0], {"history": small, "problems": sp, "steps_before_shrinking": len(hist["steps"]),
                                  "history_before_shrinking": hist if small is not hist else None},
                          sig={"kind": "history", "object": hist["kind"]})
        else:
            ctx.disagreement(sp[0], {"history": small, "problems": sp})
    return probs, live


def history_probe(ctx: Ctx, rng) -> None:
    for h in corpus_histories() + world_corpus():
        if ctx.out_of_time():
            return
        check_history(ctx, h, "corpus")
    for i in range(ctx.n(60, 600)):
        if ctx.out_of_time():
            return
        check_history(ctx, gen_history(ctx, rng, "sampler" if i % 2 == 0 else "quick"), "generated")
        if i % 4 == 0:
            check_history(ctx, gen_world(ctx, rng), "generated")


def quick_ps_mutation_probe(ctx: Ctx, rng) -> None:
    """post-selection as configured at call time, QuickSampler: the PostSelection object the quick sampler holds
    gets a further rule (in place) after the first use; every state returned afterwards must satisfy it"""
    for _ in range(ctx.n(4, 40)):
        if ctx.out_of_time() or ctx.extra.get("_qps_reported"):
            break
        case = None
        while case is None:
            case = gen_case(ctx, rng)
        c = fg.build_impl(case["prog"])["c1"]
        im, nph = c.input_modes, sum(case["input"])
        if im < 2 or nph == 0:
            continue
        ps = lw.PostSelection()
        m0 = rng.randrange(im)
        ps.add(m0, tuple(range(nph + 1)))
        try:
            qs = emulator.QuickSampler(c, lw.State(case["input"]), post_select=ps)
            qs.sample_N_outputs(50, seed=1)
            qs.sample()
        except Exception:  # noqa: BLE001
            continue
        m1 = rng.choice([m for m in range(im) if m != m0])
        k = rng.choice([0, 1])
        ps.add(m1, k)
        rules = [[[m0], list(range(nph + 1))], [[m1], [k]]]
        ctx.case(("quick-ps-mutation", json.dumps(case), m1, k), True)
        ctx.count("quick:postselection_object_mutated_in_place")
        got: dict = {}
        try:
            got["sample_N_outputs"] = [s.s for s in qs.sample_N_outputs(100, seed=2)]
            got["sample"] = [qs.sample().s for _ in range(20)]
        except Exception:  # noqa: BLE001  (no output left under the tightened rule: an error is fine)
            pass
        for name, states in got.items():
            bad = [s for s in states if not rule_ok(rules, s)]
            if bad:
                ctx.extra["_qps_reported"] = True
                ctx.violation(f"oracle: QuickSampler.{name} returned {bad[0]}, which fails the post-selection its "
                              f"PostSelection object has at call time (rule on mode {m1} added in place after the first "
                              f"use; qs.post_select.validate(state) is {qs.post_select.validate(lw.State(bad[0]))})",
                              {"case": {k_: case[k_] for k_ in ("prog", "input")}, "rules": rules, "method": name},
                              sig=dict(QPS_SIG))
                break


def reuse_probe(ctx: Ctx, rng) -> None:
    """post-selection as configured at call time: one PostSelection object is used for sampling, gets a
    further rule, and is used again (sample_N_inputs and sample_N_outputs)"""
    for _ in range(ctx.n(6, 60)):
        if ctx.out_of_time():
            break
        case = None
        while case is None:
            case = gen_case(ctx, rng)
        pool = fg.build_impl(case["prog"])
        c = pool["c1"]
        im = c.input_modes
        if im < 2 or sum(case["input"]) == 0:
            continue
        seed = seed_parts(case["seed"])[1] % 10**6
        smp = emulator.Sampler(c, lw.State(case["input"]))
        ps = lw.PostSelection()
        m0 = rng.randrange(im)
        ps.add(m0, tuple(range(0, sum(case["input"]) + 1)))  # permissive first rule
        try:
            smp.sample_N_inputs(300, post_select=ps, seed=seed)
            smp.sample_N_outputs(300, post_select=ps, seed=seed)
        except Exception:  # noqa: BLE001
            continue
        m1 = rng.choice([m for m in range(im) if m != m0])
        k = rng.choice([0, 1])
        ps.add(m1, k)  # restrictive rule added AFTER the object has been used
        rules = [[[m0], list(range(0, sum(case["input"]) + 1))], [[m1], [k]]]
        ctx.case(("reuse", json.dumps(case)), True)
        ctx.count("postselection_object_reused")
        for name in ("sample_N_inputs", "sample_N_outputs"):
            try:
                res = getattr(smp, name)(300, post_select=ps, seed=seed + 1)
            except Exception:  # noqa: BLE001  (no accepted output left: SamplerError is fine)
                continue
            for st in res:
                if not rule_ok(rules, st.s):
                    ctx.violation(f"oracle: {name} returned {st.s}, which fails the post-selection configured at call time "
                                  f"(rule on mode {m1} was added to the PostSelection object after an earlier sampling call)",
                                  {"case": case, "rules": rules, "method": name}, sig={"kind": "postselection-reuse"})
                    return


# --------------------------------------------------------------------------- statistics


def exact_inputs_dist(ctx: Ctx, pd, det, hout, rules, mind) -> dict:
    """exact distribution of what sample_N_inputs returns per input (model kernel on every output state,
    then heralding, herald removal, post-selection, min_detection); the rest is the rejected fraction"""
    exp: dict = {}
    tot = float(sum(pd.values()))  # the stored distribution need not be normalised (probability threshold)
    for k, p in pd.items():
        ker = ctx.model.call({"op": "samp", "what": "kernel", "det": det_json(det), "state": k.s})
        for t, q in ker:
            if any(t[m] != n for m, n in hout.items()):
                continue
            u = tuple(x for i, x in enumerate(t) if i not in hout)
            if rule_ok(rules, list(u)) and sum(u) >= mind:
                exp[u] = exp.get(u, 0.0) + float(p) / tot * float(Fraction(q))
    return exp


def chi2_verdict(obs: dict, exp: dict, N: int, reject_bucket: bool):
    """-> None (nothing to test) | ('support', state) | ('ok'|'deviates', stat, dof, pval)"""
    from scipy.stats import chi2

    for k in obs:
        if k not in exp or exp[k] <= 0:
            return ("support", k)
    acc = sum(exp.values())
    nobs = sum(obs.values())
    cells = [(obs.get(k, 0), N * v) for k, v in exp.items()]
    if reject_bucket:
        cells.append((N - nobs, N * (1 - acc)))
    cells = [(o, e) for o, e in cells if e > 1e-9]
    big = [(o, e) for o, e in cells if e >= 5]
    small_o = sum(o for o, e in cells if e < 5)
    small_e = sum(e for o, e in cells if e < 5)
    if small_e > 0:
        big.append((small_o, small_e))
    if len(big) < 2:
        return None
    stat = sum((o - e) ** 2 / e for o, e in big)
    pval = float(chi2.sf(stat, len(big) - 1))
    return ("deviates" if pval < 1e-9 else "ok", stat, len(big) - 1, pval)


def stat_case(ctx: Ctx, case: dict, N: int = 6000):
    """the statistical oracle on one case: frequencies of sample_N_inputs vs the exact detected / heralded /
    post-selected distribution -> None | (what, details)"""
    c = case_circuit(case)
    det, rules, mind = case["det"], case["rules"], case["min"]
    hout = c.heralds["output"]
    if hout and max(hout.values()) > 1 and not det["pnr"]:
        return None
    with threshold(case.get("thr")):
        smp = emulator.Sampler(c, lw.State(case["input"]), source=mk_src(case.get("src")),
                               detector=emulator.Detector(efficiency=det["eta"], p_dark=det["pdark"],
                                                          photon_counting=det["pnr"]), backend=case.get("backend"))
        pd = dict(smp.probability_distribution)
        if abs(total_of(pd) - 1) > GUARD:
            return None  # sample_N_inputs refuses (counted in run_case); the single-shot statistics cover these
        res = smp.sample_N_inputs(N, post_select=make_ps(rules), min_detection=mind, seed=seed_parts(case["seed"])[1])
    obs = counts_of(res)
    exp = exact_inputs_dist(ctx, pd, det, hout, rules, mind)
    acc = sum(exp.values())
    nobs = sum(obs.values())
    ctx.count("stat_tests")
    v = chi2_verdict(obs, exp, N, True)
    if v is None or v[0] == "ok":
        return None
    if v[0] == "support":
        return ("oracle: sample_N_inputs returned a state that has probability zero under the exact "
                "detected/heralded/post-selected distribution", {"case": case, "state": list(v[1]), "kind": "stat-support"})
    return (f"oracle: empirical frequencies of sample_N_inputs deviate from the exact distribution "
            f"(chi2={v[1]:.1f}, dof={v[2]}, p={v[3]:.2e}; accepted fraction {nobs / N:.4f} vs {acc:.4f})",
            {"case": case, "observed": sorted(obs.items()), "expected": sorted((k, N * v_) for k, v_ in exp.items()),
             "kind": "stat-frequencies"})


def stat_single(ctx: Ctx, case: dict, K: int = 2000):
    """the statistical oracle for the single-shot methods on one case (under the case's probability threshold):
    frequencies of Sampler.sample() vs the NORMALISED stored distribution with the exact detector kernel applied
    (states as returned — F13: heralded modes still in place), and of QuickSampler.sample() vs its normalised
    distribution -> None | (what, details)"""
    det, rules = case["det"], case["rules"]
    seed = seed_parts(case["seed"])[1] % 10**6
    with threshold(case.get("thr")):
        c = case_circuit(case)
        tests = []
        smp = emulator.Sampler(c, lw.State(case["input"]), source=mk_src(case.get("src")),
                               detector=emulator.Detector(efficiency=det["eta"], p_dark=det["pdark"],
                                                          photon_counting=det["pnr"]), backend=case.get("backend"))
        pd = smp.probability_distribution
        exp = exact_inputs_dist(ctx, pd, det, {}, [], 0)
        pyrandom.seed(seed + 1)
        tests.append(("Sampler.sample", tally(smp.sample().s for _ in range(K)), exp, float(sum(pd.values()))))
        try:
            qs = emulator.QuickSampler(c, lw.State(case["input"]), photon_counting=det["pnr"],
                                       post_select=mk_post(case.get("psform", "object"), rules))
            qpd = qs.probability_distribution
        except Exception:  # noqa: BLE001
            qpd = None
        if qpd:
            qt = float(sum(qpd.values()))
            pyrandom.seed(seed + 2)
            tests.append(("QuickSampler.sample", tally(qs.sample().s for _ in range(K)),
                          {tuple(k.s): float(v) / qt for k, v in qpd.items()}, qt))
    for meth, obs, exp, tot in tests:
        ctx.count("stat_tests:single_shot")
        v = chi2_verdict(obs, exp, K, False)
        if v is None or v[0] == "ok":
            continue
        cfg = f"(stored distribution sums to {tot!r}, sampler_probability_threshold={case.get('thr', THR_DEFAULT)!r})"
        if v[0] == "support":
            return (f"oracle: {meth} returned {list(v[1])}, a state of probability zero under the exact distribution {cfg}",
                    {"case": case, "state": list(v[1]), "method": meth, "kind": "stat-single-support"})
        return (f"oracle: empirical frequencies of {K} x {meth} deviate from the exact normalised distribution "
                f"(chi2={v[1]:.1f}, dof={v[2]}, p={v[3]:.2e}) {cfg}",
                {"case": case, "method": meth, "observed": sorted(obs.items()),
                 "expected": sorted((k, K * x) for k, x in exp.items()), "kind": "stat-single-frequencies"})
    return None


# --------------------------------------------------------------------------- the global settings as a dimension


def truncated(case: dict) -> bool:
    """does the case's threshold remove anything (Sampler or QuickSampler)?"""
    def sizes():
        c = case_circuit(case)
        out = []
        try:
            pd = emulator.Sampler(c, lw.State(case["input"]), source=mk_src(case.get("src")),
                                  backend=case.get("backend")).probability_distribution
            out.append(len(pd))
        except Exception:  # noqa: BLE001
            out.append(None)
        try:
            out.append(len(emulator.QuickSampler(c, lw.State(case["input"])).probability_distribution))
        except Exception:  # noqa: BLE001
            out.append(None)
        return out

    try:
        with threshold(case["thr"]):
            a = sizes()
        return a != sizes()
    except Exception:  # noqa: BLE001
        return False


def gen_settings_case(ctx: Ctx, rng, thr: float) -> dict:
    """a single-object case whose output distribution has members around the threshold: exact unitaries / beam
    splitter meshes (lossless or lossy, both backends), optionally a final beam splitter whose reflectivity is of
    the order of the threshold, heralds, any detector / source / post-selection / min_detection / seed"""
    case = None
    for _ in range(8):
        n = rng.choice([3, 4, 4, 5])
        prog = gen_base(rng, n, rng.choice(["unitary", "unitary", "unitary", "bs", "bs", "lossy"]))
        hs = gen_heralds(rng, n, 1) if rng.random() < 0.35 else []
        im = n - len(hs)
        nph = max(1, min(rng.choice([2, 2, 3, 3]), 4 - sum(h[0] for h in hs)))
        small = rng.choice([thr / 3, thr / 30, 3 * thr])
        param = rng.choice([None, None, small, 1 - small, 0.25])
        case = {"prog": prog, "circ": {"heralds": hs, "param": param}, "thr": thr, "input": fg.rand_state(rng, im, nph),
                "det": dict(rng.choice(DETS)), "rules": gen_rules_h(rng, im, nph), "min": rng.choice([0, 0, 1]),
                "seed": gen_seed(rng), "N": rng.choice([50, 200]), "psform": rng.choice(["object", "object", "function"]),
                "src": rng.choice(SRCS) if rng.random() < 0.25 else None,
                "backend": rng.choice(["permanent", "permanent", "slos"]), "K": 48}
        if truncated(case):
            break
    return case


def settings_corpus() -> list[dict]:
    """directed cases (fixed, independent of VERIF_SEED): for every threshold a perfect-detector and an
    imperfect-detector case on a lossless circuit in which the threshold is known to remove states"""
    rng = pyrandom.Random("c07-settings-corpus")
    out = []
    for thr in THRESHOLDS:
        for det in (DETS[0], DETS[3], DETS[7]):
            for _ in range(60):
                n = rng.choice([4, 5])
                small = thr / 3
                case = {"prog": gen_base(rng, n, "unitary"), "thr": thr, "det": dict(det), "rules": [], "min": 0,
                        "circ": {"heralds": [], "param": rng.choice([small, 1 - small]) if thr < 1e-3 else None},
                        "input": fg.rand_state(rng, n, 3 if thr < 1e-2 else 2), "seed": rng.choice([0, 7, ["float", 1.0]]),
                        "N": 50, "psform": "object", "src": None, "backend": "permanent", "K": 48}
                if len(set(case["input"])) > 1 and truncated(case):
                    out.append(case)
                    break
    return out


def settings_probe(ctx: Ctx, rng) -> None:
    cases = [(k, "corpus") for k in settings_corpus()]
    for thr in THRESHOLDS:
        cases += [(gen_settings_case(ctx, rng, thr), "generated") for _ in range(ctx.n(5, 60))]
    for case, tag in cases:
        if ctx.out_of_time():
            return
        probs = run_case(ctx, case)
        ctx.count(f"settings:{tag}")
        ctx.count(f"settings:thr={case['thr']:g}")
        ctx.case(json.dumps(case), True)
        report_case(ctx, case, probs)
        if not probs or all("heralded circuit" in p or "numpy integer seed" in p for p in probs):
            r = stat_single(ctx, case)
            if r is not None:
                ctx.violation(r[0], r[1], sig={"kind": r[1]["kind"]})
        if lw.settings.sampler_probability_threshold != THR_DEFAULT:
            raise RuntimeError("the global probability threshold was not restored")


def stat_test(ctx: Ctx, rng) -> None:
    """frequencies of sample_N_inputs vs the exact detected/heralded/post-selected distribution"""
    for _ in range(ctx.n(3, 25)):
        if ctx.out_of_time():
            break
        case = None
        while case is None:
            case = gen_case(ctx, rng)
        ctx.case(("stat", json.dumps(case)), True)
        r = stat_case(ctx, case)
        if r is not None:
            ctx.violation(r[0], r[1], sig={"kind": r[1]["kind"]})


def stat_history(ctx: Ctx, rng) -> None:
    """frequencies returned by a long-lived object at the END of a history vs the exact distribution of its
    current configuration (distribution of a fresh object; detector kernel from the model)"""
    for i in range(ctx.n(4, 30)):
        if ctx.out_of_time():
            break
        kind = "sampler" if i % 2 == 0 else "quick"
        hist = gen_history(ctx, rng, kind)
        with threshold(hist.get("thr")):  # the long-lived object is sampled under the history's setting
            _stat_history_one(ctx, rng, hist, kind)


def _stat_history_one(ctx: Ctx, rng, hist: dict, kind: str) -> None:
    probs, live = _run_history(ctx, hist, lambda *_: None)
    if probs or live is None:
        return  # reported by history_probe's own stream when it meets it; here only clean histories
    cur = live.cur
    cref, psf, fresh = live.fresh()
    try:
        pd = fresh.probability_distribution
    except Exception:  # noqa: BLE001
        return
    hout, rules = cref.heralds["output"], cur["rules"]
    ctx.case(("stat-history", json.dumps(hist)), True)
    ctx.count(f"stat_tests:history:{kind}")
    tests = []
    if kind == "sampler":
        if hout and max(hout.values()) > 1 and not cur["det"]["pnr"]:
            return
        N = 6000
        if abs(total_of(pd) - 1) <= GUARD:  # otherwise sample_N_inputs refuses (checked in the history itself)
            obs = counts_of(live.obj.sample_N_inputs(N, post_select=live.ps, min_detection=cur["min"],
                                                     seed=rng.randrange(10**6)))
            exp = exact_inputs_dist(ctx, pd, cur["det"], hout, rules, cur["min"])
            tests.append(("Sampler.sample_N_inputs", obs, exp, N, True))
        if not hout:
            K = 2000
            pyrandom.seed(rng.randrange(10**6))
            obs1 = tally(live.obj.sample().s for _ in range(K))
            exp1 = exact_inputs_dist(ctx, pd, cur["det"], {}, [], 0)
            tests.append(("Sampler.sample", obs1, exp1, K, True))
    else:
        K = 3000
        pyrandom.seed(rng.randrange(10**6))
        obs = tally(live.obj.sample().s for _ in range(K))
        tot = float(sum(pd.values()))
        exp = {tuple(k.s): float(v) / tot for k, v in pd.items()}
        tests.append(("QuickSampler.sample", obs, exp, K, False))
        obs2 = counts_of(live.obj.sample_N_outputs(K, seed=rng.randrange(10**6)))
        tests.append(("QuickSampler.sample_N_outputs", obs2, exp, K, False))
    for meth, obs, exp, N, rej in tests:
        v = chi2_verdict(obs, exp, N, rej)
        if v is None or v[0] == "ok":
            continue
        what = (f"returned {list(v[1])}, a state of probability zero under" if v[0] == "support" else
                f"frequencies deviate (chi2={v[1]:.1f}, dof={v[2]}, p={v[3]:.2e}) from")
        ctx.violation(f"oracle: {meth} on a long-lived object at the end of a history: {what} the exact distribution of "
                      f"the current configuration", {"history": hist, "method": meth, "observed": sorted(obs.items()),
                                                     "expected": sorted((k, N * x) for k, x in exp.items())},
                      sig={"kind": "stat-history", "method": meth})
        break


def run(ctx: Ctx) -> None:
    ctx.rule = ("generated circuits/inputs, detector settings (efficiency, p_dark, photon counting), post-selection "
                "rules (objects and functions), min_detection, seeds (random and the boundary pool) and sample counts; the "
                "global probability threshold raised to 1e-6..5e-2 (sub-normalised stored distributions: normalised "
                "cumulative distribution, tape replay, single-shot chi-square); worlds of objects built with default "
                "components, one tuned in place, all compared with explicitly built fresh objects; "
                "tape replay of sample_N_inputs / sample_N_outputs / sample of the Sampler and the QuickSampler on the "
                "model + clause checks + chi-square tests; histories on one long-lived Sampler / QuickSampler "
                "(sample, reconfigure, read, sample) against the current configuration's clauses, a fresh object and the "
                "model; non-trivial = imperfect detector or heralds or rules or min_detection or a history; distinct = "
                "distinct configuration / history")
    contract_selftest(ctx)
    rng = ctx.rng
    import postsel

    postsel.run_stream(ctx, pyrandom.Random(f"C07-postsel-{ctx.seed}"), ctx.n(300, 4000))
    try:
        _run_streams(ctx, rng)
    finally:
        lw.settings.sampler_probability_threshold = THR_DEFAULT  # whatever happened: other streams see the default
    for k in [k for k in ctx.extra if k.startswith("_")]:
        del ctx.extra[k]


def _run_streams(ctx: Ctx, rng) -> None:
    seed_corpus(ctx, rng)
    settings_probe(ctx, rng)
    history_probe(ctx, rng)
    N = ctx.n(70, 2000)
    done = 0
    while done < N:
        case = gen_case(ctx, rng)
        if case is None:
            continue
        done += 1
        probs = run_case(ctx, case)
        d = case["det"]
        nontriv = d["eta"] != 1 or d["pdark"] != 0 or not d["pnr"] or bool(case["rules"]) or case["min"] > 0 or \
            any(op[0] == "herald" for op in case["prog"])
        ctx.count("imperfect_detector" if (d["eta"] != 1 or d["pdark"] != 0 or not d["pnr"]) else "perfect_detector")
        ctx.count("heralded" if any(op[0] == "herald" for op in case["prog"]) else "no_heralds")
        ctx.count(f"seed:{seed_tag(case['seed'])}")
        ctx.case(json.dumps(case), nontriv, sample=case if done <= 2 else None)
        report_case(ctx, case, probs)
    reuse_probe(ctx, rng)
    quick_ps_mutation_probe(ctx, rng)
    stat_test(ctx, rng)
    stat_history(ctx, rng)


def replay(ctx: Ctx, path: str) -> None:
    data = json.load(open(path))["replay"]
    if "postsel" in data and "postsel_model" not in data:
        print("replay: a PostSelection history recorded before replays carried the model form; rerun the check with the seed")
        return
    if "postsel_model" in data:
        import postsel

        probs = postsel.replay_case(ctx, data)
        ctx.case("replay", True)
    elif "history" in data:
        probs, _ = run_history(ctx, data["history"])
        ctx.case("replay", True, sample=data["history"])
    elif "prog" in data.get("case", {}) and "det" in data["case"]:
        probs = run_case(ctx, data["case"])
        ctx.case("replay", True, sample=data["case"])
        if not probs and str(data.get("kind", "")).startswith("stat-single"):
            r = stat_single(ctx, data["case"], K=20000)
            probs = [r[0]] if r else []
    else:
        print("replay: this replay records a directed probe (reuse / in-place mutation / statistics); rerun the check "
              "with the recorded seed")
        return
    for p in probs:
        print("replay:", p)
        (ctx.violation(p, data, sig={"kind": "replay"}) if p.startswith("oracle") else ctx.disagreement(p, data))
