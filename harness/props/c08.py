"""
C08 — operations never modify their arguments; failed calls change nothing.

Model: LW.Model.Heap (heapStep over a pool of live circuit objects).  Histories of API calls over
2-5 live objects, with objects reused as arguments; after EVERY call every live object of the
implementation is snapshotted (n_modes, input_modes, heralds, U_full) and compared
  * with its own snapshot before the call (property oracle: only the call's target may change,
    nothing may change when the call raised), and
  * with the model pool after the same call (correspondence).
Read-only consumers (Simulator, Sampler, Analyzer, Reck.map, Display, tomography, the qiskit
converter's and tomography's shared module-level gate objects) are probed on the implementation.
"""

from __future__ import annotations

import json

import numpy as np

import circgen as cg
import lightworks as lw
from core import CIRCLE, PYTH, Ctx, ddmin, mat_close, parse_mat

TRUSTED = [
    "Lean 4.33 kernel; axioms subset of {propext, Classical.choice, Quot.sound} (audited on every run)",
    "hand-written model LW.Model.Heap/Circuit tied to the code by this correspondence check "
    "(all live objects compared after every call)",
    "Python object identity/aliasing is not modelled: the model's values are immutable, the check observes the "
    "implementation's objects instead",
]
ASSUMPTIONS = ["histories: 5-30 calls over 2-5 live circuits (<= 5 user modes) in the correspondence check"]

TARGET = {"new": 1, "unitary": 1, "bs": 1, "ps": 1, "loss": 1, "barrier": 1, "swaps": 1, "herald": 1, "add": 1,
          "plus": 1, "copy": 1, "unpack": 1, "compress": 1, "nonadj": 1}


def snap(c) -> dict:
    o = cg.observe(c)
    return o


def same(a: dict, b: dict) -> bool:
    if a["n"] != b["n"] or a["input_modes"] != b["input_modes"]:
        return False
    if a["in_heralds"] != b["in_heralds"] or a["out_heralds"] != b["out_heralds"]:
        return False
    if ("U_full" in a) != ("U_full" in b):
        return False
    if "U_full" in a:
        return a["U_full"].shape == b["U_full"].shape and mat_close(a["U_full"], b["U_full"], 1e-12)
    return True


def gen_history(ctx: Ctx, rng) -> tuple[list, list]:
    nobj = rng.randint(2, 5)
    ids = [f"o{k}" for k in range(nobj)]
    ports = {}
    free = {}
    prog = []
    for cid in ids:
        n = rng.randint(1, 5)
        prog.append(["new", cid, n])
        ports[cid] = n
        free[cid] = n
    # directed prefixes: the situations in which an argument or a rejected call can be written to
    if rng.random() < 0.5:
        which = rng.choice(["span_over_ancilla", "copy_then_herald", "oversize_trailing_ancilla"])
        ctx.count("directed:" + which)
        if which == "span_over_ancilla":
            # parent with an ancilla strictly inside the span of a later un-heralded, ungrouped addition
            n = rng.randint(3, 5)
            prog += [["new", "dp", n], ["new", "dh", 2], ["herald", "dh", rng.choice([0, 1]), rng.choice([0, 1]), rng.choice([0, 1])],
                     cg.op_bs("dh", 0, 1, *rng.choice(PYTH)), ["add", "dp", "dh", rng.randint(1, n - 2), rng.random() < 0.5],
                     ["new", "dc", n], cg.rand_prim_op(rng, "dc", n), cg.rand_prim_op(rng, "dc", n),
                     ["add", "dp", "dc", 0, False], ["add", "dp", "dc", 0, rng.random() < 0.5]]
            for cid, k in (("dp", n), ("dh", 2), ("dc", n)):
                ids.append(cid); ports[cid] = k; free[cid] = k
            free["dh"] = 1
        elif which == "copy_then_herald":
            n = rng.randint(2, 4)
            prog += [["new", "dq", n], cg.rand_prim_op(rng, "dq", n), ["herald", "dq", 1, 0, rng.randrange(n)],
                     ["copy", "dk", "dq"], ["herald", rng.choice(["dk", "dq"]), 0, n - 1, n - 1],
                     cg.rand_prim_op(rng, "dk", n)]
            for cid in ("dq", "dk"):
                ids.append(cid); ports[cid] = n; free[cid] = max(0, n - 2)
        else:
            prog += [["new", "dp", 3], ["new", "dh", 2], ["herald", "dh", 0, 1, 1], ["add", "dp", "dh", 2, True],
                     ["new", "dc", 3], ["herald", "dc", rng.choice([0, 1]), 0, 0], cg.op_bs("dc", 1, 2, *rng.choice(PYTH)),
                     ["add", "dp", "dc", 2, rng.random() < 0.5], ["add", "dp", "dc", 1, True]]
            for cid, k, f in (("dp", 3, 3), ("dh", 2, 1), ("dc", 3, 2)):
                ids.append(cid); ports[cid] = k; free[cid] = f
    steps = rng.randint(5, ctx.n(22, 30))
    for _ in range(steps):
        r = rng.random()
        cid = rng.choice(ids)
        if r < 0.35:
            sid = rng.choice(ids)  # may be the same object as the target
            p, q = ports[cid], free[sid]
            if rng.random() < 0.8 and q <= p and p > 0:
                m = rng.randint(0, p - q) if p - q >= 0 else 0
                m = min(m, p - 1)
            else:
                m = rng.choice([-1, p, p + 1, max(0, p - q + 1)])
            prog.append(["add", cid, sid, m, rng.random() < 0.5])
        elif r < 0.5 and free[cid] > 0:
            n = ports[cid]
            i, o = rng.randrange(n), rng.randrange(n)
            prog.append(["herald", cid, rng.choice([0, 1, 1, 2]), i, o])
            free[cid] = max(0, free[cid] - 1)  # optimistic; duplicates are rejected by both sides
        elif r < 0.56:
            a, b = rng.choice(ids), rng.choice(ids)
            new = rng.choice([*ids, f"s{len(prog)}"])
            prog.append(["plus", new, a, b])
            if new not in ports:
                ids.append(new)
            ports[new], free[new] = ports[a], ports[a]
        elif r < 0.62:
            src = rng.choice(ids)
            new = f"k{len(prog)}"
            prog.append(["copy", new, src])
            ids.append(new)
            ports[new], free[new] = ports[src], free[src]
        elif r < 0.68:
            prog.append([rng.choice(["compress", "nonadj"]), cid])
        else:
            prog.append(cg.rand_prim_op(rng, cid, ports[cid], p_invalid=0.2))
    return prog, ids


def run_case(ctx: Ctx, prog: list, ids: list) -> list[str]:
    probs: list[str] = []
    pool: dict = {}
    res = []
    snaps_after = []
    for k, op in enumerate(prog):
        before = {cid: snap(c) for cid, c in pool.items()}
        r = cg.apply_op(pool, op)
        res.append(r)
        after = {cid: snap(c) for cid, c in pool.items()}
        snaps_after.append(after)
        tgt = op[1]
        for cid, b in before.items():
            if cid not in after:
                continue
            if (r != "ok" or cid != tgt) and not same(b, after[cid]):
                why = "a call that raised" if r != "ok" else f"a call whose target is {tgt}"
                probs.append(f"oracle: call #{k} {op[:5]} ({r}) — {why} changed object {cid} "
                             f"(n_modes {b['n']}->{after[cid]['n']})")
                return probs
    live = [i for i in ids if i in pool]
    mres = ctx.model.call({"op": "circ", "prog": prog, "observe": live, "each": True})
    for k, (a, b) in enumerate(zip(res, mres["results"])):
        if a != b:
            probs.append(f"corr: call #{k} {prog[k][:5]} impl={a} model={b}")
            return probs
    for k, (ia, ma) in enumerate(zip(snaps_after, mres["snaps"])):
        for cid, o in ia.items():
            m = ma.get(cid)
            if m is None:
                continue
            if o["n"] != m["n"] or o["input_modes"] != m["input_modes"] or \
                    sorted(map(tuple, o["in_heralds"])) != sorted(map(tuple, m["in_heralds"])):
                probs.append(f"corr: after call #{k} {prog[k][:4]} object {cid}: n/input_modes/heralds differ from the model")
                return probs
            if "U_full" in o and not mat_close(o["U_full"], parse_mat(m["U_full"])):
                probs.append(f"corr: after call #{k} {prog[k][:4]} object {cid}: U_full differs from the model")
                return probs
    return probs


# --------------------------------------------------------------------------- read-only consumers


def heralded_sub(rng):
    s = lw.Circuit(3)
    s.bs(0, 1)
    s.bs(1, 2, reflectivity=0.3)
    s.herald(rng.choice([0, 1]), 2, rng.choice([0, 2]))
    return s


def consumer_probes(ctx: Ctx, rng) -> None:
    from lightworks import emulator, qubit

    def check(label, objs: dict, fn):
        before = {k: snap(v) for k, v in objs.items()}
        states_before = {}
        try:
            fn()
        except Exception as e:  # noqa: BLE001
            ctx.notes.append(f"consumer {label} raised {type(e).__name__}: {str(e)[:80]}")
        for k, v in objs.items():
            if not same(before[k], snap(v)):
                ctx.violation(f"oracle: consumer {label} changed circuit {k}",
                              {"consumer": label, "object": k}, sig={"kind": "consumer", "consumer": label})
        ctx.case(("consumer", label, rng.random()), True)
        ctx.count("consumer:" + label)

    for _ in range(ctx.n(3, 12)):
        if ctx.out_of_time():
            break
        c = lw.Circuit(4)
        c.bs(0, 1, reflectivity=0.4)
        c.ps(1, 0.3)
        sub = heralded_sub(rng)
        c.add(sub, 1)
        c.bs(2, 3, loss=0.1)
        c.add(heralded_sub(rng), 0, group=bool(rng.getrandbits(1)))
        st = lw.State([1, 0, 1, 0])
        st_list = st.s
        objs = {"c": c, "sub": sub}
        check("Simulator.simulate", objs, lambda: emulator.Simulator(c).simulate(st))
        check("Sampler.probability_distribution", objs, lambda: emulator.Sampler(c, st).probability_distribution)
        check("Sampler.sample_N_inputs", objs, lambda: emulator.Sampler(c, st).sample_N_inputs(20, seed=1))
        check("Analyzer.analyze", objs, lambda: emulator.Analyzer(c).analyze(st))
        check("QuickSampler", objs, lambda: emulator.QuickSampler(c, st).probability_distribution)
        check("Display.svg", objs, lambda: lw.Display(c, display_type="svg"))
        check("Display.mpl", objs, lambda: _mpl(c))
        check("copy/unpack", objs, lambda: c.copy().unpack_groups())
        check("copy(freeze)", objs, lambda: c.copy(freeze_parameters=True))
        if st.s != st_list:
            ctx.violation("oracle: a State passed to a consumer was modified", {"state": st_list},
                          sig={"kind": "consumer-state"})
        ll = lw.Circuit(3)
        ll.bs(0, 1)
        ll.add(heralded_sub(rng), 1)
        check("Reck.map", {"ll": ll}, lambda: lw.interferometers.Reck().map(ll))
    # shared module-level gate objects
    from lightworks.qubit.converter import qiskit_convert as qc_mod
    from lightworks.tomography import mappings

    shared = {f"SINGLE_QUBIT_GATES_MAP[{k}]": v for k, v in qc_mod.SINGLE_QUBIT_GATES_MAP.items()}
    shared.update({f"MEASUREMENT_MAPPING[{k}]": v for k, v in mappings.MEASUREMENT_MAPPING.items()})
    shared.update({f"INPUT_MAPPING[{k}]": v[1] for k, v in mappings.INPUT_MAPPING.items()})
    in_states = {k: v[0].s for k, v in mappings.INPUT_MAPPING.items()}

    def conv():
        from qiskit import QuantumCircuit

        for ps in (False, True):
            q = QuantumCircuit(3)
            q.cx(0, 1)
            q.h(1)
            q.cz(1, 2)
            q.s(2)
            q.t(1)
            q.h(2)
            q.x(0)
            q.cx(2, 1)
            q.sx(1)
            q.y(2)
            q.z(0)
            q.sdg(1)
            q.tdg(2)
            lw.qubit.qiskit_converter(q, allow_post_selection=ps)

    check("qiskit_converter(shared gates)", shared, conv)

    def tomo():
        from lightworks import tomography as tm

        base = lw.Circuit(4)
        base.add(qubit.H(), 0)
        base.add(qubit.CNOT_Heralded(), 0) if False else base.add(qubit.CNOT(), 0)

        def exp(circuits, inputs=None):
            out = []
            for i, cc in enumerate(circuits):
                inp = inputs[i] if inputs is not None else lw.State([1, 0, 1, 0])
                s = emulator.Sampler(cc, inp)
                ps = lw.PostSelection()
                ps.add((0, 1), 1)
                ps.add((2, 3), 1)
                out.append(s.sample_N_outputs(200, post_select=ps, seed=3))
            return out

        tm.StateTomography(2, base, exp).process()
        small = lw.Circuit(2)
        small.add(qubit.H(), 0)
        tm.LIProcessTomography(1, small, lambda cs, ins: [emulator.Sampler(c_, i_).sample_N_outputs(100, seed=2)
                                                           for c_, i_ in zip(cs, ins)]).process()

    check("tomography(shared mappings)", shared, tomo)
    for k, v in mappings.INPUT_MAPPING.items():
        if v[0].s != in_states[k]:
            ctx.violation("oracle: a shared input State was modified", {"key": k}, sig={"kind": "consumer-state"})


def _mpl(c):
    import matplotlib.pyplot as plt

    lw.Display(c, display_type="mpl")
    plt.close("all")


def run(ctx: Ctx) -> None:
    ctx.rule = ("random histories of 5-30 construction calls over 2-5 live circuit objects, objects reused as "
                "arguments (including self-addition), ~20% rejected calls; all objects snapshotted after every call; "
                "non-trivial = history contains an accepted add whose argument is reused later or earlier; "
                "distinct = distinct history; plus read-only consumer probes")
    N = ctx.n(150, 4000)
    rng = ctx.rng
    for i in range(N):
        if ctx.out_of_time():
            break
        prog, ids = gen_history(ctx, rng)
        probs = run_case(ctx, prog, ids)
        adds = [op for op in prog if op[0] == "add"]
        args = [op[2] for op in adds]
        nontriv = len(adds) >= 2 and (len(set(args)) < len(args) or any(op[1] in args for op in prog if op[0] != "add"))
        for op in prog:
            ctx.count("op:" + op[0])
        ctx.case(repr(prog), nontriv, sample=prog if i < 1 else None)
        if probs:
            ctx.count("histories_with_problems")

            def still(sub):
                return cg.well_formed(sub) and bool(run_case(ctx, sub, ids))

            small = ddmin(prog, still)
            sprobs = run_case(ctx, small, ids) or probs
            oracle = [p for p in sprobs if p.startswith("oracle")]
            rep = {"program": small, "observe": ids, "problems": sprobs}
            if oracle:
                kind = "failed-call-changed" if "raised" in oracle[0] else "non-target-changed"
                ctx.violation(oracle[0], rep, sig={"kind": kind, "ops": sorted({o[0] for o in small})})
            else:
                ctx.disagreement(sprobs[0], rep)
    consumer_probes(ctx, rng)


def replay(ctx: Ctx, path: str) -> None:
    data = json.load(open(path))["replay"]
    probs = run_case(ctx, data["program"], data["observe"])
    ctx.case("replay", True, sample=data["program"])
    for p in probs:
        print("replay:", p)
        if p.startswith("oracle"):
            ctx.violation(p, data, sig={"kind": "replay"})
        else:
            ctx.disagreement(p, data)
