"""
C08 — operations never modify their arguments; failed calls change nothing.

Model: LW.Model.Heap (heapStep over a pool of live circuit objects).  Histories of API calls over
2-5 live objects, with objects reused as arguments; after EVERY call every live object of the
implementation is snapshotted (n_modes, input_modes, heralds, U_full) and compared
  * with its own snapshot before the call (property oracle: only the call's target may change,
    nothing may change when the call raised), and
  * with the model pool after the same call (correspondence).
Read-only consumers (Simulator, Sampler, Analyzer, Reck.map, Display, tomography, the qiskit
converter's and tomography's shared module-level gate objects) are probed on the implementation.

Three streams of histories, in this order:
  1. a directed corpus of *building-block* shapes (`CORPUS`): an argument that itself holds grouped
     blocks (Unitary or sub-circuit, depth 1 and 2) placed ungrouped / grouped, at mode 0 and at
     modes > 0, twice in one parent and in two parents; the same with a parent ancilla inside the
     span; copies / sums that share their components with the original and are then extended by a
     heralded sub-circuit; one child shared by two cells that end up in one parent; self-addition;
  2. random tiered histories (`gen_blocks`: leaves -> cells -> wrappers -> parents, with Parameters
     and heralds), a third of them compared with the model, the rest with the property's own frame
     oracle only (`blocks:oracle-only`);
  3. the flat random histories (`gen_history`).
A snapshot of an object is n_modes, input_modes, heralds, U_full, U, whether it still compiles (and the
error class when not) and get_all_params (identity, value and bounds of every Parameter).

A fourth stream, run right after the corpus, is about FAMILIES: circuits related by copy(), copy(freeze_parameters=True),
`a + b`, `b + a` (and further: copies of sums, sums of copies, parents they were added to).  copy() and + are shallow, so
the members of a family hold the very same component objects; every later edit or REWRITE of one member (bs / ps / loss /
mode_swaps / add / herald, unpack_groups, compress_mode_swaps, remove_non_adjacent_bs) must work on its own copies.  The
members are filled with what the rewrites act on - runs of >= 2 mode swaps that compress_mode_swaps merges (next to each
other, with a component between them on modes the later swap does not touch, behind a blocked swap), beam splitters on
non-adjacent modes, grouped blocks - so that a rewrite of one member really rewrites components the others still hold.
`shape_family*` are the directed forms, `gen_family` the random one; the frame oracle (every live object compared with
its own snapshot after every call) is the one of the other streams.

CALLER-OWNED DATA (circgen_ext.Client; `with_client`, `shape_client_*`).  The arguments that are not circuits - the
ndarray a unitary block is read from, the dictionary of mode_swaps, the list of barrier - belong to the client, who
RE-USES them: one work buffer (per size / the corner of one large array / column-major) refilled for every block, one
dict and one list refilled for every call, and at arbitrary points overwritten, cleared, refilled (["scrub", kind, how]);
matrices / dicts the library hands out (U, U_full, heralds) are written into (["scribble", id, attr, how]).  Two
clauses: (i) a call leaves the container it was given exactly as the client filled it (the argument is not modified, also
when the call raises); (ii) a step in which NO call is made (the client touches its own memory) changes no live object,
and a call that builds one object from a re-filled container changes no other object (the frame oracle, unchanged).
The model sees values only (pseudo-ops are dropped), so these are oracle clauses; the correspondence with the model is
checked on the real calls as before.
"""

from __future__ import annotations

import json

import numpy as np

import circgen as cg
import circgen_ext as cx
import lightworks as lw
from core import CIRCLE, PYTH, Ctx, ddmin, mat_close, parse_mat

TRUSTED = [
    "Lean 4.33 kernel; axioms subset of {propext, Classical.choice, Quot.sound} (audited on every run)",
    "hand-written model LW.Model.Heap/Circuit tied to the code by this correspondence check "
    "(all live objects compared after every call)",
    "Python object identity/aliasing is not modelled: the model's values are immutable, the check observes the "
    "implementation's objects instead",
]
ASSUMPTIONS = ["histories: 5-40 calls over 2-9 live circuits (<= 6 user modes) in the correspondence check",
               "Parameters are never re-set inside a history (C10 owns that): the model sees a Parameter as its value"]

TARGET = {"new": 1, "unitary": 1, "bs": 1, "ps": 1, "loss": 1, "barrier": 1, "swaps": 1, "herald": 1, "add": 1,
          "plus": 1, "copy": 1, "copyf": 1, "unpack": 1, "compress": 1, "nonadj": 1}


snap = cx.snap
same = cx.same


def gen_history(ctx: Ctx, rng) -> tuple[list, list]:
    nobj = rng.randint(2, 5)
    ids = [f"o{k}" for k in range(nobj)]
    ports = {}
    free = {}
    prog = []
    for cid in ids:
        n = rng.randint(1, 5)
        prog.append(["new", cid, n])
        ports[cid] = n
        free[cid] = n
    # directed prefixes: the situations in which an argument or a rejected call can be written to
    if rng.random() < 0.5:
        which = rng.choice(["span_over_ancilla", "copy_then_herald", "oversize_trailing_ancilla"])
        ctx.count("directed:" + which)
        if which == "span_over_ancilla":
            # parent with an ancilla strictly inside the span of a later un-heralded, ungrouped addition
            n = rng.randint(3, 5)
            prog += [["new", "dp", n], ["new", "dh", 2], ["herald", "dh", rng.choice([0, 1]), rng.choice([0, 1]), rng.choice([0, 1])],
                     cg.op_bs("dh", 0, 1, *rng.choice(PYTH)), ["add", "dp", "dh", rng.randint(1, n - 2), rng.random() < 0.5],
                     ["new", "dc", n], cg.rand_prim_op(rng, "dc", n), cg.rand_prim_op(rng, "dc", n),
                     ["add", "dp", "dc", 0, False], ["add", "dp", "dc", 0, rng.random() < 0.5]]
            for cid, k in (("dp", n), ("dh", 2), ("dc", n)):
                ids.append(cid); ports[cid] = k; free[cid] = k
            free["dh"] = 1
        elif which == "copy_then_herald":
            n = rng.randint(2, 4)
            prog += [["new", "dq", n], cg.rand_prim_op(rng, "dq", n), ["herald", "dq", 1, 0, rng.randrange(n)],
                     ["copy", "dk", "dq"], ["herald", rng.choice(["dk", "dq"]), 0, n - 1, n - 1],
                     cg.rand_prim_op(rng, "dk", n)]
            for cid in ("dq", "dk"):
                ids.append(cid); ports[cid] = n; free[cid] = max(0, n - 2)
        else:
            prog += [["new", "dp", 3], ["new", "dh", 2], ["herald", "dh", 0, 1, 1], ["add", "dp", "dh", 2, True],
                     ["new", "dc", 3], ["herald", "dc", rng.choice([0, 1]), 0, 0], cg.op_bs("dc", 1, 2, *rng.choice(PYTH)),
                     ["add", "dp", "dc", 2, rng.random() < 0.5], ["add", "dp", "dc", 1, True]]
            for cid, k, f in (("dp", 3, 3), ("dh", 2, 1), ("dc", 3, 2)):
                ids.append(cid); ports[cid] = k; free[cid] = f
    steps = rng.randint(5, ctx.n(22, 30))
    # self-addition and sums double an object: keep the exact model's matrices reportable
    size = cx.Size(max_w=48, max_loss=8)
    for op in prog:
        if op[0] in ("bs", "ps", "loss", "barrier", "swaps"):
            size.prim(op)
        elif op[0] == "add":
            size.add(op[1], op[2])
        elif op[0] == "copy":
            size.copy(op[1], op[2])
    for _ in range(steps):
        r = rng.random()
        cid = rng.choice(ids)
        if r < 0.35:
            sid = rng.choice(ids)  # may be the same object as the target
            p, q = ports[cid], free[sid]
            if rng.random() < 0.8 and q <= p and p > 0:
                m = rng.randint(0, p - q) if p - q >= 0 else 0
                m = min(m, p - 1)
            else:
                m = rng.choice([-1, p, p + 1, max(0, p - q + 1)])
            if size.add(cid, sid):
                prog.append(["add", cid, sid, m, rng.random() < 0.5])
            else:
                ctx.count("flat:add-skipped(size)")
                prog.append(size.prim_op(cg.rand_prim_op(rng, cid, ports[cid], p_invalid=0.2)))
        elif r < 0.5 and free[cid] > 0:
            n = ports[cid]
            i, o = rng.randrange(n), rng.randrange(n)
            prog.append(["herald", cid, rng.choice([0, 1, 1, 2]), i, o])
            free[cid] = max(0, free[cid] - 1)  # optimistic; duplicates are rejected by both sides
        elif r < 0.56:
            a, b = rng.choice(ids), rng.choice(ids)
            new = rng.choice([*ids, f"s{len(prog)}"])
            if not size.plus(new, a, b):
                ctx.count("flat:plus-skipped(size)")
                continue
            prog.append(["plus", new, a, b])
            if new not in ports:
                ids.append(new)
            ports[new], free[new] = ports[a], ports[a]
        elif r < 0.62:
            src = rng.choice(ids)
            new = f"k{len(prog)}"
            prog.append(["copy", new, src])
            size.copy(new, src)
            ids.append(new)
            ports[new], free[new] = ports[src], free[src]
        elif r < 0.68:
            prog.append([rng.choice(["compress", "nonadj"]), cid])
        else:
            prog.append(size.prim_op(cg.rand_prim_op(rng, cid, ports[cid], p_invalid=0.2)))
    return prog, ids


# --------------------------------------------------------------------------- building-block histories
#
# What can be written to by mistake is not only the argument's own bookkeeping but every mutable object
# the argument *shares*: Circuit.copy() and __add__ are shallow, so copies, sums and the private copies
# made inside add() all hold the same component objects (Group objects with their nested spec lists and
# herald dicts, UnitaryMatrix arrays, swap dicts).  Every in-place edit of a component (shifting by the
# insertion mode, inserting a pass-through / ancilla mode) must therefore happen on a per-component copy,
# recursively through groups.  The shapes below put a grouped block (depth 1 and 2) in exactly the
# positions where such an edit happens, and keep every object that shares it alive and observed.


def _cell(b: cx.Book, cid: str, leaf: str, n: int | None = None, group: bool = True, positive: bool | None = None) -> str:
    """cell = circuit holding `leaf` as a (grouped) block plus a few primitives"""
    rng = b.rng
    n = n if n is not None else rng.randint(max(2, b.free[leaf]), max(2, b.free[leaf]) + rng.randint(0, 2))
    b.new(cid, n)
    b.prim(cid, k=rng.randint(0, 2))
    b.add(cid, leaf, b.place_mode(cid, leaf, positive), group)
    b.prim(cid, k=rng.randint(0, 1))
    return cid


def _leaf(b: cx.Book, lid: str, kind: str | None = None) -> str:
    rng = b.rng
    kind = kind or rng.choice(["unitary", "unitary", "circuit", "heralded"])
    if kind == "unitary":
        return b.unitary(lid, rng.randint(1, 3))
    if kind == "heralded":
        return b.small_heralded(lid)
    b.new(lid, rng.randint(1, 3))
    b.prim(lid, k=rng.randint(1, 3))
    return lid


def shape_tile(b: cx.Book) -> None:
    """a cell with a grouped block placed ungrouped at modes > 0 twice in one parent and once in another,
    then grouped, then at mode 0; the cell is edited in between"""
    rng = b.rng
    _leaf(b, "l0", rng.choice(["unitary", "unitary", "circuit"]))
    _cell(b, "b0", "l0", positive=rng.random() < 0.7)
    n = b.free["b0"] + rng.randint(1, 3)
    b.new("P0", n)
    b.new("P1", n + rng.randint(0, 1))
    b.prim("P0")
    b.add("P0", "b0", b.place_mode("P0", "b0", True), False)
    b.prim("P0")
    b.add("P0", "b0", b.place_mode("P0", "b0", True), False)
    b.add("P1", "b0", b.place_mode("P1", "b0", True), False)
    b.prim("b0")
    b.add("P1", "b0", b.place_mode("P1", "b0"), True)
    b.add("P0", "b0", 0, rng.random() < 0.5)


def shape_depth2(b: cx.Book) -> None:
    """leaf grouped in a cell, the cell grouped in a wrapper, the wrapper placed ungrouped at a mode > 0
    (the shared Group holds a Group), in two parents"""
    rng = b.rng
    _leaf(b, "l0", rng.choice(["unitary", "circuit"]))
    _cell(b, "b0", "l0")
    b.new("w0", b.free["b0"] + rng.randint(0, 1))
    b.prim("w0", k=rng.randint(0, 1))
    b.add("w0", "b0", b.place_mode("w0", "b0"), True)
    b.prim("w0", k=rng.randint(0, 1))
    n = b.free["w0"] + rng.randint(1, 2)
    b.new("P0", n)
    b.add("P0", "w0", b.place_mode("P0", "w0", True), False)
    b.add("P0", "w0", b.place_mode("P0", "w0", True), rng.random() < 0.3)
    b.new("P1", n)
    b.add("P1", "w0", b.place_mode("P1", "w0"), False)
    b.prim("b0")
    b.add("P1", "b0", b.place_mode("P1", "b0", True), False)


def shape_ancilla_in_span(b: cx.Book) -> None:
    """the parent already has an ancilla strictly inside the span of an ungrouped placement of a cell
    that holds a grouped block: the pass-through mode is inserted into the (shared) block"""
    rng = b.rng
    _leaf(b, "l0", "unitary" if rng.random() < 0.6 else "circuit")
    b.small_heralded("h0")
    _cell(b, "b0", "l0", n=max(3, b.free["l0"] + 1))
    n = b.free["b0"] + rng.randint(0, 2)
    b.new("P0", n)
    b.add("P0", "h0", rng.randint(1, max(1, b.free["b0"] - 2)), rng.random() < 0.5)
    b.add("P0", "b0", 0, False)
    b.add("P0", "b0", b.place_mode("P0", "b0"), False)
    b.prim("P0")
    b.add("P0", "b0", 0, True)


def shape_shared_components(b: cx.Book) -> None:
    """copies and sums hold the same component objects as the original: extend one of them by a heralded
    sub-circuit (an ancilla mode is inserted into every existing component), edit, unpack, rewrite"""
    rng = b.rng
    _leaf(b, "l0", rng.choice(["unitary", "circuit"]))
    b.small_heralded("h0")
    _cell(b, "b0", "l0", n=max(3, b.free["l0"] + 1), positive=True)
    b.copy("k0", "b0")
    b.plus("s0", "b0", "k0")
    tgt = rng.choice(["k0", "s0", "b0"])
    b.add(tgt, "h0", rng.choice([0, 0, 1]), rng.random() < 0.5)
    b.prim(tgt)
    other = rng.choice([x for x in ("k0", "s0", "b0") if x != tgt])
    b.add(other, "h0", rng.randint(0, max(0, b.ports[other] - 1)), False)
    b.prog.append([rng.choice(["unpack", "compress", "nonadj"]), rng.choice(["k0", "s0"])])
    b.new("P0", b.ports["b0"] + rng.randint(1, 2))
    b.add("P0", rng.choice(["k0", "s0", "b0"]), b.place_mode("P0", "b0", True), False)
    b.add("P0", "b0", b.place_mode("P0", "b0"), rng.random() < 0.5)


def shape_shared_child(b: cx.Book) -> None:
    """one child in two cells (grouped at a mode > 0 in one, ungrouped in the other), both cells in one
    parent and in each other; the child is edited afterwards"""
    rng = b.rng
    _leaf(b, "l0")
    _cell(b, "b0", "l0", group=True, positive=True)
    _cell(b, "b1", "l0", n=b.ports["b0"], group=rng.random() < 0.3)
    n = b.ports["b0"] + rng.randint(1, 2)
    b.new("P0", n)
    b.add("P0", "b0", b.place_mode("P0", "b0", True), False)
    b.add("P0", "b1", b.place_mode("P0", "b1"), rng.random() < 0.5)
    if b.ports["l0"] >= 1:
        b.prim("l0")
    b.add("b1", "b0", 0, rng.random() < 0.5)
    b.add("P0", "b1", b.place_mode("P0", "b1", True), False)
    b.add("P0", "l0", b.place_mode("P0", "l0", True), rng.random() < 0.5)


def shape_params_heralds(b: cx.Book) -> None:
    """cells carrying Parameters and their own heralds (grouping is then forced), placed at modes > 0,
    twice; a Parameter shared by the cell and the parent"""
    rng = b.rng
    keep, b.p_param = b.p_param, 0.9
    _leaf(b, "l0", "circuit")
    _cell(b, "b0", "l0", n=rng.randint(3, 4))
    b.prim("b0", k=2)
    b.copy("k0", "b0")
    if rng.random() < 0.7:
        b.herald("b0")
    n = b.ports["b0"] + rng.randint(1, 2)
    b.new("P0", n)
    b.prim("P0", k=2)
    b.add("P0", "b0", b.place_mode("P0", "b0", True), rng.random() < 0.5)
    b.add("P0", "k0", b.place_mode("P0", "k0", True), False)
    b.add("P0", "b0", b.place_mode("P0", "b0"), False)
    b.prim("b0")
    b.p_param = keep


def shape_self_and_repeat(b: cx.Book) -> None:
    """the same argument to the same parent grouped at mode 0, ungrouped at a mode > 0, and to itself"""
    rng = b.rng
    _leaf(b, "l0", "unitary")
    _cell(b, "b0", "l0")
    b.add("b0", "b0", 0, rng.random() < 0.5)
    b.new("P0", b.ports["b0"] + rng.randint(1, 2))
    b.add("P0", "b0", 0, True)
    b.add("P0", "b0", b.place_mode("P0", "b0", True), False)
    b.add("b0", "b0", 0, False)
    b.add("P0", "P0", 0, rng.random() < 0.5)
    b.add("P0", "b0", b.place_mode("P0", "b0", True), False)
    b.add("P0", "b0", b.ports["P0"] - b.free["b0"] + 1, False)  # oversize: rejected, nothing may change


# --------------------------------------------------------------------------- families
#
# copy() and a + b hand the SAME component objects to the new circuit.  A rewrite that builds its new spec from the
# old components (merging a later swap into an earlier ModeSwaps, replacing a beam splitter, unpacking a Group) has
# to do so on per-component copies, or every relative changes with it - silently, and only when the rewrite has
# something to do.  So the members are filled with work for every rewrite, and every relative stays alive.


def _fill(b: cx.Book, cid: str, rich: bool = True) -> None:
    """content the rewrites act on: runs of mergeable swaps (at least one when `rich`), a beam splitter on
    non-adjacent modes, a grouped block, ordinary primitives"""
    rng = b.rng
    n = b.ports[cid]
    runs = 0
    for _ in range(rng.randint(2, 4)):
        r = rng.random()
        if r < 0.5:
            runs += b.swap_run(cid) is not None
        elif r < 0.7:
            b.prim(cid, k=rng.randint(1, 2))
        elif r < 0.85 and n >= 3:
            m1 = rng.randrange(n - 2)
            op = cg.op_bs(cid, m1, rng.randint(m1 + 2, n - 1), *rng.choice(PYTH))
            if rng.random() < 0.3:
                op[2], op[3] = op[3], op[2]
            b.size.prim(op)
            b.prog.append(op)
        else:
            lid = f"g{len(b.prog)}"
            _leaf(b, lid, rng.choice(["unitary", "circuit"]))
            if rng.random() < 0.4:
                b.swap_run(lid)  # swaps inside a group are left alone by the rewrite, before and after unpacking they are not
            b.add(cid, lid, b.place_mode(cid, lid), True)
    if rich and not runs:
        b.swap_run(cid)


def _derive(b: cx.Book, new: str, how: str, x: str, y: str | None = None) -> str:
    if how == "copy":
        b.copy(new, x)
        b.relate(new, x)
    elif how == "copyf":
        b.copyf(new, x)
    else:
        n0 = len(b.prog)
        b.plus(new, x, y)
        b.relate(new, *(b.prog[n0][2:4] if b.prog[n0][0] == "plus" else [x]))
    return new


def _rewrite(ctx: Ctx, b: cx.Book, cid: str, op: str) -> None:
    if op == "compress":
        if b.mergeable.get(cid) and b.shares.get(cid):
            ctx.count("family:compress:member-with-mergeable-swaps-shared-with-a-relative")
        b.mergeable[cid] = 0
    b.prog.append([op, cid])
    ctx.count("family:rewrite:" + op)


def shape_family(b: cx.Book, ctx: Ctx | None = None) -> None:
    """a and b (same size, swap-rich); k = a.copy(), f = a.copy(freeze), s = a + b, t = b + a, P with a added; then three
    of them are rewritten one after the other (compress first), with edits in between"""
    rng = b.rng
    n = rng.randint(3, 5)
    b.new("a0", n)
    _fill(b, "a0")
    b.new("b0", n)
    _fill(b, "b0", rich=rng.random() < 0.7)
    _derive(b, "k0", "copy", "a0")
    _derive(b, "f0", "copyf", "a0")
    _derive(b, "s0", "plus", "a0", "b0")
    _derive(b, "t0", "plus", "b0", "a0")
    b.new("P0", n + rng.randint(0, 1))
    b.add("P0", "a0", b.place_mode("P0", "a0"), rng.random() < 0.3)
    order = ["k0", "s0", "a0", "t0", "f0", "b0", "P0"]
    rng.shuffle(order)
    for k, cid in enumerate(order[:4]):
        _rewrite(ctx or _NOCTX, b, cid, "compress" if k == 0 or rng.random() < 0.5 else rng.choice(["nonadj", "unpack", "compress"]))
        if rng.random() < 0.5:
            b.prim(rng.choice(order), k=1)


def shape_family_chain(b: cx.Book, ctx: Ctx | None = None) -> None:
    """relatives of relatives: a copy of a sum, a sum of copies, a copy of a copy; an edit (swaps appended to one member
    only) between deriving and rewriting; the rewrite happens on the far end of the chain and on the origin"""
    rng = b.rng
    n = rng.randint(2, 4)
    b.new("a0", n)
    _fill(b, "a0")
    _derive(b, "k0", "copy", "a0")
    _derive(b, "k1", rng.choice(["copy", "copy", "copyf"]), "k0")
    _derive(b, "s0", "plus", "k0", "a0")
    _derive(b, "s1", "copy", "s0")
    _derive(b, "s2", "plus", "s1", "k1")
    b.swap_run(rng.choice(["a0", "k0", "s1"]))
    ends = ["s2", "a0", "k1", "s1", "s0", "k0"]
    for k, cid in enumerate([ends[0], ends[1], rng.choice(ends[2:])]):
        _rewrite(ctx or _NOCTX, b, cid, "compress" if k < 2 else rng.choice(["compress", "nonadj", "unpack"]))
    b.small_heralded("h0")
    tgt = rng.choice(ends)
    b.add(tgt, "h0", rng.randint(0, max(0, b.ports[tgt] - 1)), rng.random() < 0.5)
    b.herald(rng.choice(ends))
    _rewrite(ctx or _NOCTX, b, rng.choice(ends), "compress")


class _NoCtx:
    def count(self, *_a, **_k) -> None:
        pass


_NOCTX = _NoCtx()


def gen_family(ctx: Ctx, rng) -> tuple[list, list]:
    """random family: 1-2 origins, 3-6 relatives derived from any member made so far, then 4-9 steps each of which
    edits or rewrites ONE member (or derives a further relative)"""
    b = cx.Book(rng, p_param=rng.choice([0.0, 0.25, 0.5]))
    n = rng.randint(2, 5)
    members = []
    for k in range(rng.randint(1, 2)):
        b.new(f"a{k}", n)
        _fill(b, f"a{k}", rich=rng.random() < 0.85)
        members.append(f"a{k}")
    parents = []
    helper = None

    def derive(tag: str) -> None:
        how = rng.choice(["copy", "copy", "copyf", "plus", "plus", "parent"])
        x = rng.choice(members)
        if how == "parent":
            pid = f"P{tag}"
            b.new(pid, n + rng.randint(0, 2))
            b.add(pid, x, b.place_mode(pid, x), rng.random() < 0.4)
            parents.append(pid)
        else:
            y = rng.choice(members)
            members.append(_derive(b, f"{how[0]}{tag}", how, *((x, y) if rng.random() < 0.5 else (y, x)) if how == "plus" else (x,)))
        ctx.count("family:derive:" + how)

    for k in range(rng.randint(3, 6)):
        derive(str(k))
    for step in range(rng.randint(4, ctx.n(9, 12))):
        r = rng.random()
        cid = rng.choice(members if rng.random() < 0.85 or not parents else parents)
        if r < 0.38:
            _rewrite(ctx, b, cid, "compress")
        elif r < 0.5:
            _rewrite(ctx, b, cid, rng.choice(["nonadj", "unpack"]))
        elif r < 0.62:
            b.prim(cid, p_invalid=0.15)
            ctx.count("family:edit:primitive")
        elif r < 0.72:
            b.swap_run(cid)
            ctx.count("family:edit:more-mergeable-swaps")
        elif r < 0.8:
            if helper is None:
                helper = b.small_heralded("h0")
            b.add(cid, helper, b.place_mode(cid, helper, rng.random() < 0.5), rng.random() < 0.5)
            ctx.count("family:edit:add-heralded")
        elif r < 0.86:
            b.herald(cid)
            ctx.count("family:edit:herald")
        elif r < 0.92:
            sub = rng.choice(members)
            b.add(cid, sub, b.place_mode(cid, sub), rng.random() < 0.4)
            ctx.count("family:edit:add-a-relative")
        else:
            derive(f"x{step}")
    return b.prog, b.ids


FAMILY = [shape_family, shape_family_chain]

CORPUS = [shape_tile, shape_depth2, shape_ancilla_in_span, shape_shared_components, shape_shared_child,
          shape_params_heralds, shape_self_and_repeat]


def gen_blocks(ctx: Ctx, rng) -> tuple[list, list]:
    """random tiered history: leaves -> cells -> (wrapper) -> parents, then a script of placements,
    edits, copies / sums, heralds and rejected calls over all of them"""
    b = cx.Book(rng, p_param=rng.choice([0.0, 0.25, 0.5]))
    leaves = [_leaf(b, f"l{k}") for k in range(rng.randint(1, 2))]
    cells = []
    for k in range(rng.randint(1, 2)):
        leaf = rng.choice(leaves)
        cid = _cell(b, f"b{k}", leaf, group=rng.random() < 0.8)
        if rng.random() < 0.3:
            lf = rng.choice(leaves)
            b.add(cid, lf, b.place_mode(cid, lf), rng.random() < 0.6)
        if rng.random() < 0.2:
            b.herald(cid)
        cells.append(cid)
    if rng.random() < 0.35:
        c0 = rng.choice(cells)
        b.new("w0", min(6, b.free[c0] + rng.randint(0, 1)))
        b.add("w0", c0, b.place_mode("w0", c0), rng.random() < 0.85)
        b.prim("w0", k=rng.randint(0, 1))
        cells.append("w0")
    big = max(b.free[c] for c in cells)
    parents = [b.new(f"P{k}", min(6, max(2, big + rng.randint(1, 2)))) for k in range(rng.randint(1, 2))]
    helper = None
    last = None
    for step in range(rng.randint(4, ctx.n(9, 12))):
        r = rng.random()
        par = rng.choice(parents)
        if r < 0.34:
            sub = rng.choice(cells if rng.random() < 0.85 else leaves)
            last = (par, sub)
            b.add(par, sub, b.place_mode(par, sub), rng.random() < 0.35)
            ctx.count("blocks:place")
        elif r < 0.44 and last is not None:
            par2 = last[0] if rng.random() < 0.6 else par
            b.add(par2, last[1], b.place_mode(par2, last[1]), rng.random() < 0.3)
            ctx.count("blocks:place-again")
        elif r < 0.54:
            b.prim(rng.choice(cells + leaves if rng.random() < 0.8 else parents), p_invalid=0.2)
            ctx.count("blocks:edit")
        elif r < 0.62:
            if helper is None:
                helper = b.small_heralded("h0")
            tgt = rng.choice(parents + cells)
            b.add(tgt, helper, b.place_mode(tgt, helper, rng.random() < 0.5), rng.random() < 0.5)
            ctx.count("blocks:ancilla")
        elif r < 0.72:
            src = rng.choice(parents + cells)
            new = b.copy(f"k{step}", src)
            (parents if src in parents else cells).append(new)
            ctx.count("blocks:copy")
        elif r < 0.78:
            a = rng.choice(cells + parents)
            same_size = [x for x in cells + parents if b.ports[x] == b.ports[a]]
            new = b.plus(f"s{step}", a, rng.choice(same_size))
            (parents if a in parents else cells).append(new)
            ctx.count("blocks:plus")
        elif r < 0.84:
            b.herald(rng.choice(parents + cells))
            ctx.count("blocks:herald")
        elif r < 0.90:
            b.prog.append([rng.choice(["unpack", "compress", "nonadj"]), rng.choice(parents + cells)])
            ctx.count("blocks:rewrite")
        else:
            sub = rng.choice(cells)
            m = rng.choice([-1, b.ports[par], b.ports[par] - b.free[sub] + 1, b.ports[par] + 2])
            b.add(par, sub, m, rng.random() < 0.5)
            ctx.count("blocks:rejected-add")
    return b.prog, b.ids


def block_stats(ctx: Ctx, prog: list, res: list) -> None:
    """which of the situations the block streams are there for did this history actually reach"""
    grouped: set = set()  # ids that (transitively) hold a grouped block
    heralded: set = set()
    placed: dict = {}
    for op, r in zip(prog, res):
        if r != "ok":
            continue
        if op[0] == "herald":
            heralded.add(op[1])
        elif op[0] in ("copy", "copyf", "plus"):
            srcs = op[2:4] if op[0] == "plus" else op[2:3]
            if any(s_ in grouped for s_ in srcs):
                grouped.add(op[1])
            if op[0] in ("copy", "copyf") and op[2] in heralded:
                heralded.add(op[1])
        elif op[0] == "unpack":
            grouped.discard(op[1])
        elif op[0] == "add":
            _, par, sub, m, grp = op[:5]
            forced = sub in heralded
            if sub in grouped and not grp and not forced:
                ctx.count("reached:ungrouped-add-of-arg-holding-group" + ("@m>0" if m > 0 else "@0"))
                placed[(par, sub)] = placed.get((par, sub), 0) + 1
                if placed[(par, sub)] == 2:
                    ctx.count("reached:same-arg-with-group-placed-twice-ungrouped")
            if grp or forced or sub in grouped:
                grouped.add(par)
            if forced:
                heralded.add(par)


_LAST: dict = {}


def run_case(ctx: Ctx, prog: list, ids: list, model: bool = True) -> list[str]:
    probs: list[str] = []
    pool: dict = {}
    params: dict = {}
    res = []
    snaps_after = []
    client = cx.client_of(prog)  # the client's own containers (None: a fresh array / dict / list per call)
    real = [op for op in prog if op[0] not in cx.CLIENT_PSEUDO]
    for k, op in enumerate(prog):
        if op[0] == "client":
            continue
        before = {cid: snap(c) for cid, c in pool.items()}
        if op[0] in ("scrub", "scribble"):
            # no call is made: the client overwrites a container it handed over earlier / writes into something it was
            # handed.  Every live object must be what it was.
            if op[0] == "scrub":
                what = (f"the client overwrote ({op[2]}) its own {CONTAINER[op[1]]}, handed to the library earlier"
                        if client is not None and client.scrub(op[1], op[2]) else None)
            else:
                w = cx.scribble(pool, op[1], op[2], op[3])
                what = w and f"the client wrote into ({op[3]}) {w} of object {op[1]}"
            if what:
                for cid, b in before.items():
                    d = cx.diff(b, snap(pool[cid]))
                    if d is not None:
                        probs.append(f"oracle: step #{k} {op} - no call was made, {what} - changed object {cid} ({d})")
                        return probs
            continue
        n_arg = len(client.problems) if client is not None else 0
        r = cx.step(pool, op, params, client)
        res.append(r)
        after = {cid: snap(c) for cid, c in pool.items()}
        snaps_after.append(after)
        if client is not None and len(client.problems) > n_arg:
            probs.append(f"oracle: call #{k} {op[:2]} modified its argument: {client.problems[-1]}")
            return probs
        tgt = op[1]
        for cid, b in before.items():
            if cid not in after:
                continue
            d = cx.diff(b, after[cid]) if (r != "ok" or cid != tgt) else None
            if d is not None:
                why = "a call that raised" if r != "ok" else f"a call whose target is {tgt}"
                probs.append(f"oracle: call #{k} {op[:5]} ({r}) — {why} changed object {cid} ({d})")
                return probs
    _LAST["results"] = res
    if not model:
        return probs
    live = [i for i in ids if i in pool]
    mres = ctx.model.call({"op": "circ", "prog": cx.for_model(prog), "observe": live, "each": True})
    for k, (a, b) in enumerate(zip(res, mres["results"])):
        if a != b:
            probs.append(f"corr: call #{k} {real[k][:5]} impl={a} model={b}")
            return probs
    for k, (ia, ma) in enumerate(zip(snaps_after, mres["snaps"])):
        for cid, o in ia.items():
            m = ma.get(cid)
            if m is None:
                continue
            if o["n"] != m["n"] or o["input_modes"] != m["input_modes"] or \
                    sorted(map(tuple, o["in_heralds"])) != sorted(map(tuple, m["in_heralds"])):
                probs.append(f"corr: after call #{k} {real[k][:4]} object {cid}: n/input_modes/heralds differ from the model")
                return probs
            if "U_full" in o and not mat_close(o["U_full"], parse_mat(m["U_full"])):
                probs.append(f"corr: after call #{k} {real[k][:4]} object {cid}: U_full differs from the model")
                return probs
            if "U_full" not in o:
                probs.append(f"corr: after call #{k} {real[k][:4]} object {cid} does not compile "
                             f"({o.get('U_error')}); the model has a matrix")
                return probs
    return probs


CONTAINER = {"unitary": "ndarray work buffer(s) (Unitary(buffer))", "swaps": "dictionary (mode_swaps(dict))",
             "modes": "list of modes (barrier(list))"}


# --------------------------------------------------------------------------- caller-owned data


def with_client(ctx: Ctx, rng, prog: list, cfg: dict | None = None) -> list:
    """the history is run by a client that re-uses its own containers (circgen_ext.Client) and overwrites / clears /
    refills them at 1-4 points, mostly right behind a call that was given one or that copied an object built from one;
    now and then it writes into a matrix / dict the library handed out"""
    out = list(prog)
    for _ in range(rng.choice([1, 2, 2, 3, 4])):
        pos = len(out) if rng.random() < 0.2 else rng.randint(1, len(out))
        if rng.random() < 0.2:
            live = [op[1] for op in out[:pos] if op[0] in ("new", "unitary", "copy", "copyf", "plus")]
            if not live:
                continue
            ins = ["scribble", rng.choice(live), rng.choice(cx.SCRIBBLE_ATTR), rng.choice(cx.SCRIBBLE_HOW)]
        else:
            behind = [i + 1 for i, op in enumerate(out) if op[0] in ("unitary", "swaps", "barrier", "add", "copy", "plus")]
            if behind and rng.random() < 0.7:
                pos = rng.choice(behind)
            kind = {"unitary": "unitary", "add": "unitary", "copy": "unitary", "plus": "unitary", "swaps": "swaps",
                    "barrier": "modes"}.get(out[pos - 1][0])
            ins = cx.rand_scrub(rng, kind if kind and rng.random() < 0.8 else None)
        out.insert(pos, ins)
    ctx.count("history:with-client-owned-containers")
    return [["client", cfg or cx.rand_client_cfg(rng)], *out]


def _scrub(b: cx.Book, kind: str = "unitary") -> None:
    b.prog.append(cx.rand_scrub(b.rng, kind))


def shape_client_blocks(b: cx.Book) -> None:
    """all unitary blocks are read from one work buffer: a block in a cell, the cell in two parents, the buffer
    overwritten after Unitary(buf), after add, after a second block of the same size was read from it"""
    rng = b.rng
    sz = rng.randint(1, 3)
    b.unitary("l0", sz)
    if rng.random() < 0.5:
        _scrub(b)
    _cell(b, "b0", "l0", group=rng.random() < 0.7)
    _scrub(b)
    n = b.free["b0"] + rng.randint(1, 2)
    b.new("P0", n)
    b.add("P0", "b0", b.place_mode("P0", "b0", True), False)
    b.unitary("l1", sz)  # the buffer is refilled: l0, b0, P0 keep the first block
    b.add("P0", "l1", b.place_mode("P0", "l1"), rng.random() < 0.5)
    b.new("P1", n)
    b.add("P1", "b0", b.place_mode("P1", "b0"), True)
    b.add("P1", "l0", b.place_mode("P1", "l0"), False)
    _scrub(b)
    b.prim("P0")
    b.unitary("l2", min(n, sz + 1))
    b.add("P1", "l2", b.place_mode("P1", "l2"), rng.random() < 0.5)
    _scrub(b)


def shape_client_family(b: cx.Book) -> None:
    """copies, frozen copies and sums of circuits that hold blocks read from the work buffer; the buffer is overwritten
    after every derivation; the swaps dictionary and the barrier list are one dict / list"""
    rng = b.rng
    n = rng.randint(3, 4)
    sz = rng.randint(2, n)
    b.new("a0", n)
    b.unitary("l0", sz)
    b.add("a0", "l0", b.place_mode("a0", "l0"), rng.random() < 0.5)
    b.swap("a0")
    _scrub(b, "swaps")
    b.new("b0", n)
    b.unitary("l1", sz)
    b.add("b0", "l1", b.place_mode("b0", "l1"), rng.random() < 0.5)
    b.swap("b0")
    b.prog.append(["barrier", "b0", sorted(rng.sample(range(n), 2))])
    _scrub(b, "modes")
    b.copy("k0", "a0")
    _scrub(b)
    b.copyf("f0", "b0")
    b.plus("s0", "a0", "b0")
    _scrub(b)
    b.plus("t0", "b0", "k0")
    b.swap("s0")
    _scrub(b, "swaps")
    b.prog.append([rng.choice(["unpack", "compress"]), rng.choice(["s0", "t0", "k0"])])
    b.unitary("l2", sz)
    b.add("t0", "l2", b.place_mode("t0", "l2"), False)
    _scrub(b)


def shape_client_handed_out(b: cx.Book) -> None:
    """the client post-processes in place what it was handed: U, U_full, heralds of a parent, of the cell inside it, of
    the block inside the cell"""
    rng = b.rng
    b.unitary("l0", rng.randint(1, 2))
    _cell(b, "b0", "l0", group=True)
    b.small_heralded("h0")
    n = b.free["b0"] + rng.randint(1, 2)
    b.new("P0", n)
    b.add("P0", "b0", b.place_mode("P0", "b0"), rng.random() < 0.5)
    b.add("P0", "h0", rng.randint(0, n - 1), True)
    for cid in rng.sample(["P0", "b0", "l0", "h0"], 3):
        b.prog.append(["scribble", cid, rng.choice(cx.SCRIBBLE_ATTR), rng.choice(cx.SCRIBBLE_HOW)])
        if rng.random() < 0.5:
            b.prim(rng.choice(["P0", "b0"]))
    b.copy("k0", "P0")
    b.prog.append(["scribble", "k0", "U_full", "zero"])
    b.prog.append(["scribble", "P0", "heralds", "elem"])


CLIENT_CORPUS = [shape_client_blocks, shape_client_family, shape_client_handed_out]


# --------------------------------------------------------------------------- read-only consumers


def heralded_sub(rng):
    s = lw.Circuit(3)
    s.bs(0, 1)
    s.bs(1, 2, reflectivity=0.3)
    s.herald(rng.choice([0, 1]), 2, rng.choice([0, 2]))
    return s


STATE_MAY_KEEP_THE_CALLERS_LIST = True


def consumer_probes(ctx: Ctx, rng) -> None:
    from lightworks import emulator, qubit

    def check(label, objs: dict, fn):
        before = {k: snap(v) for k, v in objs.items()}
        states_before = {}
        try:
            fn()
        except Exception as e:  # noqa: BLE001
            ctx.notes.append(f"consumer {label} raised {type(e).__name__}: {str(e)[:80]}")
        for k, v in objs.items():
            if not same(before[k], snap(v)):
                ctx.violation(f"oracle: consumer {label} changed circuit {k}",
                              {"consumer": label, "object": k}, sig={"kind": "consumer", "consumer": label})
        ctx.case(("consumer", label, rng.random()), True)
        ctx.count("consumer:" + label)

    for _ in range(ctx.n(3, 12)):
        if ctx.out_of_time():
            break
        c = lw.Circuit(4)
        c.bs(0, 1, reflectivity=0.4)
        c.ps(1, 0.3)
        sub = heralded_sub(rng)
        c.add(sub, 1)
        c.bs(2, 3, loss=0.1)
        c.add(heralded_sub(rng), 0, group=bool(rng.getrandbits(1)))
        # a building block that itself holds a grouped unitary block and a Parameter, placed ungrouped at a
        # mode > 0: the consumers receive a circuit whose components are shared with `cell` and `blk`
        blk = lw.Unitary(cg.mat_np(cg.exact_unitary(rng, 2)))
        cell = lw.Circuit(2)
        cell.ps(0, lw.Parameter(0.2, label="phi"))
        cell.add(blk, 0, group=True, name="blk")
        c.add(cell, rng.choice([1, 2]), group=bool(rng.getrandbits(1)))
        occ = [1, 0, 1, 0]  # the client's own list
        st = lw.State(occ)
        st_list = st.s
        objs = {"c": c, "sub": sub, "cell": cell, "blk": blk}
        check("Simulator.simulate", objs, lambda: emulator.Simulator(c).simulate(st))
        check("Sampler.probability_distribution", objs, lambda: emulator.Sampler(c, st).probability_distribution)
        check("Sampler.sample_N_inputs", objs, lambda: emulator.Sampler(c, st).sample_N_inputs(20, seed=1))
        check("Analyzer.analyze", objs, lambda: emulator.Analyzer(c).analyze(st))
        check("QuickSampler", objs, lambda: emulator.QuickSampler(c, st).probability_distribution)
        check("Display.svg", objs, lambda: lw.Display(c, display_type="svg"))
        check("Display.mpl", objs, lambda: _mpl(c))
        check("copy/unpack", objs, lambda: c.copy().unpack_groups())
        check("copy(freeze)", objs, lambda: c.copy(freeze_parameters=True))
        if st.s != st_list:
            ctx.violation("oracle: a State passed to a consumer was modified", {"state": st_list},
                          sig={"kind": "consumer-state"})
        if occ != st_list:
            ctx.violation("oracle: the list a State was built from was modified by a consumer the State was passed to",
                          {"state": st_list, "list": list(occ)}, sig={"kind": "consumer-state-list"})
        # the client re-uses its list for the next state.  State(list) keeps the caller's list by reference on the
        # unchanged library (sdk/state/state.py: "If already list then assign to attribute"), so this does change the
        # State: counted and reported to the maintainers of the framework, not raised (see STATE_MAY_KEEP_THE_CALLERS_LIST)
        occ[0], occ[1] = 0, 1
        if st.s != st_list:
            ctx.count("client:State(list)-keeps-the-caller's-list: refilling the list changes the State (reported, not raised)")
            if not STATE_MAY_KEEP_THE_CALLERS_LIST:
                ctx.violation("oracle: a State changed when the client re-used the list it was built from",
                              {"state": st_list, "now": st.s}, sig={"kind": "client-state-list"})
        else:
            ctx.count("client:State(list)-has-its-own-copy")
        ll = lw.Circuit(3)
        ll.bs(0, 1)
        ll.add(heralded_sub(rng), 1)
        check("Reck.map", {"ll": ll}, lambda: lw.interferometers.Reck().map(ll))
    # shared module-level gate objects
    from lightworks.qubit.converter import qiskit_convert as qc_mod
    from lightworks.tomography import mappings

    shared = {f"SINGLE_QUBIT_GATES_MAP[{k}]": v for k, v in qc_mod.SINGLE_QUBIT_GATES_MAP.items()}
    shared.update({f"MEASUREMENT_MAPPING[{k}]": v for k, v in mappings.MEASUREMENT_MAPPING.items()})
    shared.update({f"INPUT_MAPPING[{k}]": v[1] for k, v in mappings.INPUT_MAPPING.items()})
    in_states = {k: v[0].s for k, v in mappings.INPUT_MAPPING.items()}

    def conv():
        from qiskit import QuantumCircuit

        for ps in (False, True):
            q = QuantumCircuit(3)
            q.cx(0, 1)
            q.h(1)
            q.cz(1, 2)
            q.s(2)
            q.t(1)
            q.h(2)
            q.x(0)
            q.cx(2, 1)
            q.sx(1)
            q.y(2)
            q.z(0)
            q.sdg(1)
            q.tdg(2)
            lw.qubit.qiskit_converter(q, allow_post_selection=ps)

    check("qiskit_converter(shared gates)", shared, conv)

    def tomo():
        from lightworks import tomography as tm

        base = lw.Circuit(4)
        base.add(qubit.H(), 0)
        base.add(qubit.CNOT_Heralded(), 0) if False else base.add(qubit.CNOT(), 0)

        def exp(circuits, inputs=None):
            out = []
            for i, cc in enumerate(circuits):
                inp = inputs[i] if inputs is not None else lw.State([1, 0, 1, 0])
                s = emulator.Sampler(cc, inp)
                ps = lw.PostSelection()
                ps.add((0, 1), 1)
                ps.add((2, 3), 1)
                out.append(s.sample_N_outputs(200, post_select=ps, seed=3))
            return out

        tm.StateTomography(2, base, exp).process()
        small = lw.Circuit(2)
        small.add(qubit.H(), 0)
        tm.LIProcessTomography(1, small, lambda cs, ins: [emulator.Sampler(c_, i_).sample_N_outputs(100, seed=2)
                                                           for c_, i_ in zip(cs, ins)]).process()

    check("tomography(shared mappings)", shared, tomo)
    for k, v in mappings.INPUT_MAPPING.items():
        if v[0].s != in_states[k]:
            ctx.violation("oracle: a shared input State was modified", {"key": k}, sig={"kind": "consumer-state"})


def _mpl(c):
    import matplotlib.pyplot as plt

    lw.Display(c, display_type="mpl")
    plt.close("all")


def _report(ctx: Ctx, prog: list, ids: list, probs: list, model: bool) -> None:
    ctx.count("histories_with_problems")

    def still(sub):
        return cx.well_formed(sub) and bool(run_case(ctx, sub, ids, model))

    small = ddmin(prog, still)
    sprobs = run_case(ctx, small, ids, model) or probs
    oracle = [p for p in sprobs if p.startswith("oracle")]
    rep = {"program": small, "observe": ids, "problems": sprobs, "model": model}
    if oracle:
        kind = ("argument-modified" if "modified its argument" in oracle[0] else
                "changed-without-a-call" if "no call was made" in oracle[0] else
                "failed-call-changed" if "raised" in oracle[0] else "non-target-changed")
        ctx.violation(oracle[0], rep, sig={"kind": kind, "ops": sorted({o[0] for o in small})})
    else:
        ctx.disagreement(sprobs[0], rep)


def _one(ctx: Ctx, prog: list, ids: list, model: bool, sample: bool, blocks: bool) -> None:
    probs = run_case(ctx, prog, ids, model)
    res = _LAST.get("results", [])
    real = [op for op in prog if op[0] not in cx.CLIENT_PSEUDO]
    adds = [op for op, r in zip(real, res) if op[0] == "add" and r == "ok"]
    args = [op[2] for op in adds]
    nontriv = len(adds) >= 2 and (len(set(args)) < len(args) or any(op[1] in args for op in real if op[0] != "add"))
    for op in prog:
        ctx.count("op:" + op[0])
        if cx.param_key(op) is not None:
            ctx.count("op:with-Parameter")
        if op[0] == "client":
            ctx.count("client:unitary-blocks-from=" + op[1].get("unitary", "buffer") + ":oracle-only")
        elif op[0] == "scrub":
            ctx.count(f"client:scrub:{op[1]}:{op[2]}")
        elif op[0] == "scribble":
            ctx.count(f"client:scribble:{op[2]}:{op[3]}")
    if blocks:
        block_stats(ctx, real, res)
    ctx.case(repr(prog), nontriv, sample=prog if sample else None)
    if probs:
        _report(ctx, prog, ids, probs, model)


def run(ctx: Ctx) -> None:
    ctx.rule = ("(1) directed building-block corpus, (1b) families of circuits related by copy() / copy(freeze_parameters=True) "
                "/ a + b / b + a (and copies of sums, sums of copies, parents), filled with runs of >= 2 mergeable mode swaps, "
                "non-adjacent beam splitters and grouped blocks, of which ONE member at a time is edited or rewritten "
                "(compress_mode_swaps, remove_non_adjacent_bs, unpack_groups, bs/ps/loss/mode_swaps/add/herald), "
                "(2) random tiered histories (leaf -> cell holding grouped blocks -> "
                "wrapper -> parents; placements grouped/ungrouped at mode 0 and > 0, repeated, into two parents; copies "
                "and sums sharing components; Parameters; heralds; rejected calls), (3) random flat histories of 5-30 "
                "construction calls over 2-5 live circuit objects, objects reused as arguments (including "
                "self-addition), ~20% rejected calls; all objects snapshotted after every call; non-trivial = history "
                "contains two accepted adds and an argument that is reused or edited; distinct = distinct history; plus "
                "read-only consumer probes; (4) caller-owned data: a third of all histories (and three directed shapes) are "
                "run by a client that reads every unitary block from ONE ndarray work buffer (per size / corner of a large "
                "array / column-major), uses one dict for all mode_swaps and one list for all barriers, overwrites / clears "
                "/ refills them between calls and writes into handed-out U / U_full / heralds: no live object may change "
                "without a call, and no call may modify the container it was given")
    rng = ctx.rng
    # 1. corpus: every shape, several random instances each, always first, always with the model
    for rep in range(ctx.n(2, 25)):
        for shape in CORPUS:
            if ctx.out_of_time():
                break
            b = cx.Book(rng, p_param=0.25)
            shape(b)
            ctx.count("corpus:" + shape.__name__)
            # every other instance is run by a client that re-uses and overwrites its containers
            prog = with_client(ctx, rng, b.prog) if rep % 2 else b.prog
            _one(ctx, prog, b.ids, True, sample=(rep == 0 and shape is shape_tile), blocks=True)
        for shape in CLIENT_CORPUS:
            if ctx.out_of_time():
                break
            b = cx.Book(rng, p_param=0.25)
            shape(b)
            ctx.count("corpus:" + shape.__name__)
            cfg = {"unitary": ["buffer", "view", "fortran"][rep % 3], "swaps": "shared", "modes": "shared"}
            _one(ctx, [["client", cfg], *b.prog], b.ids, True, sample=False, blocks=True)
    # 1b. families: directed shapes, then random ones (half of them with the model)
    for rep in range(ctx.n(4, 30)):
        for shape in FAMILY:
            if ctx.out_of_time():
                break
            b = cx.Book(rng, p_param=0.25)
            shape(b, ctx)
            ctx.count("corpus:" + shape.__name__)
            prog = with_client(ctx, rng, b.prog) if rep % 4 >= 2 else b.prog
            _one(ctx, prog, b.ids, rep % 2 == 0, sample=False, blocks=False)
    for i in range(ctx.n(32, 400)):
        if ctx.out_of_time():
            break
        prog, ids = gen_family(ctx, rng)
        if i % 3 == 1:
            prog = with_client(ctx, rng, prog)
        model = i % 2 == 0
        ctx.count("family:with-model" if model else "family:oracle-only")
        _one(ctx, prog, ids, model, sample=i == 1, blocks=False)
    # 2. random tiered histories
    for i in range(ctx.n(60, 1500)):
        if ctx.out_of_time():
            break
        prog, ids = gen_blocks(ctx, rng)
        if i % 5 in (1, 3):
            prog = with_client(ctx, rng, prog)
        model = i % 3 == 0
        ctx.count("blocks:with-model" if model else "blocks:oracle-only")
        _one(ctx, prog, ids, model, sample=False, blocks=True)
    # 3. flat random histories
    for i in range(ctx.n(120, 2400)):
        if ctx.out_of_time():
            break
        prog, ids = gen_history(ctx, rng)
        if i % 3 == 2:
            prog = with_client(ctx, rng, prog)
        _one(ctx, prog, ids, True, sample=i < 1, blocks=False)
    consumer_probes(ctx, rng)


def replay(ctx: Ctx, path: str) -> None:
    data = json.load(open(path))["replay"]
    if "program" not in data:  # a consumer probe: the probes are fixed constructions, run them all again
        consumer_probes(ctx, ctx.rng)
        return
    probs = run_case(ctx, data["program"], data["observe"], data.get("model", True))
    ctx.case("replay", True, sample=data["program"])
    for p in probs:
        print("replay:", p)
        if p.startswith("oracle"):
            ctx.violation(p, data, sig={"kind": "replay"})
        else:
            ctx.disagreement(p, data)
