"""
C06 — imperfect-source model: normalised mixture of distinguishable photon groups.

Model: LW.Model.Source (single-photon outcome table, per-mode / cross-mode combination with fresh
labels, empty-mode grouping, label canonicalisation, brightness-only fast path, thresholding,
annotated_state_pdist_calc) on top of LW.Model.Dist / Fock.

Exact parameters (DESIGN §3.1): the model is fed the RESULTS of `indistinguishability ** 0.5` and of
`purity_to_prob(purity)`:  q rational with indistinguishability := q^2,  x rational (two-photon
weight, p2 = x, p1 = 1 - x) with purity := 1 - 2x/(1+x)^2 (x = 0 <=> purity = 1), brightness nu
rational.  The relation is re-checked against the code (1e-12) for every parameter set used.

Streams
  stats   Source.check_number(state)              vs model; oracle: statistics normalised, count =
          number of distinct photon partitions of positive probability (independent enumeration)
  dist    Sampler.probability_distribution with source, both backends, generated circuits (loss,
          heralds), bunched / gapped inputs, optional probability_threshold   vs model; oracles:
          non-negative, normalised, = independent mixture reference, backends agree; at perfect
          settings = ideal distribution; at zero indistinguishability = classical particles;
          full path = brightness-only path at purity = indistinguishability = 1
  g2      photon-number statistics of one emitter (identity circuit): g2 = 1 - purity
  hom     50:50 beam splitter, input |1,1>: visibility of the coincidence dip = indistinguishability
  bad     malformed Source(...) arguments / wrong input length: exception class vs model
"""

from __future__ import annotations

import itertools
import json
import math
from fractions import Fraction as F

import numpy as np

import circgen as cg
import fockgen as fg
import lightworks as lw
from core import Ctx, ddmin, exc_class, frac_str
from lightworks import emulator
from lightworks.emulator.components.source import purity_to_prob
from props.c04 import get_eps

TRUSTED = [
    "Lean 4.33 kernel; axioms subset of {propext, Classical.choice, Quot.sound} (audited on every run)",
    "hand-written model LW.Model.Source / Dist / Fock tied to the code by this correspondence check",
    "float evaluation of x**0.5 and of purity_to_prob (the model takes their exact results; the relation "
    "purity = 1 - 2x/(1+x)^2, indistinguishability = q^2 is re-checked to 1e-12 on every parameter set)",
    "thewalrus.perm (permanent); float rounding up to 1e-9",
    "the model is exact, the code rounds: inputs within 1e-12 of probability_threshold are skipped, entries at the "
    "1e-9 backend truncation are compared against the interval [truncated, untruncated]",
]
ASSUMPTIONS = [
    "<= 4 photons incl. heralds (<= 3 when purity < 1, every photon may come with a noise photon), total modes "
    "(with loss) <= 8",
    "parameters on rational grids incl. the boundaries nu in {0,1}, purity = 1, indistinguishability in {0,1}",
]

NU = [F(1), F(1), F(1, 2), F(3, 4), F(1, 3), F(9, 10), F(1, 10), F(0)]
X = [F(0), F(0), F(1, 3), F(1, 10), F(1, 2), F(9, 10), F(1, 20)]
QS = [F(1), F(1), F(0), F(1, 2), F(3, 5), F(9, 10), F(1, 3)]
THR = [F(0)] * 5 + [F(1, 100), F(1, 20), F(1, 7), F(1, 3), F(9, 10)]
# A probability_threshold above every input probability leaves no input: the model (and the candidate
# repair of the library) rejects it with ValueError; the pinned library returns empty, un-normalised
# statistics and the Sampler then fails inside multimethod (DispatchError).  True = such cases are
# generated and judged (a directed one on every run); False = they are skipped and counted.
INCLUDE_OVER_THRESHOLD = True


# --------------------------------------------------------------------------- parameters


def purity_of(x: F) -> float:
    return float(1 - 2 * x / (1 + x) ** 2)


def gen_par(rng, thr: bool = True) -> dict:
    return {"nu": frac_str(rng.choice(NU)), "x": frac_str(rng.choice(X)), "q": frac_str(rng.choice(QS)),
            "thr": frac_str(rng.choice(THR) if thr else F(0))}


def par_vals(par: dict):
    return F(par["nu"]), F(par["x"]), F(par["q"]), F(par["thr"])


def make_source(par: dict):
    nu, x, q, thr = par_vals(par)
    return emulator.Source(purity=purity_of(x), brightness=float(nu), indistinguishability=float(q * q),
                           probability_threshold=float(thr))


def par_req(par: dict) -> dict:
    return {"nu": par["nu"], "p2": par["x"], "pi": par["q"], "thr": par["thr"]}


def check_par(par: dict) -> list[str]:
    """the exact parameters really are the results of the code's sqrt / purity_to_prob"""
    nu, x, q, _ = par_vals(par)
    out = []
    p1 = purity_to_prob(purity_of(x))
    if abs(p1 - float(1 - x)) > 1e-12:
        out.append(f"oracle: purity_to_prob({purity_of(x)!r}) = {p1!r}, not 1 - x = {float(1 - x)!r}: the two-photon weight "
                   "is not the root of x^2 + bx + 1 (g2 = 1 - purity fails)")
    if abs(float(q * q) ** 0.5 - float(q)) > 1e-12:
        out.append("oracle: indistinguishability ** 0.5 differs from q")
    return out


def table(nu: F, x: F, q: F) -> list[F]:
    """documented single-photon outcome probabilities (arXiv:2211.15626 p.15), written independently
    of the code's expressions: nothing | photon indist. | photon dist. | noise only | indist.+noise |
    dist.+noise"""
    keep = 1 - nu * x  # p1 + (1 - nu) p2
    return [(1 - nu) * keep, q * nu * keep, (1 - q) * nu * keep, nu * (1 - nu) * x, nu * nu * q * x,
            nu * nu * (1 - q) * x]


# --------------------------------------------------------------------------- independent reference


def ref_inputs(full_in: list[int], nu: F, x: F, q: F) -> dict:
    """mixture over independent per-photon emission outcomes -> {partition: weight}; a partition is
    the sorted tuple of the occupation vectors of the mutually distinguishable photon groups"""
    n = len(full_in)
    tab = table(nu, x, q)
    photons = [m for m, k in enumerate(full_in) for _ in range(k)]
    out: dict = {}
    for choice in itertools.product(range(6), repeat=len(photons)):
        w = F(1)
        for o in choice:
            w *= tab[o]
        if w == 0:
            continue
        g0 = [0] * n
        groups = []
        for m, o in zip(photons, choice):
            e = tuple(1 if j == m else 0 for j in range(n))
            if o in (1, 4):
                g0[m] += 1
            if o in (2, 5):
                groups.append(e)
            if o in (3, 4, 5):
                groups.append(e)
        if any(g0):
            groups.append(tuple(g0))
        key = tuple(sorted(groups))
        out[key] = out.get(key, F(0)) + w
    return out


class Ref:
    """ideal boson-sampling distributions of single groups from the implementation's own U_full
    (Ryser permanent, no truncation), marginalised over the loss modes"""

    def __init__(self, c, eps: float) -> None:
        self.u = np.array(c.U_full)
        self.n = c.n_modes
        self.nl = self.u.shape[0] - self.n
        self.eps = eps
        self.cache: dict = {}
        self.dropped = 0.0  # probability mass that the 1e-9 backend truncation may remove
        self.nbasis = 1

    def group(self, occ: tuple) -> dict:
        if occ in self.cache:
            return self.cache[occ]
        tot = sum(occ)
        ins = list(occ) + [0] * self.nl
        out: dict = {}
        cnt = 0
        for t in fg.fock_all(self.u.shape[0], tot):
            cnt += 1
            p = abs(fg.ref_amplitude(self.u, ins, list(t))) ** 2
            if p <= self.eps * 1.001:
                self.dropped += p
            key = tuple(t[: self.n])
            out[key] = out.get(key, 0.0) + p
        self.nbasis = max(self.nbasis, cnt)
        self.cache[occ] = out
        return out

    def conv(self, groups: tuple) -> dict:
        cur = {tuple([0] * self.n): 1.0}
        for g in groups:
            d = self.group(g)
            nxt: dict = {}
            for a, p in cur.items():
                for b, r in d.items():
                    k = tuple(i + j for i, j in zip(a, b))
                    nxt[k] = nxt.get(k, 0.0) + p * r
            cur = nxt
        return cur

    def mixture(self, inputs: dict) -> dict:
        out: dict = {}
        for key, w in inputs.items():
            for s, p in self.conv(key).items():
                out[s] = out.get(s, 0.0) + float(w) * p
        return out


def apply_thr(inputs: dict, thr: F):
    """documented thresholding: drop inputs below the threshold, renormalise; None = nothing left;
    second component: an input sits within 1e-12 of the threshold (float-ambiguous)"""
    if thr == 0:
        return inputs, False
    amb = any(abs(w - thr) <= F(1, 10**12) for w in inputs.values())
    kept = {k: w for k, w in inputs.items() if w >= thr}
    if not kept:
        return None, amb
    tot = sum(kept.values())
    return {k: w / tot for k, w in kept.items()}, amb


# --------------------------------------------------------------------------- stats stream


def gen_state(rng, max_modes: int, max_ph: int) -> list[int]:
    n = rng.randint(1, max_modes)
    s = [0] * n
    k = rng.randint(0, max_ph)
    style = rng.random()
    for _ in range(k):
        if style < 0.3 and any(s):  # bunch
            occ = [i for i, v in enumerate(s) if v]
            s[rng.choice(occ)] += 1
        else:
            s[rng.randrange(n)] += 1
    return s


def has_gap(s: list[int]) -> bool:
    return any(s[i] == 0 and s[i + 1] == 0 for i in range(len(s) - 1))


def run_stats(ctx: Ctx, case: dict) -> list[str]:
    probs = check_par(case["par"])
    if probs:
        return probs
    nu, x, q, thr = par_vals(case["par"])
    st = case["state"]
    src = make_source(case["par"])
    ref, amb = apply_thr(ref_inputs(st, nu, x, q), thr)
    if amb:
        ctx.count("ambiguous_source_threshold")
        return probs
    try:
        n_impl = src.check_number(lw.State(st))
        stats = src._build_statistics(lw.State(st))  # read-only diagnostic accessor
        impl_err = None
    except Exception as e:  # noqa: BLE001
        impl_err = exc_class(e)
    if ref is None and not INCLUDE_OVER_THRESHOLD:
        ctx.count("skipped:threshold_removes_all")
        return probs
    if ref is None:
        ctx.count("threshold_removes_all")
        if impl_err != "ValueError":
            got = f"raises {impl_err}" if impl_err else f"returns {n_impl} inputs summing to {sum(stats.values())!r}"
            probs.append(f"oracle: probability_threshold={float(thr)} removes every input of {st}: the statistics cannot be "
                         f"normalised and the source must reject it (ValueError); the implementation {got}")
    elif impl_err:
        probs.append(f"oracle: check_number raised {impl_err} on a valid source/state")
    else:
        tot = sum(stats.values())
        if abs(tot - 1) > 1e-9:
            probs.append(f"oracle: input statistics sum to {tot!r}")
        if any(p < 0 for p in stats.values()):
            probs.append("oracle: negative input probability")
        full_path = not (x == 0 and q == 1)
        if (full_path or nu > 0) and n_impl != len(ref):
            probs.append(f"oracle: check_number = {n_impl}, but {len(ref)} distinct photon partitions have positive probability")
    m = ctx.model.call({"op": "c06", "what": "stats", "state": st, **par_req(case["par"])})
    if "error_class" in m:
        if impl_err != m["error_class"] and not probs:
            probs.append(f"corr: check_number impl={impl_err or n_impl} model={m['error_class']}")
    elif impl_err:
        if not probs:
            probs.append(f"corr: check_number impl raised {impl_err}, model n={m['n']}")
    elif n_impl != m["n"]:
        probs.append(f"corr: check_number impl={n_impl} model={m['n']}")
    return probs


# --------------------------------------------------------------------------- dist stream


def gen_dist(ctx: Ctx, rng):
    par = gen_par(rng)
    style = rng.random()
    if style < 0.10:  # perfect settings
        par.update(nu="1", x="0", q="1", thr="0")
    elif style < 0.25:  # classical particles
        par.update(x="0", q="0", thr="0")
    elif style < 0.35:  # brightness only
        par.update(x="0", q="1")
    nu, x, q, thr = par_vals(par)
    if not INCLUDE_OVER_THRESHOLD and thr > F(1, 20):
        par["thr"] = "0"
    prog = fg.gen_circuit(ctx, rng, max_depth=2, max_n=4, max_herald_photons=1 if x > 0 else 2)
    pool = fg.build_impl(prog)
    c = pool.get("c1")
    if c is None or c.input_modes == 0:
        return None
    if np.array(c.U_full).shape[0] > 8:
        return None
    cap = (4 if x > 0 else 5) if ctx.thorough else (3 if x > 0 else 4)
    hp = fg.herald_photons(c)
    if hp > cap - 1:
        return None
    nph = max(0, min(rng.choice([0, 1, 2, 2, 3, 3, 4]), cap - hp))
    inp = fg.rand_state(rng, c.input_modes, nph)
    if rng.random() < 0.08:  # malformed: wrong input length
        inp = inp + [0] if rng.random() < 0.5 or len(inp) < 2 else inp[:-1]
    return {"kind": "dist", "prog": prog, "input": inp, "par": par, "photons": sum(inp) + hp}


def impl_dist(c, inp, src, b):
    d = emulator.Sampler(c, lw.State(inp), source=src, backend=b).probability_distribution
    return {tuple(s.s): float(p) for s, p in d.items()}


def run_dist(ctx: Ctx, case: dict) -> list[str]:
    probs = check_par(case["par"])
    if probs:
        return probs
    pool = fg.build_impl(case["prog"])
    c = pool.get("c1")
    if c is None:
        return probs
    nu, x, q, thr = par_vals(case["par"])
    eps = get_eps()
    if c.input_modes != len(case["input"]):
        if case.get("shrunk"):
            return probs  # shrinking changed the circuit's input size: not a case
        ctx.count("rejected:wrong_input_length")
        try:
            impl_dist(c, case["input"], make_source(case["par"]), "permanent")
            impl = "ok"
        except Exception as e:  # noqa: BLE001
            impl = exc_class(e)
        m = ctx.model.call({"op": "c06", "what": "dist", "prog": case["prog"], "id": "c1", "input": case["input"],
                            "backend": "permanent", "eps": frac_str(eps), **par_req(case["par"])})
        if m.get("error_class", "ok") != impl:
            probs.append(f"corr: wrong input length: impl={impl} model={m.get('error_class', 'ok')}")
        return probs
    full_in = fg.add_heralds(case["input"], c.heralds["input"])
    inputs, amb = apply_thr(ref_inputs(full_in, nu, x, q), thr)
    if amb:
        ctx.count("ambiguous_source_threshold")
        return probs
    dists = {}
    errs = {}
    for b in ("permanent", "slos"):
        try:
            dists[b] = impl_dist(c, case["input"], make_source(case["par"]), b)
        except Exception as e:  # noqa: BLE001
            errs[b] = exc_class(e)
    if inputs is None and not INCLUDE_OVER_THRESHOLD:
        ctx.count("skipped:threshold_removes_all")
        return probs
    if inputs is None:
        ctx.count("threshold_removes_all")
        for b in ("permanent", "slos"):
            if errs.get(b) != "ValueError":
                got = f"raises {errs[b]}" if b in errs else "returns a distribution"
                probs.append(f"oracle[{b}]: probability_threshold={float(thr)} removes every source input of {full_in}; the "
                             f"statistics cannot be normalised and must be rejected (ValueError); Sampler.probability_distribution {got}")
                break
    elif errs:
        b, e = next(iter(errs.items()))
        probs.append(f"oracle[{b}]: Sampler.probability_distribution raised {e} on a valid configuration")
    if probs:
        return probs
    if inputs is not None:
        r = Ref(c, float(eps))
        ref = r.mixture(inputs)
        slack = r.dropped * max(1, len(full_in)) * 2
        if slack:
            ctx.count("backend_truncation_active")
        for b, d in dists.items():
            tot = sum(d.values())
            if any(p < -1e-15 for p in d.values()):
                probs.append(f"oracle[{b}]: negative probability")
            if not (1 - 1e-9 - slack <= tot <= 1 + 1e-9):
                probs.append(f"oracle[{b}]: output distribution sums to {tot!r}")
            for s in d:
                if len(s) != c.n_modes:
                    probs.append(f"oracle[{b}]: pattern {s} is not on the circuit's {c.n_modes} modes")
            for s in set(d) | set(ref):
                pi, pr = d.get(s, 0.0), ref.get(s, 0.0)
                if abs(pi - pr) > 1e-9 + slack:
                    probs.append(f"oracle[{b}]: P{list(s)} = {pi:.10g} but the mixture over per-photon emission outcomes of the "
                                 f"independent group distributions gives {pr:.10g}")
                    break
            if probs:
                return probs
        dp, ds = dists["permanent"], dists["slos"]
        for s in set(dp) | set(ds):
            if abs(dp.get(s, 0) - ds.get(s, 0)) > 1e-9 + slack:
                probs.append(f"oracle: backends disagree on {list(s)}: permanent={dp.get(s, 0):.10g} slos={ds.get(s, 0):.10g}")
                return probs
        # special settings
        if thr == 0 and nu == 1 and x == 0 and q == 1:
            ctx.count("clause:perfect_reduces_to_ideal")
            ideal = r.group(tuple(full_in))
            for b, d in dists.items():
                for s in set(d) | set(ideal):
                    if abs(d.get(s, 0.0) - ideal.get(s, 0.0)) > 1e-9 + slack:
                        probs.append(f"oracle[{b}]: perfect source: P{list(s)} = {d.get(s, 0.0):.10g}, ideal source {ideal.get(s, 0.0):.10g}")
                        return probs
        if thr == 0 and x == 0 and q == 0:
            ctx.count("clause:zero_indist_classical")
            cl = {tuple([0] * c.n_modes): 1.0}
            for m, k in enumerate(full_in):
                for _ in range(k):
                    one = r.group(tuple(1 if j == m else 0 for j in range(len(full_in))))
                    nxt: dict = {}
                    for a, p in cl.items():
                        nxt[a] = nxt.get(a, 0.0) + p * float(1 - nu)
                        for bb, rr in one.items():
                            kk = tuple(i + j for i, j in zip(a, bb))
                            nxt[kk] = nxt.get(kk, 0.0) + p * float(nu) * rr
                    cl = nxt
            for b, d in dists.items():
                for s in set(d) | set(cl):
                    if abs(d.get(s, 0.0) - cl.get(s, 0.0)) > 1e-9 + slack:
                        probs.append(f"oracle[{b}]: zero indistinguishability: P{list(s)} = {d.get(s, 0.0):.10g}, independent classical "
                                     f"particles give {cl.get(s, 0.0):.10g}")
                        return probs
        if thr == 0 and x == 0 and q == 1 and sum(full_in) > 0:
            # the full (annotated) path evaluated at the boundary must equal the brightness-only path
            ctx.count("clause:basic_path_eq_full_path")
            from lightworks.emulator.simulation.probability_distribution import pdist_calc

            src = make_source(case["par"])
            for b in ("permanent", "slos"):
                ann = src._build_statistics_full(lw.State(full_in))  # read-only diagnostic accessor
                pd = {tuple(s.s): float(p) for s, p in pdist_calc(c._build(), ann, emulator.Backend(b)).items()}
                for s in set(pd) | set(dists[b]):
                    if abs(pd.get(s, 0.0) - dists[b].get(s, 0.0)) > 1e-9 + slack:
                        probs.append(f"oracle[{b}]: at purity = indistinguishability = 1 the annotated path gives P{list(s)} = "
                                     f"{pd.get(s, 0.0):.10g}, the brightness-only path {dists[b].get(s, 0.0):.10g}")
                        return probs
    # correspondence with the exact model
    for b in ("permanent", "slos"):
        m = ctx.model.call({"op": "c06", "what": "dist", "prog": case["prog"], "id": "c1", "input": case["input"],
                            "backend": b, "eps": frac_str(eps), **par_req(case["par"])})
        if "error_class" in m:
            if errs.get(b) != m["error_class"]:
                probs.append(f"corr[{b}]: model rejects the configuration ({m['error_class']}), implementation: {errs.get(b, 'accepts')}")
                return probs
            continue
        if b in errs:
            probs.append(f"corr[{b}]: implementation raised {errs[b]}, model accepts")
            return probs
        d = dists[b]
        md = {tuple(s): F(p) for s, p in m["pdist"]}
        ex = {tuple(s): F(p) for s, p in m["pdist_exact"]}
        for s in set(d) | set(md) | set(ex):
            pi = d.get(s, 0.0)
            lo = float(min(md.get(s, 0), ex.get(s, 0)))
            hi = float(max(md.get(s, 0), ex.get(s, 0)))
            if not (lo - 1e-9 <= pi <= hi + 1e-9):
                probs.append(f"corr[{b}]: P{list(s)} impl={pi:.12g} model={float(md.get(s, 0)):.12g} (untruncated {float(ex.get(s, 0)):.12g})")
                return probs
    return probs


# --------------------------------------------------------------------------- g2 / HOM


def run_g2(ctx: Ctx, case: dict) -> list[str]:
    probs = check_par(case["par"])
    if probs:
        return probs
    nu, x, q, _ = par_vals(case["par"])
    c = lw.Circuit(1)
    for b in ("permanent", "slos"):
        d = impl_dist(c, [1], make_source(case["par"]), b)
        p1, p2 = d.get((1,), 0.0), d.get((2,), 0.0)
        if any(k[0] > 2 for k in d):
            probs.append("oracle: one emitter produced more than two photons")
        mean = p1 + 2 * p2
        g2 = 2 * p2 / mean**2
        if abs(g2 - (1 - purity_of(x))) > 1e-9:
            probs.append(f"oracle[{b}]: g2 of the emitted photon-number statistics = {g2!r}, 1 - purity = {1 - purity_of(x)!r}")
        # correspondence: the model's table
        t = ctx.model.call({"op": "c06", "what": "table", **par_req(case["par"])})["table"]
        t = [F(v) for v in t]
        if abs(float(t[1] + t[2] + t[3]) - p1) > 1e-9 or abs(float(t[4] + t[5]) - p2) > 1e-9:
            probs.append(f"corr[{b}]: photon-number statistics impl=({p1!r},{p2!r}) model=({float(t[1] + t[2] + t[3])!r},{float(t[4] + t[5])!r})")
    return probs


def run_hom(ctx: Ctx, case: dict) -> list[str]:
    probs = check_par(case["par"])
    if probs:
        return probs
    nu, _, q, _ = par_vals(case["par"])
    c = lw.Circuit(2)
    c.bs(0)
    if case["loss"]:
        c.loss(0, case["loss"])
        c.loss(1, case["loss"])
    par0 = {**case["par"], "q": "0"}
    for b in ("permanent", "slos"):
        pc = impl_dist(c, [1, 1], make_source(case["par"]), b).get((1, 1), 0.0)
        pc0 = impl_dist(c, [1, 1], make_source(par0), b).get((1, 1), 0.0)
        if pc0 <= 0:
            probs.append(f"oracle[{b}]: no coincidences for distinguishable photons")
            continue
        vis = 1 - pc / pc0
        if abs(vis - float(q * q)) > 1e-9:
            probs.append(f"oracle[{b}]: Hong-Ou-Mandel visibility = {vis!r}, indistinguishability = {float(q * q)!r}")
    return probs


# --------------------------------------------------------------------------- malformed stream

BAD_VALUES = [
    {"t": "str"}, {"t": "none"}, {"t": "bool", "v": True}, {"t": "bool", "v": False}, {"t": "nan"},
    {"t": "num", "v": "-1/10"}, {"t": "num", "v": "3/2"}, {"t": "num", "v": "1/2"}, {"t": "num", "v": "3/10"},
    {"t": "num", "v": "0"}, {"t": "num", "v": "1"},
]
GOOD = {"purity": {"t": "num", "v": "9/10"}, "brightness": {"t": "num", "v": "1/2"},
        "indist": {"t": "num", "v": "3/4"}, "thr": {"t": "num", "v": "0"}}


def py_val(v: dict):
    t = v["t"]
    if t == "num":
        f = F(v["v"])
        return int(f) if f.denominator == 1 and v.get("int") else float(f)
    return {"str": "0.7", "none": None, "nan": float("nan")}.get(t, v.get("v"))


def drv_val(v: dict):
    t = v["t"]
    return {"num": v.get("v"), "bool": v.get("v"), "nan": "nan", "str": "abc", "none": None}[t]


def run_bad(ctx: Ctx, case: dict) -> list[str]:
    a = case["args"]
    try:
        emulator.Source(purity=py_val(a["purity"]), brightness=py_val(a["brightness"]),
                        indistinguishability=py_val(a["indist"]), probability_threshold=py_val(a["thr"]))
        impl = "ok"
    except Exception as e:  # noqa: BLE001
        impl = exc_class(e)
    m = ctx.model.call({"op": "c06", "what": "validate", **{k: drv_val(v) for k, v in a.items()}})
    mod = m.get("error_class", "ok")
    ctx.count("rejected:" + mod)
    if impl != mod:
        return [f"corr: Source({ {k: py_val(v) for k, v in a.items()} }) impl={impl} model={mod}"]
    return []


# --------------------------------------------------------------------------- driver of the streams


def run_case(ctx: Ctx, case: dict) -> list[str]:
    return {"stats": run_stats, "dist": run_dist, "g2": run_g2, "hom": run_hom, "bad": run_bad}[case["kind"]](ctx, case)


def shrink(ctx: Ctx, case: dict) -> dict:
    if case["kind"] == "dist":
        def still(sub):
            return cg.well_formed(sub) and bool(run_case(ctx, {**case, "prog": sub, "shrunk": True}))

        try:
            small = ddmin(case["prog"], still, max_tests=60)
        except Exception:  # noqa: BLE001
            small = case["prog"]
        return {**case, "prog": small, "shrunk": True}
    if case["kind"] == "stats":
        cur = case
        changed = True
        while changed:
            changed = False
            st = cur["state"]
            cands = [st[:i] + st[i + 1:] for i in range(len(st)) if len(st) > 1]
            cands += [st[:i] + [st[i] - 1] + st[i + 1:] for i in range(len(st)) if st[i] > 0]
            for cand in cands:
                c2 = {**cur, "state": cand}
                try:
                    if run_case(ctx, c2):
                        cur, changed = c2, True
                        break
                except Exception:  # noqa: BLE001
                    continue
        return cur
    return case


def report(ctx: Ctx, case: dict, probs: list[str]) -> None:
    ctx.count("cases_with_problems")
    scase = shrink(ctx, case)
    sprobs = run_case(ctx, scase) or probs
    oracle = [p for p in sprobs if p.startswith("oracle")]
    if oracle:
        if "removes every" in oracle[0]:
            kind = "threshold-removes-all-inputs"
        else:
            kind = oracle[0].split(":", 1)[1].strip()[:40]
        ctx.violation(oracle[0], {"case": scase, "problems": sprobs}, sig={"kind": kind})
    else:
        ctx.disagreement(sprobs[0], {"case": scase, "problems": sprobs})


def branches(ctx: Ctx, case: dict) -> None:
    if "par" not in case:
        return
    nu, x, q, thr = par_vals(case["par"])
    ctx.count("path:basic" if (x == 0 and q == 1) else "path:full")
    ctx.count("nu=1" if nu == 1 else "nu=0" if nu == 0 else "0<nu<1")
    ctx.count("purity=1" if x == 0 else "purity<1")
    ctx.count("indist=1" if q == 1 else "indist=0" if q == 0 else "0<indist<1")
    if thr > 0:
        ctx.count("probability_threshold>0")


def run(ctx: Ctx) -> None:
    ctx.rule = ("stats: states of <= 6 modes / <= 4 photons (bunched, gaps) x parameter grid x threshold; dist: circuits from "
                "the tree generator (loss, heralds), both backends; non-trivial = >= 2 photons (incl. heralds) and a source "
                "that is imperfect in purity or indistinguishability (annotated path); distinct = distinct case JSON")
    rng = ctx.rng
    # self-test of the comparison code: a deliberately wrong expectation must be noticed
    t = ctx.model.call({"op": "c06", "what": "table", "nu": "1/2", "p2": "1/3", "pi": "3/5", "thr": "0"})["table"]
    if sum(F(v) for v in t) != 1 or [F(v) for v in t] != table(F(1, 2), F(1, 3), F(3, 5)):
        from core import MachineryFault

        raise MachineryFault("model table differs from the documented table")
    cases: list[dict] = []
    for _ in range(ctx.n(140, 3000)):
        if ctx.out_of_time():
            break
        par = gen_par(rng)
        if not INCLUDE_OVER_THRESHOLD and F(par["thr"]) > F(1, 20):
            par["thr"] = "0"
        x = F(par["x"])
        cases.append({"kind": "stats", "state": gen_state(rng, 6, 3 if x > 0 else 4), "par": par})
    nd = 0
    while nd < ctx.n(90, 2000):
        if ctx.out_of_time():
            break
        case = gen_dist(ctx, rng)
        if case is None:
            ctx.count("skipped:too_large")
            continue
        nd += 1
        cases.append(case)
    for _ in range(ctx.n(10, 100)):
        if ctx.out_of_time():
            break
        par = gen_par(rng, thr=False)
        if F(par["nu"]) == 0:
            par["nu"] = "1/2"
        cases.append({"kind": "g2", "par": par})
    for _ in range(ctx.n(10, 100)):
        if ctx.out_of_time():
            break
        par = gen_par(rng, thr=False)
        par["x"] = "0"
        if F(par["nu"]) == 0:
            par["nu"] = "3/4"
        cases.append({"kind": "hom", "par": par, "loss": rng.choice([0, 0, 0.25, 0.5])})
    for _ in range(ctx.n(36, 400)):
        if ctx.out_of_time():
            break
        args = dict(GOOD)
        for k in rng.sample(list(GOOD), rng.choice([1, 1, 2])):
            args[k] = rng.choice(BAD_VALUES)
        cases.append({"kind": "bad", "args": args})
    # directed: the smallest configuration in which the threshold removes every input
    if INCLUDE_OVER_THRESHOLD:
        cases.insert(0, {"kind": "stats", "state": [1, 1], "par": {"nu": "1/2", "x": "0", "q": "1", "thr": "9/10"}})
    for i, case in enumerate(cases):
        probs = run_case(ctx, case)
        ctx.count("stream:" + case["kind"])
        branches(ctx, case)
        nontrivial = False
        if case["kind"] in ("stats", "dist"):
            _, x, q, _ = par_vals(case["par"])
            full_path = not (x == 0 and q == 1)
            if case["kind"] == "stats":
                st = case["state"]
                nph = sum(st)
                if has_gap(st):
                    ctx.count("input:empty_run>=2")
                if any(v >= 2 for v in st):
                    ctx.count("input:bunched")
            else:
                prog = case["prog"]
                nph = case["photons"]
                her = nph - sum(case["input"])
                ctx.count("lossy" if any(fg.is_lossy(op) for op in prog) else "lossless")
                ctx.count("herald_photons>0" if her else "no_herald_photons")
                if any(v >= 2 for v in case["input"]):
                    ctx.count("input:bunched")
            ctx.count(f"photons:{nph}")
            nontrivial = nph >= 2 and full_path
        elif case["kind"] in ("g2", "hom"):
            nontrivial = True
        ctx.case(json.dumps(case, sort_keys=True), nontrivial, sample=case if i in (1, 150) else None)
        if probs:
            report(ctx, case, probs)


def replay(ctx: Ctx, path: str) -> None:
    data = json.load(open(path))["replay"]
    probs = run_case(ctx, data["case"])
    ctx.case("replay", True, sample=data["case"])
    for p in probs:
        print("replay:", p)
        if p.startswith("oracle"):
            kind = "threshold-removes-all-inputs" if "removes every" in p else "replay"
            ctx.violation(p, data, sig={"kind": kind})
        else:
            ctx.disagreement(p, data)
