"""
C06 — imperfect-source model: normalised mixture of distinguishable photon groups.

Model: LW.Model.Source (single-photon outcome table, per-mode / cross-mode combination with fresh
labels, empty-mode grouping, label canonicalisation, brightness-only fast path, thresholding,
annotated_state_pdist_calc) on top of LW.Model.Dist / Fock.

Exact parameters (DESIGN §3.1): the model is fed the RESULTS of `indistinguishability ** 0.5` and of
`purity_to_prob(purity)`:  q rational with indistinguishability := q^2,  x rational (two-photon
weight, p2 = x, p1 = 1 - x) with purity := 1 - 2x/(1+x)^2 (x = 0 <=> purity = 1), brightness nu
rational.  The relation is re-checked against the code (1e-12) for every parameter set used.

Streams
  stats   Source.check_number(state)              vs model; oracle: statistics normalised, count =
          number of distinct photon partitions of positive probability (independent enumeration)
  dist    Sampler.probability_distribution with source, both backends, generated circuits (loss,
          heralds), bunched / gapped inputs, optional probability_threshold   vs model; oracles:
          non-negative, normalised, = independent mixture reference, backends agree; at perfect
          settings = ideal distribution; at zero indistinguishability = classical particles;
          full path = brightness-only path at purity = indistinguishability = 1
  g2      photon-number statistics of one emitter (identity circuit): g2 = 1 - purity
  hom     50:50 beam splitter, input |1,1>: visibility of the coincidence dip = indistinguishability
  bad     malformed Source(...) arguments / wrong input length: exception class vs model
  hist    histories on ONE long-lived Source (constructed with defaults or with arguments) held by 0, 1 or 2
          long-lived Samplers (attached at construction or through Sampler.source; the two consumers may have
          different inputs / backends): purity, brightness, indistinguishability, probability_threshold are
          re-assigned through the property setters between uses, one or several at a time, in any order, in every
          direction (perfect -> imperfect, imperfect -> perfect, imperfect -> other imperfect, brightness /
          threshold only), passed as float / int / numpy scalar; steps without any observation, consumers that skip
          a setting, repeated use without change, rejected assignments (must change nothing), Sampler.source
          replaced by a new object.  After EVERY step the long-lived objects are judged at the CURRENT settings:
          attributes read back; check_number / input statistics = those of a new Source of the same settings,
          normalised, count = number of partitions; Sampler.probability_distribution = independent mixture
          reference = new Sampler with a new Source, perfect = ideal, g2 = 1 - purity (one emitter), HOM
          visibility = indistinguishability (50:50 splitter); and against the exact model (stateless: called with
          the current parameters).  A directed corpus (hist_corpus) runs first.
          Circuit dimension: the CIRCUIT of a long-lived Sampler is re-assigned (Sampler.circuit = another object
          with other input heralds - other herald modes / herald photon numbers 0, 1, 2 / other total size - and
          the same or another number of input modes; back to an earlier object: both orders) or edited IN PLACE
          (heralded gates added, a herald declared, components appended) between reads, Sampler.input_state is
          re-assigned, interleaved with assignments to the shared Source; every read is judged at the CURRENT
          circuit / input / settings against the mixture reference on a circuit rebuilt from the program, a new
          Sampler and the exact model.
  own     DEFAULT SOURCES ARE PER OBJECT: worlds of 2-5 long-lived Samplers that each have a Source of their OWN - made by
          the library because none was given (source argument left out, None by keyword, None by position, or
          `sampler.source = None` later) or given explicitly (Source(), Source(**settings)).  One of them is tuned IN PLACE
          through its accessor (sampler.source.brightness = ...), others exist before and are created afterwards, are
          put back on a default or get a new explicit Source.  The harness keeps its own record of what every Sampler
          was given; after every step the attributes of EVERY Sampler's source are compared with that record, and every
          observation is judged at the RECORDED settings exactly as in `hist` (mixture reference, new Sampler with an
          explicit new Source, perfect = ideal, g2, HOM, check_number, exact model): a Sampler that was given no
          source has the perfect source whatever was done to other Samplers.  Directed corpus (own_corpus) first.
  g2f     exact float purities 1 - 1e-k and 0.5 + 1e-k (no rational two-photon weight exists: oracle only)

Parameter boundaries (EDGE grids): brightness / sqrt(indistinguishability) / threshold 1 - 1e-k and 1e-k for
k = 1..8 as exact rationals; two-photon weights x = 1/d on a geometric grid down to 5e-5 (purity up to
1 - 1e-4, on both sides of every plausible threshold of a numerical shortcut) and near 1 (purity near 0.5);
smaller x (X_CANCEL, purity within 1e-4 of 1, where the closed form of the library loses digits) are judged in the
stats / g2 streams at the property's own tolerance (g2 within 1e-9).  A directed corpus (par_corpus) runs first.
"""

from __future__ import annotations

import itertools
import json
import math
import os
from fractions import Fraction as F

import numpy as np

import circgen as cg
import fockgen as fg
import lightworks as lw
from core import PYTH, Ctx, ddmin, exc_class, frac_str
from lightworks import emulator
from lightworks.emulator.components.source import purity_to_prob
from props.c04 import get_eps

TRUSTED = [
    "Lean 4.33 kernel; axioms subset of {propext, Classical.choice, Quot.sound} (audited on every run)",
    "hand-written model LW.Model.Source / Dist / Fock tied to the code by this correspondence check",
    "float evaluation of x**0.5 and of purity_to_prob (the model takes their exact results; the relation "
    "purity = 1 - 2x/(1+x)^2, indistinguishability = q^2 is re-checked to 1e-12 on every parameter set; for two-photon "
    "weights 0 < x < 5e-5 (purity within 1e-4 of 1) to the tolerance of the clause itself, g2 within 1e-9)",
    "thewalrus.perm (permanent); float rounding up to 1e-9",
    "the model is exact, the code rounds: inputs within 1e-12 of probability_threshold are skipped, entries at the "
    "1e-9 backend truncation are compared against the interval [truncated, untruncated]",
]
ASSUMPTIONS = [
    "<= 4 photons incl. heralds (<= 3 when purity < 1, every photon may come with a noise photon), total modes "
    "(with loss) <= 8",
    "parameters on rational grids incl. the boundaries nu in {0,1}, purity = 1, indistinguishability in {0,1} and their "
    "neighbourhoods 1 - 1e-k, 1e-k (k = 1..8), two-photon weights on a geometric grid down to 5e-9, purity down to 0.5 + 1e-7; "
    "exact float purities 1 - 1e-k / 0.5 + 1e-k are judged on the implementation alone (g2f)",
    "histories: <= 3 circuit objects per history, heralded gates with <= 2 heralded modes, herald photon numbers 0, 1, 2",
]

NU = [F(1), F(1), F(1, 2), F(3, 4), F(1, 3), F(9, 10), F(1, 10), F(0)]
X = [F(0), F(0), F(1, 3), F(1, 10), F(1, 2), F(9, 10), F(1, 20)]
QS = [F(1), F(1), F(0), F(1, 2), F(3, 5), F(9, 10), F(1, 3)]
THR = [F(0)] * 5 + [F(1, 100), F(1, 20), F(1, 7), F(1, 3), F(9, 10)]
# Boundaries and their neighbourhoods (exact rationals; the float handed to the code is derived from them)
NEAR1 = [1 - F(1, 10**k) for k in range(1, 9)]  # 1 - 1e-k
TINY = [F(1, 10**k) for k in range(1, 9)]  # 1e-k
NU_EDGE = NEAR1 + TINY + [F(1), F(0)]
Q_EDGE = NEAR1 + TINY + [F(1), F(0), F(7, 10), F(71, 100)]  # q^2 around 1/2 as well
# two-photon weight: 1 - purity ~ 2x.  Geometric grid (ratio <= 2.5) from 1/7 down to 5e-5: whatever threshold
# T >= 2.5e-4 on 1 - purity a shortcut uses, some x lies in [T/5, T/2) where a leading-order formula is off by
# >= 0.08 T^2 >> 1e-12; values next to 1 (purity next to its lower limit 0.5)
X_EDGE = [F(1, d) for d in (7, 15, 30, 60, 101, 125, 150, 200, 251, 300, 400, 500, 700, 1000, 1500, 2000, 3000,
                            5000, 7000, 10000, 15000, 20000)] + [F(99, 100), F(999, 1000), F(19, 20)]
# below 5e-5 the library's closed form (difference of two numbers ~ 1/(1 - purity)) cannot reach 1e-12; these
# weights (1 - purity ~ 1e-5 .. 1e-8) are judged at the tolerance of the property itself (g2 within 1e-9, i.e.
# x within 5e-10), in the stats / g2 streams only
X_CANCEL = [F(1, 2 * 10**k) for k in range(5, 9)] + [F(1, 3 * 10**5), F(1, 7 * 10**6)]
X_WELL = F(1, 20000)
THR_EDGE = TINY + NEAR1 + [F(1)]
# True = the cancellation range is generated and judged; False = skipped and counted (VERIF_C06_CANCELLATION=0
# switches it off for one run, e.g. to look at other findings while the library's closed form is unrepaired)
INCLUDE_CANCELLATION_RANGE = os.environ.get("VERIF_C06_CANCELLATION", "1") != "0"
# A probability_threshold above every input probability leaves no input: the model (and the candidate
# repair of the library) rejects it with ValueError; the pinned library returns empty, un-normalised
# statistics and the Sampler then fails inside multimethod (DispatchError).  True = such cases are
# generated and judged (a directed one on every run); False = they are skipped and counted.
INCLUDE_OVER_THRESHOLD = True
N_HIST_QUICK = 70  # random histories at quick tier (the directed ones of hist_corpus() always run first)
N_HIST_CIRC_QUICK = 45  # random histories with circuit / input changes at quick tier
N_OWN_QUICK = 40  # random worlds of Samplers with a Source of their own at quick tier (own_corpus() always runs first)


# --------------------------------------------------------------------------- parameters


def purity_of(x: F) -> float:
    return float(1 - 2 * x / (1 + x) ** 2)


def gen_par(rng, thr: bool = True, edge: float = 0.3, cancel: bool = False) -> dict:
    """each parameter from its regular grid or (probability `edge`) from the boundary grid; cancel = the
    two-photon weight may come from X_CANCEL (streams that do not compare probabilities at 1e-9)"""
    def pick(grid, edges):
        return rng.choice(edges) if rng.random() < edge else rng.choice(grid)

    xe = X_EDGE + (X_CANCEL if cancel and INCLUDE_CANCELLATION_RANGE else [])
    return {"nu": frac_str(pick(NU, NU_EDGE)), "x": frac_str(pick(X, xe)), "q": frac_str(pick(QS, Q_EDGE)),
            "thr": frac_str((rng.choice(THR_EDGE) if rng.random() < edge / 2 else rng.choice(THR)) if thr else F(0))}


def par_vals(par: dict):
    return F(par["nu"]), F(par["x"]), F(par["q"]), F(par["thr"])


def make_source(par: dict):
    nu, x, q, thr = par_vals(par)
    return emulator.Source(purity=purity_of(x), brightness=float(nu), indistinguishability=float(q * q),
                           probability_threshold=float(thr))


def par_req(par: dict) -> dict:
    return {"nu": par["nu"], "p2": par["x"], "pi": par["q"], "thr": par["thr"]}


def check_par(par: dict) -> list[str]:
    """the exact parameters really are the results of the code's sqrt / purity_to_prob"""
    nu, x, q, _ = par_vals(par)
    out = []
    p1 = purity_to_prob(purity_of(x))
    # 1e-12 where the closed form is well conditioned; in the cancellation range the tolerance of the clause
    # itself: g2 = 2x/(1+x)^2 within 1e-9  <=>  x within 5e-10
    tol = 1e-12 if x == 0 or x >= X_WELL else 5e-10
    if abs(p1 - float(1 - x)) > tol:
        out.append(f"oracle: purity_to_prob({purity_of(x)!r}) = {p1!r}, not 1 - x = {float(1 - x)!r}: the two-photon weight "
                   "is not the root of x^2 + bx + 1 (g2 = 1 - purity fails)")
    if abs(float(q * q) ** 0.5 - float(q)) > 1e-12:
        out.append("oracle: indistinguishability ** 0.5 differs from q")
    return out


def table(nu: F, x: F, q: F) -> list[F]:
    """documented single-photon outcome probabilities (arXiv:2211.15626 p.15), written independently
    of the code's expressions: nothing | photon indist. | photon dist. | noise only | indist.+noise |
    dist.+noise"""
    keep = 1 - nu * x  # p1 + (1 - nu) p2
    return [(1 - nu) * keep, q * nu * keep, (1 - q) * nu * keep, nu * (1 - nu) * x, nu * nu * q * x,
            nu * nu * (1 - q) * x]


# --------------------------------------------------------------------------- independent reference


def ref_inputs(full_in: list[int], nu: F, x: F, q: F) -> dict:
    """mixture over independent per-photon emission outcomes -> {partition: weight}; a partition is
    the sorted tuple of the occupation vectors of the mutually distinguishable photon groups"""
    n = len(full_in)
    tab = table(nu, x, q)
    photons = [m for m, k in enumerate(full_in) for _ in range(k)]
    out: dict = {}
    for choice in itertools.product(range(6), repeat=len(photons)):
        w = F(1)
        for o in choice:
            w *= tab[o]
        if w == 0:
            continue
        g0 = [0] * n
        groups = []
        for m, o in zip(photons, choice):
            e = tuple(1 if j == m else 0 for j in range(n))
            if o in (1, 4):
                g0[m] += 1
            if o in (2, 5):
                groups.append(e)
            if o in (3, 4, 5):
                groups.append(e)
        if any(g0):
            groups.append(tuple(g0))
        key = tuple(sorted(groups))
        out[key] = out.get(key, F(0)) + w
    return out


class Ref:
    """ideal boson-sampling distributions of single groups from the implementation's own U_full
    (Ryser permanent, no truncation), marginalised over the loss modes"""

    def __init__(self, c, eps: float) -> None:
        self.u = np.array(c.U_full)
        self.n = c.n_modes
        self.nl = self.u.shape[0] - self.n
        self.eps = eps
        self.cache: dict = {}
        self.dropped = 0.0  # probability mass that the 1e-9 backend truncation may remove
        self.nbasis = 1

    def group(self, occ: tuple) -> dict:
        if occ in self.cache:
            return self.cache[occ]
        tot = sum(occ)
        ins = list(occ) + [0] * self.nl
        out: dict = {}
        cnt = 0
        for t in fg.fock_all(self.u.shape[0], tot):
            cnt += 1
            p = abs(fg.ref_amplitude(self.u, ins, list(t))) ** 2
            if p <= self.eps * 1.001:
                self.dropped += p
            key = tuple(t[: self.n])
            out[key] = out.get(key, 0.0) + p
        self.nbasis = max(self.nbasis, cnt)
        self.cache[occ] = out
        return out

    def conv(self, groups: tuple) -> dict:
        cur = {tuple([0] * self.n): 1.0}
        for g in groups:
            d = self.group(g)
            nxt: dict = {}
            for a, p in cur.items():
                for b, r in d.items():
                    k = tuple(i + j for i, j in zip(a, b))
                    nxt[k] = nxt.get(k, 0.0) + p * r
            cur = nxt
        return cur

    def mixture(self, inputs: dict) -> dict:
        out: dict = {}
        for key, w in inputs.items():
            for s, p in self.conv(key).items():
                out[s] = out.get(s, 0.0) + float(w) * p
        return out


def apply_thr(inputs: dict, thr: F):
    """documented thresholding: drop inputs below the threshold, renormalise; None = nothing left;
    second component: an input sits within 1e-12 of the threshold (float-ambiguous)"""
    if thr == 0:
        return inputs, False
    amb = any(abs(w - thr) <= F(1, 10**12) for w in inputs.values())
    kept = {k: w for k, w in inputs.items() if w >= thr}
    if not kept:
        return None, amb
    tot = sum(kept.values())
    return {k: w / tot for k, w in kept.items()}, amb


# --------------------------------------------------------------------------- stats stream


def gen_state(rng, max_modes: int, max_ph: int) -> list[int]:
    n = rng.randint(1, max_modes)
    s = [0] * n
    k = rng.randint(0, max_ph)
    style = rng.random()
    for _ in range(k):
        if style < 0.3 and any(s):  # bunch
            occ = [i for i, v in enumerate(s) if v]
            s[rng.choice(occ)] += 1
        else:
            s[rng.randrange(n)] += 1
    return s


def has_gap(s: list[int]) -> bool:
    return any(s[i] == 0 and s[i + 1] == 0 for i in range(len(s) - 1))


def run_stats(ctx: Ctx, case: dict) -> list[str]:
    probs = check_par(case["par"])
    if probs:
        return probs
    nu, x, q, thr = par_vals(case["par"])
    st = case["state"]
    src = make_source(case["par"])
    ref, amb = apply_thr(ref_inputs(st, nu, x, q), thr)
    if amb:
        ctx.count("ambiguous_source_threshold")
        return probs
    try:
        n_impl = src.check_number(lw.State(st))
        stats = src._build_statistics(lw.State(st))  # read-only diagnostic accessor
        impl_err = None
    except Exception as e:  # noqa: BLE001
        impl_err = exc_class(e)
    if ref is None and not INCLUDE_OVER_THRESHOLD:
        ctx.count("skipped:threshold_removes_all")
        return probs
    if ref is None:
        ctx.count("threshold_removes_all")
        if impl_err != "ValueError":
            got = f"raises {impl_err}" if impl_err else f"returns {n_impl} inputs summing to {sum(stats.values())!r}"
            probs.append(f"oracle: probability_threshold={float(thr)} removes every input of {st}: the statistics cannot be "
                         f"normalised and the source must reject it (ValueError); the implementation {got}")
    elif impl_err:
        probs.append(f"oracle: check_number raised {impl_err} on a valid source/state")
    else:
        tot = sum(stats.values())
        if abs(tot - 1) > 1e-9:
            probs.append(f"oracle: input statistics sum to {tot!r}")
        if any(p < 0 for p in stats.values()):
            probs.append("oracle: negative input probability")
        full_path = not (x == 0 and q == 1)
        if (full_path or nu > 0) and n_impl != len(ref):
            probs.append(f"oracle: check_number = {n_impl}, but {len(ref)} distinct photon partitions have positive probability")
    m = ctx.model.call({"op": "c06", "what": "stats", "state": st, **par_req(case["par"])})
    if "error_class" in m:
        if impl_err != m["error_class"] and not probs:
            probs.append(f"corr: check_number impl={impl_err or n_impl} model={m['error_class']}")
    elif impl_err:
        if not probs:
            probs.append(f"corr: check_number impl raised {impl_err}, model n={m['n']}")
    elif n_impl != m["n"]:
        probs.append(f"corr: check_number impl={n_impl} model={m['n']}")
    return probs


# --------------------------------------------------------------------------- dist stream


def gen_dist(ctx: Ctx, rng):
    par = gen_par(rng)
    style = rng.random()
    if style < 0.10:  # perfect settings
        par.update(nu="1", x="0", q="1", thr="0")
    elif style < 0.25:  # classical particles
        par.update(x="0", q="0", thr="0")
    elif style < 0.35:  # brightness only
        par.update(x="0", q="1")
    nu, x, q, thr = par_vals(par)
    if not INCLUDE_OVER_THRESHOLD and thr > F(1, 20):
        par["thr"] = "0"
    prog = fg.gen_circuit(ctx, rng, max_depth=2, max_n=4, max_herald_photons=1 if x > 0 else 2)
    pool = fg.build_impl(prog)
    c = pool.get("c1")
    if c is None or c.input_modes == 0:
        return None
    if np.array(c.U_full).shape[0] > 8:
        return None
    cap = (4 if x > 0 else 5) if ctx.thorough else (3 if x > 0 else 4)
    hp = fg.herald_photons(c)
    if hp > cap - 1:
        return None
    nph = max(0, min(rng.choice([0, 1, 2, 2, 3, 3, 4]), cap - hp))
    inp = fg.rand_state(rng, c.input_modes, nph)
    if rng.random() < 0.08:  # malformed: wrong input length
        inp = inp + [0] if rng.random() < 0.5 or len(inp) < 2 else inp[:-1]
    return {"kind": "dist", "prog": prog, "input": inp, "par": par, "photons": sum(inp) + hp}


def impl_dist(c, inp, src, b):
    d = emulator.Sampler(c, lw.State(inp), source=src, backend=b).probability_distribution
    return {tuple(s.s): float(p) for s, p in d.items()}


def run_dist(ctx: Ctx, case: dict) -> list[str]:
    probs = check_par(case["par"])
    if probs:
        return probs
    pool = fg.build_impl(case["prog"])
    c = pool.get("c1")
    if c is None:
        return probs
    nu, x, q, thr = par_vals(case["par"])
    eps = get_eps()
    if c.input_modes != len(case["input"]):
        if case.get("shrunk"):
            return probs  # shrinking changed the circuit's input size: not a case
        ctx.count("rejected:wrong_input_length")
        try:
            impl_dist(c, case["input"], make_source(case["par"]), "permanent")
            impl = "ok"
        except Exception as e:  # noqa: BLE001
            impl = exc_class(e)
        m = ctx.model.call({"op": "c06", "what": "dist", "prog": case["prog"], "id": "c1", "input": case["input"],
                            "backend": "permanent", "eps": frac_str(eps), **par_req(case["par"])})
        if m.get("error_class", "ok") != impl:
            probs.append(f"corr: wrong input length: impl={impl} model={m.get('error_class', 'ok')}")
        return probs
    full_in = fg.add_heralds(case["input"], c.heralds["input"])
    inputs, amb = apply_thr(ref_inputs(full_in, nu, x, q), thr)
    if amb:
        ctx.count("ambiguous_source_threshold")
        return probs
    dists = {}
    errs = {}
    for b in ("permanent", "slos"):
        try:
            dists[b] = impl_dist(c, case["input"], make_source(case["par"]), b)
        except Exception as e:  # noqa: BLE001
            errs[b] = exc_class(e)
    if inputs is None and not INCLUDE_OVER_THRESHOLD:
        ctx.count("skipped:threshold_removes_all")
        return probs
    if inputs is None:
        ctx.count("threshold_removes_all")
        for b in ("permanent", "slos"):
            if errs.get(b) != "ValueError":
                got = f"raises {errs[b]}" if b in errs else "returns a distribution"
                probs.append(f"oracle[{b}]: probability_threshold={float(thr)} removes every source input of {full_in}; the "
                             f"statistics cannot be normalised and must be rejected (ValueError); Sampler.probability_distribution {got}")
                break
    elif errs:
        b, e = next(iter(errs.items()))
        probs.append(f"oracle[{b}]: Sampler.probability_distribution raised {e} on a valid configuration")
    if probs:
        return probs
    if inputs is not None:
        r = Ref(c, float(eps))
        ref = r.mixture(inputs)
        slack = r.dropped * max(1, len(full_in)) * 2
        if slack:
            ctx.count("backend_truncation_active")
        for b, d in dists.items():
            tot = sum(d.values())
            if any(p < -1e-15 for p in d.values()):
                probs.append(f"oracle[{b}]: negative probability")
            if not (1 - 1e-9 - slack <= tot <= 1 + 1e-9):
                probs.append(f"oracle[{b}]: output distribution sums to {tot!r}")
            for s in d:
                if len(s) != c.n_modes:
                    probs.append(f"oracle[{b}]: pattern {s} is not on the circuit's {c.n_modes} modes")
            for s in set(d) | set(ref):
                pi, pr = d.get(s, 0.0), ref.get(s, 0.0)
                if abs(pi - pr) > 1e-9 + slack:
                    probs.append(f"oracle[{b}]: P{list(s)} = {pi:.10g} but the mixture over per-photon emission outcomes of the "
                                 f"independent group distributions gives {pr:.10g}")
                    break
            if probs:
                return probs
        dp, ds = dists["permanent"], dists["slos"]
        for s in set(dp) | set(ds):
            if abs(dp.get(s, 0) - ds.get(s, 0)) > 1e-9 + slack:
                probs.append(f"oracle: backends disagree on {list(s)}: permanent={dp.get(s, 0):.10g} slos={ds.get(s, 0):.10g}")
                return probs
        # special settings
        if thr == 0 and nu == 1 and x == 0 and q == 1:
            ctx.count("clause:perfect_reduces_to_ideal")
            ideal = r.group(tuple(full_in))
            for b, d in dists.items():
                for s in set(d) | set(ideal):
                    if abs(d.get(s, 0.0) - ideal.get(s, 0.0)) > 1e-9 + slack:
                        probs.append(f"oracle[{b}]: perfect source: P{list(s)} = {d.get(s, 0.0):.10g}, ideal source {ideal.get(s, 0.0):.10g}")
                        return probs
        if thr == 0 and x == 0 and q == 0:
            ctx.count("clause:zero_indist_classical")
            cl = {tuple([0] * c.n_modes): 1.0}
            for m, k in enumerate(full_in):
                for _ in range(k):
                    one = r.group(tuple(1 if j == m else 0 for j in range(len(full_in))))
                    nxt: dict = {}
                    for a, p in cl.items():
                        nxt[a] = nxt.get(a, 0.0) + p * float(1 - nu)
                        for bb, rr in one.items():
                            kk = tuple(i + j for i, j in zip(a, bb))
                            nxt[kk] = nxt.get(kk, 0.0) + p * float(nu) * rr
                    cl = nxt
            for b, d in dists.items():
                for s in set(d) | set(cl):
                    if abs(d.get(s, 0.0) - cl.get(s, 0.0)) > 1e-9 + slack:
                        probs.append(f"oracle[{b}]: zero indistinguishability: P{list(s)} = {d.get(s, 0.0):.10g}, independent classical "
                                     f"particles give {cl.get(s, 0.0):.10g}")
                        return probs
        if thr == 0 and x == 0 and q == 1 and sum(full_in) > 0:
            # the full (annotated) path evaluated at the boundary must equal the brightness-only path
            ctx.count("clause:basic_path_eq_full_path")
            from lightworks.emulator.simulation.probability_distribution import pdist_calc

            src = make_source(case["par"])
            for b in ("permanent", "slos"):
                ann = src._build_statistics_full(lw.State(full_in))  # read-only diagnostic accessor
                pd = {tuple(s.s): float(p) for s, p in pdist_calc(c._build(), ann, emulator.Backend(b)).items()}
                for s in set(pd) | set(dists[b]):
                    if abs(pd.get(s, 0.0) - dists[b].get(s, 0.0)) > 1e-9 + slack:
                        probs.append(f"oracle[{b}]: at purity = indistinguishability = 1 the annotated path gives P{list(s)} = "
                                     f"{pd.get(s, 0.0):.10g}, the brightness-only path {dists[b].get(s, 0.0):.10g}")
                        return probs
    # correspondence with the exact model
    for b in ("permanent", "slos"):
        m = ctx.model.call({"op": "c06", "what": "dist", "prog": case["prog"], "id": "c1", "input": case["input"],
                            "backend": b, "eps": frac_str(eps), **par_req(case["par"])})
        if "error_class" in m:
            if errs.get(b) != m["error_class"]:
                probs.append(f"corr[{b}]: model rejects the configuration ({m['error_class']}), implementation: {errs.get(b, 'accepts')}")
                return probs
            continue
        if b in errs:
            probs.append(f"corr[{b}]: implementation raised {errs[b]}, model accepts")
            return probs
        d = dists[b]
        md = {tuple(s): F(p) for s, p in m["pdist"]}
        ex = {tuple(s): F(p) for s, p in m["pdist_exact"]}
        for s in set(d) | set(md) | set(ex):
            pi = d.get(s, 0.0)
            lo = float(min(md.get(s, 0), ex.get(s, 0)))
            hi = float(max(md.get(s, 0), ex.get(s, 0)))
            if not (lo - 1e-9 <= pi <= hi + 1e-9):
                probs.append(f"corr[{b}]: P{list(s)} impl={pi:.12g} model={float(md.get(s, 0)):.12g} (untruncated {float(ex.get(s, 0)):.12g})")
                return probs
    return probs


# --------------------------------------------------------------------------- g2 / HOM


def run_g2(ctx: Ctx, case: dict) -> list[str]:
    probs = check_par(case["par"])
    if probs:
        return probs
    nu, x, q, _ = par_vals(case["par"])
    c = lw.Circuit(1)
    for b in ("permanent", "slos"):
        d = impl_dist(c, [1], make_source(case["par"]), b)
        p1, p2 = d.get((1,), 0.0), d.get((2,), 0.0)
        if any(k[0] > 2 for k in d):
            probs.append("oracle: one emitter produced more than two photons")
        mean = p1 + 2 * p2
        g2 = 2 * p2 / mean**2
        if abs(g2 - (1 - purity_of(x))) > 1e-9:
            probs.append(f"oracle[{b}]: g2 of the emitted photon-number statistics = {g2!r}, 1 - purity = {1 - purity_of(x)!r}")
        # correspondence: the model's table
        t = ctx.model.call({"op": "c06", "what": "table", **par_req(case["par"])})["table"]
        t = [F(v) for v in t]
        if abs(float(t[1] + t[2] + t[3]) - p1) > 1e-9 or abs(float(t[4] + t[5]) - p2) > 1e-9:
            probs.append(f"corr[{b}]: photon-number statistics impl=({p1!r},{p2!r}) model=({float(t[1] + t[2] + t[3])!r},{float(t[4] + t[5])!r})")
    return probs


def run_hom(ctx: Ctx, case: dict) -> list[str]:
    probs = check_par(case["par"])
    if probs:
        return probs
    nu, _, q, _ = par_vals(case["par"])
    c = lw.Circuit(2)
    c.bs(0)
    if case["loss"]:
        c.loss(0, case["loss"])
        c.loss(1, case["loss"])
    par0 = {**case["par"], "q": "0"}
    for b in ("permanent", "slos"):
        pc = impl_dist(c, [1, 1], make_source(case["par"]), b).get((1, 1), 0.0)
        pc0 = impl_dist(c, [1, 1], make_source(par0), b).get((1, 1), 0.0)
        if pc0 <= 0:
            probs.append(f"oracle[{b}]: no coincidences for distinguishable photons")
            continue
        vis = 1 - pc / pc0
        if abs(vis - float(q * q)) > 1e-9:
            probs.append(f"oracle[{b}]: Hong-Ou-Mandel visibility = {vis!r}, indistinguishability = {float(q * q)!r}")
    return probs


def run_g2f(ctx: Ctx, case: dict) -> list[str]:
    """exact float purities (1 - 1e-k, 0.5 + 1e-k, ...): no rational two-photon weight exists, so the model
    is not asked; the clause g2 = 1 - purity is evaluated on the implementation alone"""
    ctx.count("g2f:oracle-only")
    probs = []
    purity = float(case["purity"])
    nu, q = F(case["nu"]), F(case["q"])
    c = lw.Circuit(1)
    for b in ("permanent", "slos"):
        src = emulator.Source(purity=purity, brightness=float(nu), indistinguishability=float(q * q))
        d = impl_dist(c, [1], src, b)
        p1, p2 = d.get((1,), 0.0), d.get((2,), 0.0)
        if any(k[0] > 2 for k in d):
            probs.append(f"oracle[{b}]: one emitter produced more than two photons")
        if abs(sum(d.values()) - 1) > 1e-9:
            probs.append(f"oracle[{b}]: output distribution sums to {sum(d.values())!r}")
        g2 = 2 * p2 / (p1 + 2 * p2) ** 2
        if abs(g2 - (1 - purity)) > 1e-9:
            probs.append(f"oracle[{b}]: Source(purity={purity!r}, brightness={float(nu)!r}): g2 of the emitted photon-number "
                         f"statistics = {g2!r}, 1 - purity = {1 - purity!r}")
    return probs


# --------------------------------------------------------------------------- malformed stream

BAD_VALUES = [
    {"t": "str"}, {"t": "none"}, {"t": "bool", "v": True}, {"t": "bool", "v": False}, {"t": "nan"},
    {"t": "num", "v": "-1/10"}, {"t": "num", "v": "3/2"}, {"t": "num", "v": "1/2"}, {"t": "num", "v": "3/10"},
    {"t": "num", "v": "0"}, {"t": "num", "v": "1"},
]
GOOD = {"purity": {"t": "num", "v": "9/10"}, "brightness": {"t": "num", "v": "1/2"},
        "indist": {"t": "num", "v": "3/4"}, "thr": {"t": "num", "v": "0"}}


def py_val(v: dict):
    t = v["t"]
    if t == "num":
        f = F(v["v"])
        return int(f) if f.denominator == 1 and v.get("int") else float(f)
    return {"str": "0.7", "none": None, "nan": float("nan")}.get(t, v.get("v"))


def drv_val(v: dict):
    t = v["t"]
    return {"num": v.get("v"), "bool": v.get("v"), "nan": "nan", "str": "abc", "none": None}[t]


def run_bad(ctx: Ctx, case: dict) -> list[str]:
    a = case["args"]
    try:
        emulator.Source(purity=py_val(a["purity"]), brightness=py_val(a["brightness"]),
                        indistinguishability=py_val(a["indist"]), probability_threshold=py_val(a["thr"]))
        impl = "ok"
    except Exception as e:  # noqa: BLE001
        impl = exc_class(e)
    m = ctx.model.call({"op": "c06", "what": "validate", **{k: drv_val(v) for k, v in a.items()}})
    mod = m.get("error_class", "ok")
    ctx.count("rejected:" + mod)
    if impl != mod:
        return [f"corr: Source({ {k: py_val(v) for k, v in a.items()} }) impl={impl} model={mod}"]
    return []


# --------------------------------------------------------------------------- history stream
#
# One long-lived Source (and one or two long-lived Samplers holding it) is taken through a sequence
# of steps; after every step the observables of the long-lived objects are judged against the
# property's clauses AT THE CURRENT SETTINGS (independent mixture reference, special settings, g2, HOM),
# against freshly constructed objects with the same current settings, and against the exact model.
#
#   case = {"kind": "hist", "prog": .., "ctor": "default" | "kwargs", "init": par,
#           "samplers": [{"backend": b, "input": [..], "attach": "ctor" | "setter"}, ..]   (0, 1 or 2),
#           "state": [..]                 state for check_number (no heralds added),
#           "steps": [step, ..]}
#   step = {"op": "set", "set": [[key, "p/q", form], ..], "use": [sampler indices], "stats": bool, ["via": i]}
#              key in nu|x|q|thr (assigned in the listed order through the property setters),
#              form in float|int|np (how the value is passed); an empty "set" is a pure repeated use;
#              via = i: assigned as  sampler_i.source.<attr> = v  instead of  src.<attr> = v
#        | {"op": "bad", "attr": .., "value": BAD value, "use": .., "stats": ..}   rejected assignment
#        | {"op": "replace", "par": par, "use": .., "stats": ..}   Sampler.source = Source(**par); the
#              new object is the long-lived one from then on

ATTR = {"nu": "brightness", "x": "purity", "q": "indistinguishability", "thr": "probability_threshold"}
PERFECT = {"nu": "1", "x": "0", "q": "1", "thr": "0"}
# values that no attribute accepts, plus values only purity rejects
BAD_ANY = [{"t": "str"}, {"t": "none"}, {"t": "bool", "v": True}, {"t": "bool", "v": False}, {"t": "nan"},
           {"t": "num", "v": "-1/10"}, {"t": "num", "v": "3/2"}]
BAD_PURITY = [{"t": "num", "v": "1/2"}, {"t": "num", "v": "3/10"}, {"t": "num", "v": "0"}]
# 50:50 splitter with Gaussian-rational entries (|u_ij|^2 = 1/2 exactly): the Hong-Ou-Mandel shape
HOM_PROG = [["new", "c1", 2], ["unitary", "u1", [["1/2,1/2", "1/2,-1/2"], ["1/2,-1/2", "1/2,1/2"]]],
            ["add", "c1", "u1", 0, False]]
WIRE_PROG = [["new", "c1", 1]]


def tri_prog(lossy: bool) -> list:
    prog = [["new", "c1", 3], cg.op_bs("c1", 0, 1, F(3, 5), F(4, 5)), cg.op_bs("c1", 1, 2, F(4, 5), F(3, 5))]
    if lossy:
        prog.append(cg.op_loss("c1", 1, F(4, 5), F(3, 5)))
    return prog


def attr_value(key: str, f: F, form: str = "float"):
    v = {"nu": float(f), "x": purity_of(f), "q": float(f * f), "thr": float(f)}[key]
    if form == "int" and v in (0.0, 1.0):
        return int(v)
    if form == "np":
        return np.float64(v)
    return v


def exact_attr(key: str, f: F) -> F:
    return {"nu": f, "x": 1 - 2 * f / (1 + f) ** 2, "q": f * f, "thr": f}[key]


def is_basic(par: dict) -> bool:
    return F(par["x"]) == 0 and F(par["q"]) == 1


def show_par(par: dict) -> str:
    nu, x, q, thr = par_vals(par)
    return (f"purity={purity_of(x)!r}, brightness={float(nu)!r}, indistinguishability={float(q * q)!r}, "
            f"probability_threshold={float(thr)!r}")


def hist_script(case: dict) -> list[str]:
    """the history as Python text (for the replay file)"""
    progs = case.get("progs") or [case["prog"]]
    out = ["c = c0 = <circuit built by case['prog']>"] + [f"c{k} = <circuit 'c1' built by case['progs'][{k}]>" for k in range(1, len(progs))]
    out.append("src = emulator.Source()" if case["ctor"] == "default" else f"src = emulator.Source({show_par(case['init'])})")
    for i, sp in enumerate(case["samplers"]):
        if sp["attach"] == "setter":
            out.append(f"s{i} = emulator.Sampler(c, lw.State({sp['input']}), backend={sp['backend']!r}); s{i}.source = src")
        else:
            out.append(f"s{i} = emulator.Sampler(c, lw.State({sp['input']}), source=src, backend={sp['backend']!r})")
    for k, st in enumerate(case["steps"]):
        if st["op"] == "set":
            tgt = "src" if st.get("via") is None else f"s{st['via']}.source"
            for key, val, form in st["set"]:
                out.append(f"{tgt}.{ATTR[key]} = {attr_value(key, F(val), form)!r}")
        elif st["op"] == "bad":
            out.append(f"src.{ATTR[st['attr']]} = {py_val(st['value'])!r}   # must be rejected and change nothing")
        elif st["op"] == "circuit":
            out.extend(f"s{i}.circuit = c{st['slot']}" for i in st["who"])
        elif st["op"] == "edit":
            out.append(f"<in place on c{st['slot']}: " + "; ".join(json.dumps(op) for op in st["ops"]) + ">")
        elif st["op"] == "input":
            out.append(f"s{st['who']}.input_state = lw.State({st['input']})")
        else:
            out.append(f"src = emulator.Source({show_par(st['par'])}); " + "; ".join(f"s{i}.source = src" for i in range(len(case["samplers"]))))
        out.extend(f"s{i}.input_state = lw.State({v})" for i, v in st.get("inputs", []))
        obs = [f"s{i}.probability_distribution" for i in st["use"]] + ([f"src.check_number(lw.State({case['state']}))"] if st["stats"] else [])
        out.append(f"observe[{k}]: " + (", ".join(obs) or "-"))
    return out


def stats_plain(stats: dict) -> dict:
    return {str(k): float(v) for k, v in stats.items()}


def dist_diff(a: dict, b: dict, tol: float):
    for s in set(a) | set(b):
        if abs(a.get(s, 0.0) - b.get(s, 0.0)) > tol:
            return s
    return None


class NotACase(Exception):
    """the (shrunk) history is not well formed: a step cannot be applied / input sizes do not match"""


class HistEnv:
    """the circuits of one history: slot k holds the live object built from case['progs'][k] (edited in place by
    'edit' steps, its program growing with it); sampler i currently holds the object of slot self.slot[i] and
    the input self.inp[i]"""

    def __init__(self, case: dict) -> None:
        progs = case.get("progs") or [case["prog"]]
        self.progs = [list(p) for p in progs]
        self.pools = [fg.build_impl(p) for p in self.progs]
        self.edited = [False] * len(progs)
        self.slot = [0] * len(case["samplers"])
        self.inp = [list(sp["input"]) for sp in case["samplers"]]
        self._rebuilt: dict = {}

    def circ(self, i: int):
        return self.pools[self.slot[i]].get("c1")

    def prog(self, i: int) -> list:
        return self.progs[self.slot[i]]

    def name(self, i: int) -> str:
        k = self.slot[i]
        return f"c{k}" + (" (edited in place)" if self.edited[k] else "")

    def rebuilt(self, i: int):
        """(circuit built anew from the current program of sampler i's circuit, its Ref, version key)"""
        vk = json.dumps(self.prog(i))
        if vk not in self._rebuilt:
            c = fg.build_impl(self.prog(i)).get("c1")
            if c is None or np.array(c.U_full).shape[0] > 9:
                raise NotACase
            self._rebuilt[vk] = (c, Ref(c, float(get_eps())))
        return (*self._rebuilt[vk], vk)


def hist_observe(ctx: Ctx, case: dict, env: HistEnv, src, samplers: list, step: dict, cur: dict, memo: dict, where: str) -> list[str]:
    """judge the observables of the long-lived objects at the current settings `cur` (and the current circuit
    and input of every Sampler)"""
    probs = check_par(cur)
    if probs:
        return probs
    nu, x, q, thr = par_vals(cur)
    eps = get_eps()
    pkey = (cur["nu"], cur["x"], cur["q"], cur["thr"])
    # the attributes read back what was last (successfully) assigned
    for key, a in ATTR.items():
        got = getattr(src, a)
        want = attr_value(key, F(cur[key]))
        if isinstance(got, bool) or got != want:
            probs.append(f"oracle: {where}: Source.{a} reads {got!r}, last value assigned {want!r}")
    if probs:
        return probs

    def reference(full_in: list[int]):
        k = ("ref", tuple(full_in), pkey)
        if k not in memo:
            memo[k] = apply_thr(ref_inputs(full_in, nu, x, q), thr)
        return memo[k]

    # ---- input statistics of the long-lived Source
    if step["stats"]:
        st = case["state"]
        ref, amb = reference(st)
        try:
            n_ll = src.check_number(lw.State(st))
            stats_ll = stats_plain(src._build_statistics(lw.State(st)))  # read-only diagnostic accessor
            err_ll = None
        except Exception as e:  # noqa: BLE001
            err_ll = exc_class(e)
        fresh = make_source(cur)
        try:
            n_fr = fresh.check_number(lw.State(st))
            stats_fr = stats_plain(fresh._build_statistics(lw.State(st)))
            err_fr = None
        except Exception as e:  # noqa: BLE001
            err_fr = exc_class(e)
        fresh_msg = None
        if err_ll != err_fr:
            fresh_msg = (f"oracle: {where}: check_number({st}) on the re-assigned Source {'raises ' + err_ll if err_ll else 'returns ' + str(n_ll)}, "
                         f"on a new Source({show_par(cur)}) {'raises ' + err_fr if err_fr else 'returns ' + str(n_fr)}")
        elif err_ll is None and (n_ll != n_fr or set(stats_ll) != set(stats_fr) or dist_diff(stats_ll, stats_fr, 1e-12) is not None):
            fresh_msg = (f"oracle: {where}: input statistics of {st} from the re-assigned Source ({n_ll} inputs) differ from those of a new "
                         f"Source({show_par(cur)}) ({n_fr} inputs): the source does not follow its current settings")
        if amb:
            ctx.count("ambiguous_source_threshold")
        elif ref is None and not INCLUDE_OVER_THRESHOLD:
            ctx.count("skipped:threshold_removes_all")
        elif ref is None:
            ctx.count("hist:threshold_removes_all")
            if err_ll != "ValueError":
                probs.append(f"oracle: {where}: probability_threshold={float(thr)} removes every input of {st}; the source must reject it "
                             f"(ValueError); the re-assigned Source {'raises ' + err_ll if err_ll else 'returns ' + str(n_ll) + ' inputs'}")
        elif err_ll:
            probs.append(f"oracle: {where}: check_number raised {err_ll} on a valid source/state")
        else:
            tot = sum(stats_ll.values())
            if abs(tot - 1) > 1e-9:
                probs.append(f"oracle: {where}: input statistics sum to {tot!r}")
            if any(p < 0 for p in stats_ll.values()):
                probs.append(f"oracle: {where}: negative input probability")
            if (not is_basic(cur) or nu > 0) and n_ll != len(ref):
                probs.append(f"oracle: {where}: check_number = {n_ll} with {show_par(cur)}, but {len(ref)} distinct photon partitions of "
                             f"{st} have positive probability")
        if fresh_msg:
            probs.append(fresh_msg)
        if not amb and (ref is not None or INCLUDE_OVER_THRESHOLD):
            k = ("mstats", tuple(st), pkey)
            if k not in memo:
                memo[k] = ctx.model.call({"op": "c06", "what": "stats", "state": st, **par_req(cur)})
            m = memo[k]
            if "error_class" in m:
                if err_ll != m["error_class"] and not probs:
                    probs.append(f"corr: {where}: check_number impl={err_ll or n_ll} model={m['error_class']}")
            elif err_ll:
                if not probs:
                    probs.append(f"corr: {where}: check_number impl raised {err_ll}, model n={m['n']}")
            elif n_ll != m["n"]:
                probs.append(f"corr: {where}: check_number impl={n_ll} model={m['n']}")
        if probs:
            return probs

    # ---- distributions of the long-lived Samplers
    for i in step["use"]:
        if i >= len(samplers):
            continue
        sp = case["samplers"][i]
        b, inp = sp["backend"], env.inp[i]
        c, r, vk = env.rebuilt(i)
        if c.input_modes != len(inp):
            raise NotACase
        tag = f"{where}, sampler {i} [{b}]" + (f" circuit {env.name(i)}" if len(env.progs) > 1 or any(env.edited) else "") + f" input {inp}"
        full_in = fg.add_heralds(inp, c.heralds["input"])
        inputs, amb = reference(full_in)
        try:
            d = {tuple(s.s): float(p) for s, p in samplers[i].probability_distribution.items()}
            err = None
        except Exception as e:  # noqa: BLE001
            d, err = None, exc_class(e)
        try:
            fr = impl_dist(c, inp, make_source(cur), b)
            ferr = None
        except Exception as e:  # noqa: BLE001
            fr, ferr = None, exc_class(e)
        if err != ferr:
            probs.append(f"oracle: {tag}: the long-lived Sampler {'raises ' + err if err else 'returns a distribution'}, a new Sampler with a new "
                         f"Source({show_par(cur)}) {'raises ' + ferr if ferr else 'returns a distribution'}")
            return probs
        if amb:
            ctx.count("ambiguous_source_threshold")
        if inputs is None and not amb:
            if not INCLUDE_OVER_THRESHOLD:
                ctx.count("skipped:threshold_removes_all")
                continue
            ctx.count("hist:threshold_removes_all")
            if err != "ValueError":
                probs.append(f"oracle: {tag}: probability_threshold={float(thr)} removes every source input of {full_in}; must be rejected "
                             f"(ValueError); the long-lived Sampler {'raises ' + err if err else 'returns a distribution'}")
                return probs
        elif err and not amb:
            probs.append(f"oracle: {tag}: Sampler.probability_distribution raised {err} on a valid configuration ({show_par(cur)})")
            return probs
        if d is not None:
            slack = 0.0
            if inputs is not None and not amb:
                k = ("mix", vk, tuple(full_in), pkey)
                if k not in memo:
                    memo[k] = r.mixture(inputs)
                ref = memo[k]
                slack = r.dropped * max(1, len(full_in)) * 2
                if slack:
                    ctx.count("backend_truncation_active")
                tot = sum(d.values())
                if any(p < -1e-15 for p in d.values()):
                    probs.append(f"oracle: {tag}: negative probability")
                if not (1 - 1e-9 - slack <= tot <= 1 + 1e-9):
                    probs.append(f"oracle: {tag}: output distribution sums to {tot!r}")
                s = dist_diff(d, ref, 1e-9 + slack)
                if s is not None:
                    same = "the same" if dist_diff(d, fr, 1e-9 + slack) is None else f"{fr.get(s, 0.0):.10g}"
                    probs.append(f"oracle: {tag}: with the source now set to {show_par(cur)} and the full input (with the heralds of the "
                                 f"current circuit) {full_in}, P{list(s)} = {d.get(s, 0.0):.10g} but the mixture "
                                 f"over per-photon emission outcomes of the independent group distributions gives {ref.get(s, 0.0):.10g} "
                                 f"(a new Sampler with a new Source of these settings gives {same})")
                if probs:
                    return probs
                # special settings, evaluated on the long-lived objects
                if thr == 0 and nu == 1 and x == 0 and q == 1:
                    ctx.count("clause:perfect_reduces_to_ideal")
                    ideal = r.group(tuple(full_in))
                    s = dist_diff(d, ideal, 1e-9 + slack)
                    if s is not None:
                        probs.append(f"oracle: {tag}: source set (back) to perfect: P{list(s)} = {d.get(s, 0.0):.10g}, ideal source "
                                     f"{ideal.get(s, 0.0):.10g}")
                        return probs
                if thr == 0 and nu > 0 and c.n_modes == 1 and full_in == [1] and r.nl == 0:
                    ctx.count("clause:g2_on_long_lived")
                    p1, p2 = d.get((1,), 0.0), d.get((2,), 0.0)
                    g2 = 2 * p2 / (p1 + 2 * p2) ** 2
                    if abs(g2 - (1 - purity_of(x))) > 1e-9:
                        probs.append(f"oracle: {tag}: g2 of the emitted photon-number statistics = {g2!r}, 1 - purity = {1 - purity_of(x)!r}")
                        return probs
                if thr == 0 and x == 0 and nu > 0 and c.n_modes == 2 and full_in == [1, 1] and \
                        r.group((1, 1)).get((1, 1), 0.0) < 1e-12:
                    k0 = ("mix0", vk, pkey)
                    if k0 not in memo:
                        memo[k0] = r.mixture(ref_inputs(full_in, nu, x, F(0))).get((1, 1), 0.0)
                    pc0 = memo[k0]
                    if pc0 > 1e-6:
                        ctx.count("clause:hom_on_long_lived")
                        vis = 1 - d.get((1, 1), 0.0) / pc0
                        if abs(vis - float(q * q)) > 1e-9 / pc0:
                            probs.append(f"oracle: {tag}: Hong-Ou-Mandel visibility = {vis!r}, indistinguishability = {float(q * q)!r}")
                            return probs
            s = dist_diff(d, fr, 1e-9 + slack)
            if s is not None:
                probs.append(f"oracle: {tag}: P{list(s)} = {d.get(s, 0.0):.10g} on the long-lived Sampler, {fr.get(s, 0.0):.10g} on a new Sampler "
                             f"with a new Source({show_par(cur)}): the result does not follow the current settings")
                return probs
        if amb:
            continue
        # correspondence with the exact model at the current settings
        k = ("mdist", vk, tuple(inp), b, pkey)
        if k not in memo:
            memo[k] = ctx.model.call({"op": "c06", "what": "dist", "prog": env.prog(i), "id": "c1", "input": inp, "backend": b,
                                      "eps": frac_str(eps), **par_req(cur)})
        m = memo[k]
        if "error_class" in m:
            if err != m["error_class"]:
                probs.append(f"corr: {tag}: model rejects the configuration ({m['error_class']}), implementation: {err or 'accepts'}")
                return probs
            continue
        if err:
            probs.append(f"corr: {tag}: implementation raised {err}, model accepts")
            return probs
        md = {tuple(s): F(p) for s, p in m["pdist"]}
        ex = {tuple(s): F(p) for s, p in m["pdist_exact"]}
        for s in set(d) | set(md) | set(ex):
            pi = d.get(s, 0.0)
            lo = float(min(md.get(s, 0), ex.get(s, 0)))
            hi = float(max(md.get(s, 0), ex.get(s, 0)))
            if not (lo - 1e-9 <= pi <= hi + 1e-9):
                probs.append(f"corr: {tag}: P{list(s)} impl={pi:.12g} model={float(md.get(s, 0)):.12g} (untruncated {float(ex.get(s, 0)):.12g})")
                return probs
    return probs


def run_hist(ctx: Ctx, case: dict) -> list[str]:
    try:
        return run_hist_steps(ctx, case)
    except NotACase:
        return []  # shrinking produced a history that cannot be played: not a case


def assign_inputs(env: HistEnv, samplers: list, pairs: list, where: str) -> list[str]:
    for i, inp in pairs:
        if i >= len(samplers):
            continue
        if env.circ(i) is None or env.circ(i).input_modes != len(inp):
            raise NotACase
        try:
            samplers[i].input_state = lw.State(inp)
        except Exception as e:  # noqa: BLE001
            return [f"oracle: {where}: assigning the valid input {inp} to Sampler.input_state raised {exc_class(e)}"]
        env.inp[i] = list(inp)
    return []


def run_hist_steps(ctx: Ctx, case: dict) -> list[str]:
    env = HistEnv(case)
    c = env.pools[0].get("c1")
    if c is None:
        return []
    if any(c.input_modes != len(sp["input"]) for sp in case["samplers"]):
        return []  # shrinking changed the circuit's input size: not a case
    cur = dict(case["init"])
    probs = check_par(cur)
    if probs:
        return probs
    src = emulator.Source() if case["ctor"] == "default" else make_source(cur)
    samplers = []
    for sp in case["samplers"]:
        if sp["attach"] == "setter":
            s = emulator.Sampler(c, lw.State(sp["input"]), backend=sp["backend"])
            s.source = src
        else:
            s = emulator.Sampler(c, lw.State(sp["input"]), source=src, backend=sp["backend"])
        samplers.append(s)
    memo: dict = {}
    for k, step in enumerate(case["steps"]):
        where = f"step {k}"
        if step["op"] == "set":
            via = step.get("via")
            target = samplers[via].source if via is not None and via < len(samplers) else src
            for key, val, form in step["set"]:
                v = attr_value(key, F(val), form)
                try:
                    setattr(target, ATTR[key], v)
                except Exception as e:  # noqa: BLE001
                    return [f"oracle: {where}: assigning the valid value {v!r} to Source.{ATTR[key]} raised {exc_class(e)}"]
                cur[key] = val
            where += " after " + (", ".join(f"{ATTR[key]} = {attr_value(key, F(val), form)!r}" for key, val, form in step["set"]) or "no change")
            if via is not None and step["set"]:
                where += f" (assigned through sampler {via}.source)"
        elif step["op"] == "bad":
            a, bv = step["attr"], step["value"]
            try:
                setattr(src, ATTR[a], py_val(bv))
                impl = "ok"
            except Exception as e:  # noqa: BLE001
                impl = exc_class(e)
            names = {"x": "purity", "nu": "brightness", "q": "indist", "thr": "thr"}
            req = {names[key]: frac_str(exact_attr(key, F(cur[key]))) for key in ATTR}
            req[names[a]] = drv_val(bv)
            mod = ctx.model.call({"op": "c06", "what": "validate", **req}).get("error_class", "ok")
            ctx.count("hist:rejected:" + mod)
            if impl != mod:
                return [f"corr: {where}: Source.{ATTR[a]} = {py_val(bv)!r} impl={impl} model={mod}"]
            if mod == "ok":
                return []  # not a rejected assignment (never generated)
            where += f" after the rejected assignment {ATTR[a]} = {py_val(bv)!r}"
        elif step["op"] == "circuit":
            # Sampler.circuit = the (long-lived) object of another slot; the input is kept unless listed
            ks = step["slot"]
            if ks >= len(env.pools) or env.pools[ks].get("c1") is None:
                raise NotACase
            obj = env.pools[ks]["c1"]
            who = [i for i in step["who"] if i < len(samplers)]
            for i in who:
                try:
                    samplers[i].circuit = obj
                except Exception as e:  # noqa: BLE001
                    return [f"oracle: {where}: assigning a Circuit to Sampler.circuit raised {exc_class(e)}"]
                env.slot[i] = ks
            where += f" after sampler {who}.circuit = c{ks}" + (" (edited in place)" if env.edited[ks] else "")
            probs = assign_inputs(env, samplers, step.get("inputs", []), where)
            if probs:
                return probs
            if step.get("inputs"):
                where += ", input_state = " + ", ".join(str(v) for _, v in step["inputs"])
        elif step["op"] == "edit":
            # the circuit object of a slot (held by Samplers or not) is changed in place
            ks = step["slot"]
            if ks >= len(env.pools):
                raise NotACase
            for op in step["ops"]:
                if not cg.well_formed(env.progs[ks] + [op]) or cg.apply_op(env.pools[ks], op) != "ok":
                    raise NotACase
                env.progs[ks].append(op)
            env.edited[ks] = True
            where += f" after editing c{ks} in place (" + ", ".join(describe_op(op) for op in step["ops"] if op[1] == "c1") + ")"
            probs = assign_inputs(env, samplers, step.get("inputs", []), where)
            if probs:
                return probs
            if step.get("inputs"):
                where += ", input_state = " + ", ".join(str(v) for _, v in step["inputs"])
        elif step["op"] == "input":
            where += f" after sampler {step['who']}.input_state = {step['input']}"
            probs = assign_inputs(env, samplers, [[step["who"], step["input"]]], where)
            if probs:
                return probs
        else:
            cur = dict(step["par"])
            src = make_source(cur)
            for s in samplers:
                s.source = src
            where += " after Sampler.source = new Source"
        probs = hist_observe(ctx, case, env, src, samplers, step, cur, memo, where)
        if probs:
            return probs
    return probs


# --------------------------------------------------------------------------- worlds of Samplers with a Source of their own
#
#   case = {"kind": "own", "prog": .., "samplers": [{"backend": b, "input": [..], "form": form, ["par": par]}, ..],
#           "state": [..], "steps": [step, ..]}
#   form = "omit" (Sampler(c, s, backend=b)) | "none" (source=None) | "pos" (Sampler(c, s, None, None, b))
#        | "default_obj" (source=Source()) | "kwargs" (source=Source(**par))
#   step = {"op": "new", "who": i}                                    sampler i is created (its form says how)
#        | {"op": "tune", "who": i, "set": [[key, "p/q", form], ..]}   sampler_i.source.<attr> = v   (IN PLACE, its own Source)
#        | {"op": "none", "who": i}                                   sampler_i.source = None        (back to a default)
#        | {"op": "replace", "who": i, "par": par}                    sampler_i.source = Source(**par)
#        | {"op": "obs", "who": [i, ..], "stats": bool}               judge these Samplers at their RECORDED settings
# A step that names a Sampler which does not exist (yet) is skipped, so every sub-list of steps is a world.

OWN_FORMS = ("omit", "none", "pos", "default_obj", "kwargs")
OWN_DEFAULT_FORMS = ("omit", "none", "pos")
OWN_FORM_TEXT = {"omit": "created without a source argument", "none": "created with source=None", "pos": "created with None at the "
                 "position of the source", "default_obj": "created with source=Source()", "kwargs": "created with an explicit Source"}


def own_sampler(c, sp: dict):
    st, b, form = lw.State(sp["input"]), sp["backend"], sp["form"]
    if form == "omit":
        return emulator.Sampler(c, st, backend=b)
    if form == "none":
        return emulator.Sampler(c, st, source=None, backend=b)
    if form == "pos":
        return emulator.Sampler(c, st, None, None, b)
    if form == "default_obj":
        return emulator.Sampler(c, st, source=emulator.Source(), backend=b)
    return emulator.Sampler(c, st, source=make_source(sp["par"]), backend=b)


def own_pristine_start() -> None:
    """every world is an experiment of its own (and a shrunk world replays in a new process): whatever an earlier world of
    this process did to a source that the library shares between objects is undone through the same public accessors,
    on new default Samplers of every call form.  If default sources are per object this touches throw-away objects."""
    c = lw.Circuit(1)
    for form in OWN_DEFAULT_FORMS:
        src = own_sampler(c, {"input": [1], "backend": "permanent", "form": form}).source
        src.purity, src.brightness, src.indistinguishability, src.probability_threshold = 1, 1, 1, 0


def own_script(case: dict) -> list[str]:
    out = ["c = <circuit built by case['prog']>"]
    mk = {"omit": "", "none": "source=None, ", "pos": "None, None, ", "default_obj": "source=emulator.Source(), "}
    for k, st in enumerate(case["steps"]):
        i = st.get("who")
        if st["op"] == "new":
            sp = case["samplers"][i]
            a = mk.get(sp["form"], f"source=emulator.Source({show_par(sp['par'])}), " if sp["form"] == "kwargs" else "")
            b = repr(sp["backend"]) if sp["form"] == "pos" else f"backend={sp['backend']!r}"
            out.append(f"s{i} = emulator.Sampler(c, lw.State({sp['input']}), {a}{b})")
        elif st["op"] == "tune":
            out.extend(f"s{i}.source.{ATTR[key]} = {attr_value(key, F(val), form)!r}" for key, val, form in st["set"])
        elif st["op"] == "none":
            out.append(f"s{i}.source = None")
        elif st["op"] == "replace":
            out.append(f"s{i}.source = emulator.Source({show_par(st['par'])})")
        else:
            obs = [f"s{j}.probability_distribution" for j in i] + ([f"s{j}.source.check_number(lw.State({case['state']}))" for j in i] if st["stats"] else [])
            out.append(f"observe[{k}]: " + ", ".join(obs))
    return out


def run_own(ctx: Ctx, case: dict) -> list[str]:
    try:
        return run_own_steps(ctx, case)
    except NotACase:
        return []
    finally:
        own_pristine_start()


def run_own_steps(ctx: Ctx, case: dict) -> list[str]:
    own_pristine_start()
    env = HistEnv(case)
    c = env.pools[0].get("c1")
    if c is None or any(c.input_modes != len(sp["input"]) for sp in case["samplers"]):
        return []
    n = len(case["samplers"])
    samplers: list = [None] * n
    want: list = [None] * n          # the harness's record: the settings sampler i's source was given
    story: list = [""] * n           # ... and how
    tuned: list = []                 # Samplers whose own source was tuned in place so far
    memo: dict = {}

    def label(i: int) -> str:
        others = [j for j in tuned if j != i]
        return (f"sampler {i} ({story[i]}" + (f"; the sources of OTHER samplers {others} were tuned in place" if others else "") + ")")

    def cross_check(where: str) -> list[str]:
        """the attributes of EVERY Sampler's source read what the harness recorded for that Sampler"""
        for i, sm in enumerate(samplers):
            if sm is None:
                continue
            for key, a in ATTR.items():
                got, w = getattr(sm.source, a), attr_value(key, F(want[i][key]))
                if isinstance(got, bool) or got != w:
                    return [f"oracle: {where}: settings of an object changed without being assigned: {label(i)} reports "
                            f"source.{a} = {got!r}, the value given to THIS sampler's source is {w!r}: a source that the library "
                            f"made for one Sampler is used by another"]
        return []

    for k, step in enumerate(case["steps"]):
        op, i = step["op"], step.get("who")
        where = f"step {k}"
        if op != "obs" and (not isinstance(i, int) or i >= n or (samplers[i] is None) != (op == "new")):
            continue
        if op == "new":
            sp = case["samplers"][i]
            try:
                samplers[i] = own_sampler(c, sp)
            except Exception as e:  # noqa: BLE001
                return [f"oracle: {where}: creating a Sampler ({OWN_FORM_TEXT[sp['form']]}) raised {exc_class(e)}"]
            want[i] = dict(sp["par"]) if sp["form"] == "kwargs" else dict(PERFECT)
            story[i] = OWN_FORM_TEXT[sp["form"]] + (" after that" if tuned else "")
            where += f" after sampler {i} was {OWN_FORM_TEXT[sp['form']]}"
        elif op == "tune":
            for key, val, form in step["set"]:
                v = attr_value(key, F(val), form)
                try:
                    setattr(samplers[i].source, ATTR[key], v)
                except Exception as e:  # noqa: BLE001
                    return [f"oracle: {where}: sampler {i}.source.{ATTR[key]} = {v!r} (a valid value) raised {exc_class(e)}"]
                want[i][key] = val
            if step["set"] and i not in tuned:
                tuned.append(i)
            if step["set"]:
                story[i] += ", then tuned in place through its accessor"
            where += f" after sampler {i}.source." + ", ".join(f"{ATTR[key]} = {attr_value(key, F(val), form)!r}" for key, val, form in step["set"])
        elif op == "none":
            try:
                samplers[i].source = None
            except Exception as e:  # noqa: BLE001
                return [f"oracle: {where}: sampler {i}.source = None raised {exc_class(e)}"]
            want[i] = dict(PERFECT)
            story[i] += ", then put back on a default by source = None"
            where += f" after sampler {i}.source = None"
        elif op == "replace":
            want[i] = dict(step["par"])
            probs = check_par(want[i])
            if probs:
                return probs
            samplers[i].source = make_source(want[i])
            story[i] += ", then given a new explicit Source"
            where += f" after sampler {i}.source = Source({show_par(want[i])})"
        probs = cross_check(where)
        if probs:
            return probs
        if op == "obs":
            for j in step["who"]:
                if j >= n or samplers[j] is None:
                    continue
                probs = hist_observe(ctx, case, env, samplers[j].source, samplers, {"use": [j], "stats": step["stats"]},
                                     want[j], memo, f"{where}: {label(j)}")
                if probs:
                    return probs
    return []


def gen_own(ctx: Ctx, rng):
    cap = 4 if ctx.thorough else 3
    r0 = rng.random()
    if r0 < 0.2:
        prog, inp = HOM_PROG, [1, 1]
    elif r0 < 0.28:
        prog, inp = WIRE_PROG, rng.choice([[1], [1], [2]])
    elif r0 < 0.45:
        prog = tri_prog(rng.random() < 0.5)
        inp = fg.rand_state(rng, 3, rng.choice([1, 2, 2, 3]))
    else:
        prog = fg.gen_circuit(ctx, rng, max_depth=2, max_n=4, max_herald_photons=1)
        inp = None
    c = fg.build_impl(prog).get("c1")
    if c is None or c.input_modes == 0 or np.array(c.U_full).shape[0] > 8:
        return None
    hp = fg.herald_photons(c)
    if hp > cap - 1:
        return None
    if inp is None:
        inp = fg.rand_state(rng, c.input_modes, max(0, min(rng.choice([1, 2, 2, 3]), cap - hp)))
    n = rng.choice([2, 3, 3, 4, 5])
    samplers = []
    # most Samplers of a world are created in the same way (a default that is shared per call form shows only between those)
    main_form = rng.choice(["omit", "omit", "none", "none", "pos", "default_obj"])
    for i in range(n):
        form = main_form if rng.random() < 0.6 else rng.choice(["omit", "omit", "none", "none", "pos", "default_obj", "kwargs"])
        sp = {"backend": rng.choice(["permanent", "slos"]), "form": form,
              "input": inp if rng.random() < 0.7 else fg.rand_state(rng, c.input_modes, max(0, min(rng.choice([1, 2, 3]), cap - hp)))}
        if form == "kwargs":
            sp["par"] = gen_par(rng, thr=False, edge=0.1)
        samplers.append(sp)
    if samplers[0]["form"] == "kwargs" and rng.random() < 0.8:
        samplers[0] = {k: v for k, v in samplers[0].items() if k != "par"} | {"form": rng.choice(OWN_DEFAULT_FORMS)}
    grids = {"nu": NU, "x": X, "q": QS, "thr": THR}

    def tune(i):
        keys = rng.sample(["nu", "x", "q", "q", "nu", "thr"], rng.choice([1, 1, 2, 3]))
        return {"op": "tune", "who": i, "set": [[key, frac_str(rng.choice([v for v in grids[key] if v != F(PERFECT[key])])),
                                                 rng.choice(["float", "float", "np"])] for key in dict.fromkeys(keys)]}

    def obs(who):
        return {"op": "obs", "who": list(who), "stats": rng.random() < 0.4}

    made = [0] + ([1] if rng.random() < 0.7 else [])
    steps = [{"op": "new", "who": i} for i in made]
    if rng.random() < 0.5:
        steps.append(obs(made))
    steps.append(tune(0))
    for _ in range(rng.randint(2, 6)):
        r = rng.random()
        j = rng.choice(made)
        if r < 0.35 and len(made) < n:
            made.append(len(made))
            steps += [{"op": "new", "who": made[-1]}, obs([made[-1]])]
        elif r < 0.55:
            steps.append(tune(j))
        elif r < 0.7:
            steps.append({"op": "none", "who": j})
        elif r < 0.78:
            steps.append({"op": "replace", "who": j, "par": gen_par(rng, thr=False, edge=0.1) if rng.random() < 0.7 else dict(PERFECT)})
        steps.append(obs(rng.sample(made, min(len(made), rng.randint(1, 2)))))
    steps.append(obs(made))
    return {"kind": "own", "prog": prog, "samplers": samplers, "state": fg.add_heralds(inp, c.heralds["input"]) if rng.random() < 0.6 else gen_state(rng, 4, 3),
            "steps": steps, "photons": max(sum(sp["input"]) for sp in samplers) + hp}


def own_corpus() -> list[dict]:
    """directed worlds that always run first"""
    def new(i):
        return {"op": "new", "who": i}

    def tune(i, sets):
        return {"op": "tune", "who": i, "set": [[k, v, "float"] for k, v in sets]}

    def obs(who, stats=False):
        return {"op": "obs", "who": list(who), "stats": stats}

    def smp(form, inp, b="permanent", par=None):
        return {"backend": b, "input": inp, "form": form, **({"par": par} if par else {})}

    imp = {"nu": "3/4", "x": "1/10", "q": "3/5", "thr": "0"}
    out = []
    # Hong-Ou-Mandel: a bystander created before, one created after, one put back on a default; every call form
    for i, form in enumerate(OWN_DEFAULT_FORMS):
        f2, f3 = OWN_DEFAULT_FORMS[(i + 1) % 3], OWN_DEFAULT_FORMS[(i + 2) % 3]
        out.append({"kind": "own", "prog": HOM_PROG, "state": [1, 1], "photons": 2,
                    "samplers": [smp(form, [1, 1]), smp(f2, [1, 1], "slos"), smp(f3, [1, 1]), smp(form, [1, 1], "slos"), smp("kwargs", [1, 1], par=imp)],
                    "steps": [new(0), new(1), obs([0, 1], True), tune(0, [["nu", "1/2"], ["q", "3/5"]]), obs([1, 0], True), new(2), obs([2], True),
                              new(3), obs([3]), new(4), obs([4]), {"op": "none", "who": 4}, obs([4], True), tune(1, [["x", "1/10"]]),
                              {"op": "none", "who": 0}, obs([0, 1, 2, 3, 4])]})
    # the very first Sampler of the world is tuned before anything is read; all later ones are perfect
    for i, form in enumerate(OWN_DEFAULT_FORMS):
        out.append({"kind": "own", "prog": tri_prog(i == 1), "state": [1, 0, 1], "photons": 2,
                    "samplers": [smp(form, [1, 1, 0], "slos")] + [smp(f, [1, 0, 1], ["permanent", "slos"][j % 2]) for j, f in enumerate(OWN_FORMS[:4])],
                    "steps": [new(0), tune(0, [[["q", "1/2"], ["x", "1/3"], ["nu", "9/10"]][i]]), new(1), new(2), new(3), new(4),
                              obs([1, 2, 3, 4], True), obs([0])]})
    # one emitter: g2 of a default source stays 0 while another default source is made impure; explicit Source() objects too
    out.append({"kind": "own", "prog": WIRE_PROG, "state": [1], "photons": 1,
                "samplers": [smp("default_obj", [1]), smp("omit", [1]), smp("default_obj", [1], "slos"), smp("none", [1], "slos"),
                             smp("omit", [1], "slos"), smp("none", [1])],
                "steps": [new(0), new(1), tune(0, [["x", "1/10"], ["nu", "3/4"]]), obs([1, 0], True), new(2), new(3), obs([2, 3], True),
                          tune(3, [["x", "1/3"]]), obs([0, 1, 2, 3]), tune(1, [["x", "1/20"]]), new(4), new(5), obs([4, 5, 2], True), obs([1, 3])]})
    # a threshold / brightness tuned on one default source does not prune the inputs of another
    for form in OWN_DEFAULT_FORMS:
        out.append({"kind": "own", "prog": HOM_PROG, "state": [1, 1], "photons": 2,
                    "samplers": [smp(form, [1, 1]), smp(form, [1, 1]), smp(form, [1, 1], "slos")],
                    "steps": [new(0), new(1), obs([0, 1]), tune(0, [["nu", "3/4"], ["thr", "1/7"]]), obs([1, 0], True), new(2), obs([2], True),
                              tune(0, [["thr", "9/10"]]), obs([1, 2])]})
    return out


def own_branches(ctx: Ctx, case: dict) -> bool:
    made: set = set()
    tuned: set = set()
    seen_other = False
    for st in case["steps"]:
        i = st.get("who")
        if st["op"] == "new" and i not in made and i < len(case["samplers"]):
            made.add(i)
            form = case["samplers"][i]["form"]
            ctx.count(f"own:new:{form}" + (":after_a_tuning" if tuned else ""))
        elif st["op"] == "tune" and i in made:
            tuned.add(i)
            for key, _, _ in st["set"]:
                ctx.count("own:tuned_in_place:" + ATTR[key])
        elif st["op"] in ("none", "replace") and i in made:
            ctx.count("own:source_set_to_None" if st["op"] == "none" else "own:source_replaced")
            if st["op"] == "none" and tuned - {i}:
                ctx.count("own:source_set_to_None_after_another_was_tuned")
        elif st["op"] == "obs":
            for j in st["who"]:
                if j in made:
                    other = bool(tuned - {j})
                    seen_other = seen_other or other
                    ctx.count("own:observe:" + ("tuned_itself" if j in tuned else "untouched") + (":others_tuned" if other else ""))
    ctx.count(f"own:samplers={len(made)}")
    return len(made) >= 2 and seen_other


def describe_op(op: list) -> str:
    if op[0] == "add":
        return f"add({op[2]}, {op[3]}, group={op[4]})"
    if op[0] == "herald":
        return f"herald({op[2]}, {op[3]}, {op[4]})"
    return op[0]


def gen_steps(rng, init: dict, nsamp: int, n_steps: int) -> list[dict]:
    cur = dict(init)
    steps: list[dict] = []
    grids = {"nu": NU, "x": X, "q": QS, "thr": THR}

    def other(key):
        for _ in range(20):
            v = frac_str(rng.choice(grids[key]))
            if v != cur[key]:
                return v
        return cur[key]

    def form():
        return rng.choice(["float", "float", "float", "int", "np"])

    for k in range(n_steps):
        use = [i for i in range(nsamp) if rng.random() < 0.8]
        stats = rng.random() < 0.5 or nsamp == 0
        if k == n_steps - 1:
            use, stats = list(range(nsamp)), True
        r0 = rng.random()
        if k == 0 and r0 < 0.5:
            steps.append({"op": "set", "set": [], "use": use, "stats": stats})  # use before any change
            continue
        if r0 < 0.08:
            a = rng.choice(list(ATTR))
            steps.append({"op": "bad", "attr": a, "value": rng.choice(BAD_ANY + (BAD_PURITY if a == "x" else [])), "use": use,
                          "stats": stats})
            continue
        if r0 < 0.14 and nsamp:
            cur = gen_par(rng) if rng.random() < 0.7 else dict(PERFECT)
            steps.append({"op": "replace", "par": dict(cur), "use": use, "stats": stats})
            continue
        if r0 < 0.24:  # repeated use without any change
            steps.append({"op": "set", "set": [], "use": use if rng.random() < 0.5 else list(range(nsamp)), "stats": stats})
            continue
        r1 = rng.random()
        sets = []
        if r1 < 0.25 and not is_basic(cur):  # (back) to perfect purity / indistinguishability
            keys = [key for key in ("x", "q") if cur[key] != PERFECT[key]]
            if rng.random() < 0.5:
                keys += [key for key in ("nu", "thr") if cur[key] != PERFECT[key]]
            rng.shuffle(keys)
            sets = [[key, PERFECT[key], form()] for key in keys]
        elif r1 < 0.65:  # a single attribute
            key = rng.choice(["nu", "x", "q", "thr", "x", "q"])
            sets = [[key, other(key), form()]]
        else:  # several attributes, in random order; an attribute may be assigned twice
            keys = rng.sample(list(ATTR), rng.randint(2, 4))
            if rng.random() < 0.2:
                keys.append(rng.choice(keys))
            sets = [[key, other(key), form()] for key in keys]
        for key, val, _ in sets:
            cur[key] = val
        step = {"op": "set", "set": sets, "use": use, "stats": stats}
        if nsamp and rng.random() < 0.25:
            step["via"] = rng.randrange(nsamp)
        steps.append(step)
    return steps


def gen_hist(ctx: Ctx, rng):
    cap = 4 if ctx.thorough else 3  # purity may drop below 1 at any step: every photon may bring a noise photon
    r0 = rng.random()
    if r0 < 0.15:
        prog, inp = HOM_PROG, [1, 1]
    elif r0 < 0.22:
        prog, inp = WIRE_PROG, rng.choice([[1], [1], [2]])
    elif r0 < 0.30:
        prog = tri_prog(rng.random() < 0.5)
        inp = fg.rand_state(rng, 3, rng.choice([1, 2, 2, 3]))
    else:
        prog = fg.gen_circuit(ctx, rng, max_depth=2, max_n=4, max_herald_photons=1)
        inp = None
    pool = fg.build_impl(prog)
    c = pool.get("c1")
    if c is None or c.input_modes == 0 or np.array(c.U_full).shape[0] > 8:
        return None
    hp = fg.herald_photons(c)
    if hp > cap - 1:
        return None
    if inp is None:
        inp = fg.rand_state(rng, c.input_modes, max(0, min(rng.choice([1, 2, 2, 3, 3]), cap - hp)))
    init = dict(PERFECT) if rng.random() < 0.45 else gen_par(rng)
    ctor = "default" if init == PERFECT and rng.random() < 0.6 else "kwargs"
    ns = rng.choice([0, 1, 1, 2, 2, 2])
    samplers = []
    for i in range(ns):
        inp_i = inp
        if i == 1 and rng.random() < 0.5:  # the second consumer of the shared Source has its own input
            inp_i = fg.rand_state(rng, c.input_modes, max(0, min(rng.choice([1, 2, 3]), cap - hp)))
        samplers.append({"backend": rng.choice(["permanent", "slos"]), "input": inp_i,
                         "attach": "setter" if rng.random() < 0.2 else "ctor"})
    if ns == 2 and samplers[0]["input"] == samplers[1]["input"] and rng.random() < 0.7:
        samplers[1]["backend"] = "slos" if samplers[0]["backend"] == "permanent" else "permanent"
    state = fg.add_heralds(inp, c.heralds["input"]) if rng.random() < 0.6 else gen_state(rng, 5, 3)
    steps = gen_steps(rng, init, ns, rng.randint(2, 5))
    return {"kind": "hist", "prog": prog, "ctor": ctor, "init": init, "samplers": samplers, "state": state, "steps": steps,
            "photons": max([sum(sp["input"]) for sp in samplers] + [0]) + hp}


# ---- circuit dimension of the histories -------------------------------------------------------------------

MIX = [(c, s) for c, s in PYTH if c != 0 and s != 0]
# herald photon numbers of one circuit variant (each entry = one heralded mode)
HERALD_SPECS = [[], [], [0], [1], [1], [2], [0, 1], [1, 0], [1, 1], [0, 0], [2, 0], [0, 2]]


def heralded_gate(rng, sid: str, ks: list[int]) -> list:
    """program of a small sub-circuit `sid` with len(ks) heralded modes (photon numbers ks) and ONE free mode"""
    n = len(ks) + 1
    ops = [["new", sid, n]]
    for a in range(n - 1):
        c, s = rng.choice(MIX)
        ops.append(cg.op_bs(sid, a, a + 1, c, s, rng.choice(["Rx", "H"])))
    ins = rng.sample(range(n), len(ks))
    outs = list(ins) if rng.random() < 0.5 else rng.sample(range(n), len(ks))
    ops += [["herald", sid, k, i, o] for k, i, o in zip(ks, ins, outs)]
    return ops


def variant_prog(rng, m: int, spec: list[int], lossy: bool):
    """program of a circuit 'c1' with m input modes whose input heralds carry the photon numbers `spec`; every
    heralded mode is declared on the circuit itself (any input / output mode) or comes with a heralded gate
    added to it (grouped or not).  Returns (prog, meta)"""
    own = [k for k in spec if rng.random() < 0.6]
    sub = list(spec)
    for k in own:
        sub.remove(k)
    n = m + len(own)
    body: list = []
    if n >= 2:
        a, b = rng.sample(range(n), 2)
        c, s = rng.choice(MIX)
        body.append(cg.op_bs("c1", a, b, c, s, rng.choice(["Rx", "H"])))
    for _ in range(rng.randint(0, 2)):
        body.append(cg.rand_prim_op(rng, "c1", n, allow_loss=lossy))
    ins = rng.sample(range(n), len(own))
    outs = list(ins) if rng.random() < 0.5 else rng.sample(range(n), len(own))
    for k, i, o in zip(own, ins, outs):
        body.insert(rng.randint(0, len(body)), ["herald", "c1", k, i, o])
    pre: list = []
    for j, k in enumerate(sub):
        pre += heralded_gate(rng, f"h{j}", [k])
        body.insert(rng.randint(0, len(body)), ["add", "c1", f"h{j}", rng.randrange(n), rng.random() < 0.5])
    meta = {"n": n, "m": m, "own_in": set(ins), "own_out": set(outs), "hp": sum(spec)}
    return pre + [["new", "c1", n]] + body, meta


def gen_edit(rng, meta: dict, budget: int, eid: str, lossy: bool):
    """an in-place edit of a circuit (ops, herald photons added, input modes removed)"""
    r = rng.random()
    kmax = max(0, min(2, budget))
    if r < 0.5:  # a heralded gate is added (1 or 2 heralded modes)
        ks = [rng.choice([0, 1, 1, 2])] if rng.random() < 0.8 else [rng.choice([0, 1]), rng.choice([0, 1])]
        while sum(ks) > kmax:
            ks[ks.index(max(ks))] -= 1
        ops = heralded_gate(rng, eid, ks) + [["add", "c1", eid, rng.randrange(meta["n"]), rng.random() < 0.5]]
        meta["hp"] += sum(ks)
        return ops, "heralded_gate_added", 0
    if r < 0.7 and meta["m"] >= 2:  # a herald is declared on the circuit itself: one input mode fewer
        fi = [a for a in range(meta["n"]) if a not in meta["own_in"]]
        fo = [a for a in range(meta["n"]) if a not in meta["own_out"]]
        i, o = rng.choice(fi), rng.choice(fo)
        if rng.random() < 0.5 and i in fo:
            o = i
        k = min(rng.choice([0, 1, 1, 2]), kmax)
        meta["own_in"].add(i)
        meta["own_out"].add(o)
        meta["hp"] += k
        meta["m"] -= 1
        return [["herald", "c1", k, i, o]], "herald_declared", 1
    ops = [cg.rand_prim_op(rng, "c1", meta["n"], allow_loss=lossy) for _ in range(rng.randint(1, 2))]
    return ops, "components_appended", 0


def hist_validate(case: dict, cap: int):
    """plays the structural part of a history; largest photon number over all reads, or None when some read is
    outside the exact model's budget / not well formed"""
    try:
        env = HistEnv(case)
    except Exception:  # noqa: BLE001
        return None
    worst = 0
    for st in case["steps"]:
        if st["op"] == "circuit":
            for i in st["who"]:
                env.slot[i] = st["slot"]
        elif st["op"] == "edit":
            for op in st["ops"]:
                if not cg.well_formed(env.progs[st["slot"]] + [op]) or cg.apply_op(env.pools[st["slot"]], op) != "ok":
                    return None
                env.progs[st["slot"]].append(op)
        elif st["op"] == "input":
            env.inp[st["who"]] = list(st["input"])
        for i, v in st.get("inputs", []):
            env.inp[i] = list(v)
        for i in st["use"]:
            c = env.circ(i)
            if c is None or c.input_modes != len(env.inp[i]) or np.array(c.U_full).shape[0] > 8:
                return None
            tot = sum(env.inp[i]) + fg.herald_photons(c)
            if tot > cap:
                return None
            worst = max(worst, tot)
    return worst


def gen_hist_circ(ctx: Ctx, rng):
    """history in which the circuit / input of long-lived Samplers changes between reads"""
    cap = 4 if ctx.thorough else 3
    m = rng.choice([1, 2, 2, 3])
    nsl = rng.choice([2, 2, 3])
    specs: list = []
    while len(specs) < nsl:
        sp = rng.choice(HERALD_SPECS)
        # the same photon numbers twice (then on other modes / realised differently) only sometimes
        if sum(sp) <= cap - 1 and (sp not in specs or rng.random() < 0.25):
            specs.append(sp)
    lossy = rng.random() < 0.35
    built = [variant_prog(rng, m, sp, lossy) for sp in specs]
    progs, metas = [b[0] for b in built], [b[1] for b in built]
    room = cap - max(sum(sp) for sp in specs)
    inp = fg.rand_state(rng, m, rng.randint(1, room))
    r = rng.random()
    if r < 0.12:
        init = dict(PERFECT)
    elif r < 0.22:
        init = {"nu": frac_str(rng.choice(NU + NU_EDGE)), "x": "0", "q": "1", "thr": "0"}
    else:
        init = gen_par(rng, thr=rng.random() < 0.15, edge=0.15)
        if is_basic(init):
            init["q"] = "3/5"
    ctor = "default" if init == PERFECT and rng.random() < 0.6 else "kwargs"
    ns = rng.choice([1, 1, 2])
    samplers = []
    for i in range(ns):
        inp_i = inp if i == 0 or rng.random() < 0.5 else fg.rand_state(rng, m, rng.randint(0, room))
        samplers.append({"backend": rng.choice(["permanent", "slos"]), "input": list(inp_i),
                         "attach": "setter" if rng.random() < 0.2 else "ctor"})
    slot_of = [0] * ns
    inps = [list(sp["input"]) for sp in samplers]
    cur = dict(init)
    steps: list = []
    n_steps = rng.randint(3, 6)
    grids = {"nu": NU, "x": X, "q": QS}
    for k in range(n_steps):
        use = [i for i in range(ns) if rng.random() < 0.85]
        stats = rng.random() < 0.15
        if k == n_steps - 1:
            use = list(range(ns))
        r0 = rng.random()
        if k == 0 and r0 < 0.7:  # read with the first circuit before anything changes
            steps.append({"op": "set", "set": [], "use": list(range(ns)), "stats": stats})
            continue
        if r0 < 0.45:
            who = list(range(ns)) if rng.random() < 0.6 else [rng.randrange(ns)]
            ks = rng.choice([s for s in range(nsl) if any(slot_of[i] != s for i in who)])
            step = {"op": "circuit", "slot": ks, "who": who, "use": use, "stats": stats}
            new_inputs = []
            for i in who:
                slot_of[i] = ks
                if len(inps[i]) != metas[ks]["m"] or sum(inps[i]) + metas[ks]["hp"] > cap:
                    inps[i] = fg.rand_state(rng, metas[ks]["m"], rng.randint(0, max(0, cap - metas[ks]["hp"])))
                    new_inputs.append([i, list(inps[i])])
            if new_inputs:
                step["inputs"] = new_inputs
            steps.append(step)
        elif r0 < 0.65:
            held = sorted(set(slot_of))
            ks = rng.choice(held) if rng.random() < 0.75 else rng.randrange(nsl)
            on = [i for i in range(ns) if slot_of[i] == ks]
            budget = cap - metas[ks]["hp"] - max([sum(inps[i]) for i in on] or [0])
            ops, what, dm = gen_edit(rng, metas[ks], budget, f"e{k}", lossy)
            step = {"op": "edit", "slot": ks, "ops": ops, "what": what, "use": use, "stats": stats}
            if dm:
                new_inputs = []
                for i in on:
                    inps[i] = fg.rand_state(rng, metas[ks]["m"], rng.randint(0, max(0, cap - metas[ks]["hp"])))
                    new_inputs.append([i, list(inps[i])])
                step["inputs"] = new_inputs
            steps.append(step)
        elif r0 < 0.75:
            i = rng.randrange(ns)
            ks = slot_of[i]
            for _ in range(5):
                new = fg.rand_state(rng, metas[ks]["m"], rng.randint(0, max(0, cap - metas[ks]["hp"])))
                if new != inps[i]:
                    break
            inps[i] = new
            steps.append({"op": "input", "who": i, "input": list(new), "use": use, "stats": stats})
        elif r0 < 0.90:
            key = rng.choice(["nu", "x", "q", "q", "x"])
            val = frac_str(rng.choice(grids[key]))
            cur[key] = val
            steps.append({"op": "set", "set": [[key, val, "float"]], "use": use, "stats": stats})
        else:
            steps.append({"op": "set", "set": [], "use": use, "stats": stats})
    case = {"kind": "hist", "prog": progs[0], "progs": progs, "ctor": ctor, "init": init, "samplers": samplers,
            "state": fg.add_heralds(inp, {}) if rng.random() < 0.7 else gen_state(rng, 4, 3), "steps": steps}
    worst = hist_validate(case, cap)
    if worst is None:
        return None
    case["photons"] = worst
    return case


def hist_corpus() -> list[dict]:
    """directed histories that always run first"""
    def st(sets, use=(0, 1), stats=True):
        return {"op": "set", "set": [[k, v, "float"] for k, v in sets], "use": list(use), "stats": stats}

    both = [{"backend": "permanent", "input": [1, 1], "attach": "ctor"}, {"backend": "slos", "input": [1, 1], "attach": "ctor"}]
    out = []
    # Hong-Ou-Mandel sweep on a default Source held by two Samplers: perfect -> imperfect -> other imperfect -> 0 -> perfect -> imperfect
    out.append({"kind": "hist", "prog": HOM_PROG, "ctor": "default", "init": dict(PERFECT), "samplers": both, "state": [1, 1],
                "steps": [st([]), st([["q", "3/5"]]), st([["q", "1/2"]]), st([["q", "0"]]), st([["q", "1"]]), st([["q", "9/10"]])],
                "photons": 2})
    # the same sweep, the Samplers never used before the first assignment
    out.append({"kind": "hist", "prog": HOM_PROG, "ctor": "default", "init": dict(PERFECT), "samplers": both, "state": [1, 1],
                "steps": [st([["q", "3/5"]]), st([["q", "1"]]), st([["q", "1/3"]])], "photons": 2})
    # g2 sweep on one emitter: purity and brightness assigned after construction, back to perfect, imperfect again
    one = [{"backend": "permanent", "input": [1], "attach": "ctor"}, {"backend": "slos", "input": [1], "attach": "setter"}]
    out.append({"kind": "hist", "prog": WIRE_PROG, "ctor": "default", "init": dict(PERFECT), "samplers": one, "state": [1],
                "steps": [st([["x", "1/10"]]), st([["x", "1/3"], ["nu", "3/4"]]), st([["x", "0"]]), st([["nu", "1/2"], ["x", "1/20"]])],
                "photons": 1})
    # probability_threshold alone re-assigned on used Samplers: prunes one input, none, all (rejected), none
    out.append({"kind": "hist", "prog": HOM_PROG, "ctor": "kwargs", "init": {"nu": "3/4", "x": "0", "q": "1", "thr": "0"},
                "samplers": both, "state": [1, 1],
                "steps": [st([]), st([["thr", "1/7"]]), st([["thr", "0"]]), st([["thr", "9/10"]]), st([["thr", "1/20"]])], "photons": 2})
    # brightness alone re-assigned on a used imperfect source, incl. the boundaries 0 and 1
    out.append({"kind": "hist", "prog": tri_prog(True), "ctor": "kwargs", "init": {"nu": "1", "x": "1/10", "q": "3/5", "thr": "0"},
                "samplers": [{"backend": "permanent", "input": [1, 0, 1], "attach": "ctor"}], "state": [1, 0, 1],
                "steps": [st([], [0]), st([["nu", "1/2"]], [0]), st([["nu", "0"]], [0]), st([["nu", "1"]], [0])], "photons": 2})
    # shared Source, two consumers with different inputs; one of them skips the intermediate settings
    two = [{"backend": "slos", "input": [1, 1, 0], "attach": "ctor"}, {"backend": "permanent", "input": [0, 2, 1], "attach": "ctor"}]
    out.append({"kind": "hist", "prog": tri_prog(False), "ctor": "kwargs", "init": {"nu": "9/10", "x": "1/20", "q": "9/10", "thr": "0"},
                "samplers": two, "state": [2, 0, 1],
                "steps": [st([]), st([["x", "0"], ["q", "1"]], [1], False), st([["q", "1/2"], ["x", "1/3"]], [1], False),
                          st([["x", "1/20"], ["q", "9/10"]]), st([["q", "1"], ["x", "0"], ["nu", "1"]])], "photons": 3})
    # shared Source, two consumers on the SAME backend with different inputs, every setting used twice by both; one assignment
    # made through the second consumer's handle
    same = [{"backend": "permanent", "input": [1, 1, 0], "attach": "ctor"}, {"backend": "permanent", "input": [0, 1, 1], "attach": "ctor"}]
    out.append({"kind": "hist", "prog": tri_prog(False), "ctor": "default", "init": dict(PERFECT), "samplers": same, "state": [1, 1, 0],
                "steps": [st([]), st([]), st([["q", "1/2"]]), st([]), {**st([["x", "1/10"], ["q", "1"]]), "via": 1}, st([]),
                          st([["x", "0"]]), st([])], "photons": 2})
    # rejected assignments change nothing
    def bad(a, v, use=(0,)):
        return {"op": "bad", "attr": a, "value": v, "use": list(use), "stats": True}

    out.append({"kind": "hist", "prog": HOM_PROG, "ctor": "kwargs", "init": {"nu": "3/4", "x": "1/10", "q": "3/5", "thr": "0"},
                "samplers": both[:1], "state": [1, 1],
                "steps": [st([], [0]), bad("x", {"t": "num", "v": "3/10"}), bad("q", {"t": "str"}), bad("nu", {"t": "num", "v": "3/2"}),
                          bad("thr", {"t": "bool", "v": True}), bad("x", {"t": "nan"})], "photons": 2})
    # Sampler.source re-assigned to a new object, which is then re-assigned through its setters
    out.append({"kind": "hist", "prog": HOM_PROG, "ctor": "default", "init": dict(PERFECT), "samplers": both, "state": [1, 1],
                "steps": [st([]), {"op": "replace", "par": dict(PERFECT), "use": [0], "stats": False}, st([["q", "3/5"]]),
                          {"op": "replace", "par": {"nu": "1/2", "x": "1/10", "q": "1/2", "thr": "0"}, "use": [0, 1], "stats": True},
                          st([["x", "0"], ["q", "1"]])], "photons": 2})
    # the Source alone (check_number), states with gaps and bunching
    out.append({"kind": "hist", "prog": WIRE_PROG, "ctor": "default", "init": dict(PERFECT), "samplers": [], "state": [1, 0, 0, 2],
                "steps": [st([], []), st([["x", "1/10"]], []), st([["x", "0"], ["q", "1/2"]], []), st([["q", "1"]], []),
                          st([["nu", "1/2"], ["thr", "1/20"], ["q", "3/5"]], [])], "photons": 3})
    return out + hist_circ_corpus()


def hist_circ_corpus() -> list[dict]:
    """directed histories in which the circuit / input of long-lived Samplers changes between reads"""
    def rd(use=(0,), stats=False):
        return {"op": "set", "set": [], "use": list(use), "stats": stats}

    def st(sets, use=(0,), stats=False):
        return {"op": "set", "set": [[k, v, "float"] for k, v in sets], "use": list(use), "stats": stats}

    def ci(slot, who=(0,), use=None, inputs=None):
        d = {"op": "circuit", "slot": slot, "who": list(who), "use": list(who if use is None else use), "stats": False}
        if inputs:
            d["inputs"] = inputs
        return d

    def ed(slot, ops, what, use=(0,), inputs=None):
        d = {"op": "edit", "slot": slot, "ops": ops, "what": what, "use": list(use), "stats": False}
        if inputs:
            d["inputs"] = inputs
        return d

    def a3(k, i, o):  # three modes, one of them heralded with k photons: two input modes
        return [["new", "c1", 3], cg.op_bs("c1", 0, 1, F(3, 5), F(4, 5)), cg.op_bs("c1", 1, 2, F(4, 5), F(3, 5)), ["herald", "c1", k, i, o]]

    def b2(k):  # two modes, the second heralded with k photons: one input mode
        return [["new", "c1", 2], cg.op_bs("c1", 0, 1, F(3, 5), F(4, 5)), ["herald", "c1", k, 1, 1]]

    def gate(sid, k, hi=1, ho=1):
        return [["new", sid, 2], cg.op_bs(sid, 0, 1, F(4, 5), F(3, 5)), ["herald", sid, k, hi, ho]]

    def case(progs, init, samplers, steps, photons, ctor="kwargs", state=None):
        return {"kind": "hist", "prog": progs[0], "progs": progs, "ctor": ctor, "init": init, "samplers": samplers,
                "state": state or samplers[0]["input"], "steps": steps, "photons": photons}

    def smp(inp, b="permanent", attach="ctor"):
        return {"backend": b, "input": inp, "attach": attach}

    imp = {"nu": "3/4", "x": "1/10", "q": "3/5", "thr": "0"}
    out = []
    # herald photon number 1 -> 0 -> 1 and 0 -> 1 -> 0 (equal input size, input kept), imperfect source, both backends
    out.append(case([a3(1, 0, 0), a3(0, 2, 2)], imp, [smp([1, 1]), smp([1, 1], "slos")],
                    [rd((0, 1)), ci(1, (0, 1)), ci(0, (0, 1))], 3))
    out.append(case([a3(0, 2, 2), a3(1, 0, 0)], imp, [smp([1, 1], "slos")], [rd(), ci(1), rd(), ci(0)], 3))
    # the same with the default (perfect) Source: perfect settings = ideal distribution of the CURRENT full input
    out.append(case([a3(1, 0, 0), a3(0, 2, 2)], dict(PERFECT), [smp([1, 1]), smp([0, 1], "slos")],
                    [rd((0, 1)), ci(1, (0, 1)), ci(0, (0, 1))], 3, ctor="default"))
    # herald photon numbers 2 -> 0 -> 1 -> 2 under one input mode
    out.append(case([b2(2), b2(0), b2(1)], {"nu": "9/10", "x": "0", "q": "1/2", "thr": "0"}, [smp([1])],
                    [rd(), ci(1), ci(2), ci(0), ci(2), ci(1)], 3))
    # equal herald photon number on another herald mode (in != out), asymmetric input
    out.append(case([a3(1, 0, 0), a3(1, 2, 1), a3(1, 1, 2)], {"nu": "1", "x": "1/20", "q": "9/10", "thr": "0"}, [smp([1, 0])],
                    [rd(), ci(1), ci(2), ci(0)], 2))
    # other total size, equal input size: no herald / a heralded gate inside / two heralds declared
    plain = [["new", "c1", 2], cg.op_bs("c1", 0, 1, F(3, 5), F(4, 5))]
    inner = gate("h0", 1) + plain + [["add", "c1", "h0", 1, True]]
    wide = [["new", "c1", 4], cg.op_bs("c1", 0, 1, F(3, 5), F(4, 5)), cg.op_bs("c1", 2, 3, F(4, 5), F(3, 5)),
            cg.op_bs("c1", 1, 2, F(5, 13), F(12, 13)), ["herald", "c1", 1, 3, 0], ["herald", "c1", 0, 0, 3]]
    out.append(case([plain, inner, wide], {"nu": "1/2", "x": "1/3", "q": "1/2", "thr": "0"}, [smp([1, 1]), smp([1, 1], "slos", "setter")],
                    [rd((0, 1)), ci(1, (0, 1)), ci(2, (0, 1)), ci(0, (0, 1)), ci(2, (1,), (0, 1)), ci(1, (0,), (0, 1))], 3))
    # edited in place between reads: heralded gates added (1 photon, then 0 photons, ungrouped)
    out.append(case([plain], {"nu": "1", "x": "0", "q": "3/5", "thr": "0"}, [smp([1, 1]), smp([1, 0], "slos")],
                    [rd((0, 1)), ed(0, gate("e1", 1) + [["add", "c1", "e1", 0, True]], "heralded_gate_added", (0, 1)),
                     ed(0, gate("e2", 0, 0, 1) + [["add", "c1", "e2", 1, False]], "heralded_gate_added", (0, 1))], 3))
    # a herald declared in place (one input mode fewer: the input is re-assigned), twice
    out.append(case([tri_prog(False)], imp, [smp([1, 0, 1])],
                    [rd(), ed(0, [["herald", "c1", 1, 2, 2]], "herald_declared", inputs=[[0, [1, 0]]]),
                     ed(0, [["herald", "c1", 0, 0, 1]], "herald_declared", inputs=[[0, [1]]])], 3))
    # circuit and source settings change between two reads, in both orders, without a read in between
    out.append(case([a3(1, 0, 0), a3(0, 2, 2)], imp, [smp([1, 0]), smp([0, 1], "slos")],
                    [rd((0, 1)), st([["q", "1/2"]], ()), ci(1, (0, 1), ()), st([["x", "1/20"]], (0, 1)),
                     ci(0, (0, 1), ()), st([["x", "0"], ["q", "1"]], (0, 1)), ci(1, (0, 1))], 2))
    # Sampler.input_state re-assigned between reads under an imperfect source (same circuit)
    out.append(case([tri_prog(True)], imp, [smp([1, 1, 0])],
                    [rd(), {"op": "input", "who": 0, "input": [0, 1, 1], "use": [0], "stats": False},
                     {"op": "input", "who": 0, "input": [2, 0, 0], "use": [0], "stats": False},
                     {"op": "input", "who": 0, "input": [1, 1, 0], "use": [0], "stats": False}], 2))
    # an edited circuit object that no Sampler holds is attached afterwards; the first object is edited while detached
    out.append(case([a3(1, 0, 0), a3(0, 2, 2)], imp, [smp([1, 0])],
                    [rd(), ed(1, [cg.op_bs("c1", 0, 2, F(5, 13), F(12, 13))], "components_appended"), ci(1),
                     ed(0, gate("e1", 0) + [["add", "c1", "e1", 1, False]], "heralded_gate_added"), ci(0)], 2))
    return out


def par_corpus() -> list[dict]:
    """directed parameter values at / next to every boundary, in the streams that judge them most directly"""
    out: list = []
    edge = NEAR1 + TINY
    # g2 = 1 - purity (and the relation purity <-> two-photon weight) over the whole boundary grid of weights
    for j, x in enumerate(X_EDGE + (X_CANCEL if INCLUDE_CANCELLATION_RANGE else [])):
        out.append({"kind": "g2", "par": {"nu": ["1", "3/4", "1/10"][j % 3], "x": frac_str(x), "q": ["1", "3/5"][j % 2], "thr": "0"}})
    # exact float purities next to 1 and next to the lower limit 0.5 (oracle only)
    floats = [1 - 10.0**-k for k in range(1, 9)] + [0.5 + 10.0**-k for k in (1, 2, 4, 8, 12, 16)]
    floats += [float(np.nextafter(1.0, 0.0)), float(np.nextafter(0.5, 1.0)), 0.995, 0.9950000000000001, 0.99, 0.999]
    if not INCLUDE_CANCELLATION_RANGE:
        floats = [v for v in floats if not 0 < 1 - v < 1e-4]
    for j, v in enumerate(floats):
        out.append({"kind": "g2f", "purity": repr(v), "nu": ["1", "1/2"][j % 2], "q": ["1", "9/10"][j % 2]})
    # Hong-Ou-Mandel visibility = indistinguishability next to 1 and next to 0
    for j, q in enumerate(edge):
        out.append({"kind": "hom", "par": {"nu": ["1", "1/2"][j % 2], "x": "0", "q": frac_str(q), "thr": "0"}, "loss": [0, 0.25][j % 2]})
    # the mixture on a small interferometer with brightness / indistinguishability / purity at the boundary grids
    for j, e in enumerate(edge):
        par = {"nu": frac_str(e), "x": frac_str(X_EDGE[(3 * j) % len(X_EDGE)]) if j % 4 else "0", "q": frac_str(edge[-1 - j]) if j % 3 else "1",
               "thr": "0"}
        out.append({"kind": "dist", "prog": tri_prog(j % 2 == 1), "input": [[1, 1, 0], [0, 2, 0], [1, 0, 1]][j % 3], "par": par, "photons": 2})
    # thresholds next to 0 and next to 1
    for j, t in enumerate(THR_EDGE):
        par = {"nu": ["9/10", "1", frac_str(1 - F(1, 10**6))][j % 3], "x": ["1/400", "0", "0"][j % 3], "q": ["99/100", "1", "1"][j % 3],
               "thr": frac_str(t)}
        out.append({"kind": "stats", "state": [[1, 1], [1], [2, 0, 1]][j % 3], "par": par})
    return out


# --------------------------------------------------------------------------- driver of the streams


def run_case(ctx: Ctx, case: dict) -> list[str]:
    return {"stats": run_stats, "dist": run_dist, "g2": run_g2, "hom": run_hom, "bad": run_bad, "g2f": run_g2f,
            "hist": run_hist, "own": run_own}[case["kind"]](ctx, case)


def drop_sampler(st: dict, remap: dict) -> dict:
    """the step of a history without one of the Samplers (remap: old index -> new index of the others)"""
    out = {k: v for k, v in st.items() if k != "via"}
    out["use"] = [remap[j] for j in st["use"] if j in remap]
    if st.get("via") in remap:
        out["via"] = remap[st["via"]]
    if st["op"] == "circuit":
        out["who"] = [remap[j] for j in st["who"] if j in remap]
    if "inputs" in st:
        out["inputs"] = [[remap[j], v] for j, v in st["inputs"] if j in remap]
    if st["op"] == "input":
        if st["who"] in remap:
            out["who"] = remap[st["who"]]
        else:
            out = {"op": "set", "set": [], "use": out["use"], "stats": st["stats"]}
    return out


def shrink(ctx: Ctx, case: dict) -> dict:
    if case["kind"] == "dist":
        def still(sub):
            return cg.well_formed(sub) and bool(run_case(ctx, {**case, "prog": sub, "shrunk": True}))

        try:
            small = ddmin(case["prog"], still, max_tests=60)
        except Exception:  # noqa: BLE001
            small = case["prog"]
        return {**case, "prog": small, "shrunk": True}
    if case["kind"] == "own":
        def fails_own(cand):
            try:
                return bool(run_case(ctx, cand))
            except Exception:  # noqa: BLE001
                return False

        cur = case
        try:
            cur = {**cur, "steps": ddmin(cur["steps"], lambda sub: fails_own({**cur, "steps": sub}), max_tests=60)}
            for k, st in enumerate(cur["steps"]):  # one assignment per tuning where that is enough
                if st["op"] == "tune" and len(st["set"]) > 1:
                    for sub in ([a] for a in st["set"]):
                        cand = {**cur, "steps": cur["steps"][:k] + [{**st, "set": sub}] + cur["steps"][k + 1:]}
                        if fails_own(cand):
                            cur = cand
                            break
            small = ddmin(cur["prog"], lambda sub: cg.well_formed(sub) and fails_own({**cur, "prog": sub}), max_tests=30)
            cur = {**cur, "prog": small}
        except Exception:  # noqa: BLE001
            pass
        return {**cur, "shrunk": True}
    if case["kind"] == "hist":
        def fails(cand):
            try:
                return bool(run_case(ctx, cand))
            except Exception:  # noqa: BLE001
                return False

        cur = case
        try:
            cur = {**cur, "steps": ddmin(cur["steps"], lambda sub: fails({**cur, "steps": sub}), max_tests=40)}
            # one consumer instead of two
            for i in reversed(range(len(cur["samplers"]))):
                remap = {j: j - (j > i) for j in range(len(cur["samplers"])) if j != i}
                cand = {**cur, "samplers": [sp for j, sp in enumerate(cur["samplers"]) if j != i],
                        "steps": [drop_sampler(st, remap) for st in cur["steps"]]}
                if fails(cand):
                    cur = cand
            # one assignment per step where that is enough; observations that are not needed
            for k, st in enumerate(cur["steps"]):
                if st["op"] == "set" and len(st["set"]) > 1:
                    for sub in ([a] for a in st["set"]):
                        cand = {**cur, "steps": cur["steps"][:k] + [{**st, "set": sub}] + cur["steps"][k + 1:]}
                        if fails(cand):
                            cur = cand
                            break
            for k, st in enumerate(cur["steps"][:-1]):
                cand = {**cur, "steps": cur["steps"][:k] + [{**st, "use": [], "stats": False}] + cur["steps"][k + 1:]}
                if fails(cand):
                    cur = cand
            progs = cur.get("progs") or [cur["prog"]]
            for k in range(len(progs)):
                def with_prog(sub, k=k):
                    ps = [sub if j == k else q for j, q in enumerate(progs)]
                    return {**cur, "prog": ps[0], **({"progs": ps} if "progs" in cur else {})}

                small = ddmin(progs[k], lambda sub: cg.well_formed(sub) and fails(with_prog(sub)), max_tests=40 if len(progs) == 1 else 20)
                cur = with_prog(small)
                progs = cur.get("progs") or [cur["prog"]]
        except Exception:  # noqa: BLE001
            pass
        return {**cur, "shrunk": True}
    if case["kind"] == "stats":
        cur = case
        changed = True
        while changed:
            changed = False
            st = cur["state"]
            cands = [st[:i] + st[i + 1:] for i in range(len(st)) if len(st) > 1]
            cands += [st[:i] + [st[i] - 1] + st[i + 1:] for i in range(len(st)) if st[i] > 0]
            for cand in cands:
                c2 = {**cur, "state": cand}
                try:
                    if run_case(ctx, c2):
                        cur, changed = c2, True
                        break
                except Exception:  # noqa: BLE001
                    continue
        return cur
    return case


def report(ctx: Ctx, case: dict, probs: list[str]) -> None:
    ctx.count("cases_with_problems")
    scase = shrink(ctx, case)
    sprobs = run_case(ctx, scase) or probs
    oracle = [p for p in sprobs if p.startswith("oracle")]
    extra = {"script": hist_script(scase)} if scase["kind"] == "hist" else {"script": own_script(scase)} if scase["kind"] == "own" else {}
    if oracle:
        if "removes every" in oracle[0]:
            kind = "threshold-removes-all-inputs"
        elif "purity_to_prob(" in oracle[0] or scase["kind"] == "g2f":
            near = scase["kind"] == "g2f" and 0 < 1 - float(scase["purity"]) < 1e-4 or "par" in scase and 0 < F(scase["par"]["x"]) < X_WELL
            kind = "g2-purity-relation" + (":cancellation-range" if near else "")
        else:
            kind = oracle[0].split(":", 1)[1].strip()[:40]
        if scase["kind"] == "hist":
            kind = "history:" + oracle[0].split(":", 2)[-1].strip()[:40]
        if scase["kind"] == "own":
            kind = "own-source:" + ("settings-changed-unassigned" if "without being assigned" in oracle[0] else oracle[0].split(":", 3)[-1].strip()[:40])
        ctx.violation(oracle[0], {"case": scase, "problems": sprobs, **extra}, sig={"kind": kind})
    else:
        ctx.disagreement(sprobs[0], {"case": scase, "problems": sprobs, **extra})


def hist_branches(ctx: Ctx, case: dict) -> bool:
    """coverage of the history dimension; returns whether the history is non-trivial (the settings
    change at least once and some observation is made on the annotated path)"""
    cur = dict(case["init"])
    ctx.count("hist:ctor_" + case["ctor"])
    ctx.count(f"hist:samplers={len(case['samplers'])}")
    if len(case["samplers"]) == 2:
        ctx.count("hist:shared_source_two_samplers")
        if case["samplers"][0]["input"] != case["samplers"][1]["input"]:
            ctx.count("hist:shared_source_different_inputs")
    if any(sp["attach"] == "setter" for sp in case["samplers"]):
        ctx.count("hist:source_attached_through_Sampler.source")
    used_before = False
    changed = full_seen = False
    ns = len(case["samplers"])
    slot_of = [0] * ns
    read_since = [False] * ns  # sampler i has been read since its circuit / input last changed
    seen_slots = [{0} for _ in range(ns)]
    circ_changed = False
    hp = [sum(op[2] for op in p if op[0] == "herald") for p in (case.get("progs") or [case["prog"]])]  # herald photons per slot
    if len(case.get("progs") or []) > 1:
        ctx.count("hist:circuit_variants=" + str(len(case["progs"])))
    for st in case["steps"]:
        prev = dict(cur)
        touched: list = []
        if st["op"] == "circuit":
            ctx.count("hist:circuit_reassigned")
            for i in st["who"]:
                if i >= ns:
                    continue
                touched.append(i)
                ctx.count("hist:circuit_reassigned_" + ("after_a_read" if read_since[i] else "before_any_read_of_the_previous"))
                if st["slot"] in seen_slots[i]:
                    ctx.count("hist:circuit_back_to_an_earlier_object")
                seen_slots[i].add(st["slot"])
                if st["slot"] < len(hp):
                    ctx.count(f"hist:circuit_reassigned:herald_photons {hp[slot_of[i]]}->{hp[st['slot']]}")
                slot_of[i] = st["slot"]
            if len(st["who"]) < ns:
                ctx.count("hist:circuit_reassigned_on_one_of_two_samplers")
            ctx.count("hist:circuit_reassigned_" + ("with_new_input" if st.get("inputs") else "input_kept"))
        elif st["op"] == "edit":
            ctx.count("hist:circuit_edited_in_place")
            ctx.count("hist:edit:" + st.get("what", "other"))
            touched = [i for i in range(ns) if slot_of[i] == st["slot"]]
            if st["slot"] < len(hp):
                add = sum(op[2] for op in st["ops"] if op[0] == "herald")
                if any(op[0] == "herald" for op in st["ops"]):
                    ctx.count(f"hist:edit:herald_photons {hp[st['slot']]}->{hp[st['slot']] + add}")
                hp[st["slot"]] += add
            ctx.count("hist:edit_of_" + ("a_held_circuit" if touched else "a_detached_circuit"))
            if any(read_since[i] for i in touched):
                ctx.count("hist:edit_after_a_read")
        elif st["op"] == "input":
            ctx.count("hist:input_state_reassigned")
            touched = [st["who"]]
        if touched or st["op"] in ("circuit", "edit", "input"):
            circ_changed = True
            if not is_basic(cur):
                ctx.count("hist:circuit_or_input_change_under_imperfect_source")
            for i in touched:
                if i < ns:
                    read_since[i] = False
        for i in st["use"]:
            if i < ns:
                read_since[i] = True
        if st["op"] in ("circuit", "edit", "input"):
            pass
        elif st["op"] == "set":
            for key, val, form in st["set"]:
                cur[key] = val
                ctx.count("hist:set:" + ATTR[key])
                if form != "float":
                    ctx.count("hist:value_as_" + form)
            if st.get("via") is not None and st["set"]:
                ctx.count("hist:assigned_through_Sampler.source")
            if not st["set"]:
                ctx.count("hist:repeated_use_no_change")
            elif len(st["set"]) == 1:
                ctx.count("hist:single_attribute_step")
        elif st["op"] == "bad":
            ctx.count("hist:rejected_assignment")
        else:
            cur = dict(st["par"])
            ctx.count("hist:replace_source_object")
        if cur != prev:
            changed = True
            a, b = ("perfect" if is_basic(prev) else "imperfect"), ("perfect" if is_basic(cur) else "imperfect")
            ctx.count(f"hist:{a}->{b}" + ("" if used_before else "(first use after the change)"))
            if F(cur["thr"]) != F(prev["thr"]):
                ctx.count("hist:threshold_changed")
        observed = bool(st["use"]) or st["stats"]
        if observed:
            used_before = True
            if not is_basic(cur):
                full_seen = True
        else:
            ctx.count("hist:step_without_observation")
        if len(st["use"]) < len(case["samplers"]):
            ctx.count("hist:a_sampler_skips_this_setting")
    ctx.count(f"hist:steps={len(case['steps'])}")
    return (changed or circ_changed) and full_seen


def branches(ctx: Ctx, case: dict) -> None:
    if "par" not in case:
        return
    nu, x, q, thr = par_vals(case["par"])
    ctx.count("path:basic" if (x == 0 and q == 1) else "path:full")
    ctx.count("nu=1" if nu == 1 else "nu=0" if nu == 0 else "0<nu<1")
    ctx.count("purity=1" if x == 0 else "purity<1")
    ctx.count("indist=1" if q == 1 else "indist=0" if q == 0 else "0<indist<1")
    if thr > 0:
        ctx.count("probability_threshold>0")
    # boundary neighbourhoods
    for name, v in (("brightness", nu), ("sqrt_indist", q), ("threshold", thr)):
        if 0 < 1 - v <= F(1, 10):
            ctx.count(f"edge:{name}=1-1e-k" + ("(k>=5)" if 1 - v <= F(1, 10**5) else ""))
        if 0 < v <= F(1, 10) and name != "threshold":
            ctx.count(f"edge:{name}=1e-k" + ("(k>=5)" if v <= F(1, 10**5) else ""))
    if 0 < thr <= F(1, 1000):
        ctx.count("edge:threshold<=1e-3")
    if x > 0:
        g = 1 - purity_of(x)
        ctx.count("edge:1-purity in " + ("(0,1e-4)" if x < X_WELL else "[1e-4,1e-3)" if g < 1e-3 else "[1e-3,5e-3)" if g < 5e-3 else
                                         "[5e-3,1e-2)" if g < 1e-2 else "[1e-2,1e-1)" if g < 0.1 else "[0.1,0.49)" if g < 0.49 else "[0.49,0.5)"))


def run(ctx: Ctx) -> None:
    ctx.rule = ("stats: states of <= 6 modes / <= 4 photons (bunched, gaps) x parameter grid x threshold; dist: circuits from "
                "the tree generator (loss, heralds), both backends; non-trivial = >= 2 photons (incl. heralds) and a source "
                "that is imperfect in purity or indistinguishability (annotated path); hist: long-lived Source / Samplers "
                "re-assigned through setters between uses, non-trivial = the settings change and an observation is made on "
                "the annotated path; distinct = distinct case JSON")
    rng = ctx.rng
    # self-test of the comparison code: a deliberately wrong expectation must be noticed
    t = ctx.model.call({"op": "c06", "what": "table", "nu": "1/2", "p2": "1/3", "pi": "3/5", "thr": "0"})["table"]
    if sum(F(v) for v in t) != 1 or [F(v) for v in t] != table(F(1, 2), F(1, 3), F(3, 5)):
        from core import MachineryFault

        raise MachineryFault("model table differs from the documented table")
    cases: list[dict] = []
    for _ in range(ctx.n(140, 3000)):
        if ctx.out_of_time():
            break
        par = gen_par(rng, cancel=True)
        if not INCLUDE_OVER_THRESHOLD and F(par["thr"]) > F(1, 20):
            par["thr"] = "0"
        x = F(par["x"])
        cases.append({"kind": "stats", "state": gen_state(rng, 6, 3 if x > 0 else 4), "par": par})
    nd = 0
    while nd < ctx.n(90, 2000):
        if ctx.out_of_time():
            break
        case = gen_dist(ctx, rng)
        if case is None:
            ctx.count("skipped:too_large")
            continue
        nd += 1
        cases.append(case)
    for _ in range(ctx.n(10, 100)):
        if ctx.out_of_time():
            break
        par = gen_par(rng, thr=False, edge=0.5, cancel=True)
        if F(par["nu"]) == 0:
            par["nu"] = "1/2"
        cases.append({"kind": "g2", "par": par})
    for _ in range(ctx.n(10, 100)):
        if ctx.out_of_time():
            break
        par = gen_par(rng, thr=False, edge=0.5)
        par["x"] = "0"
        if F(par["nu"]) == 0:
            par["nu"] = "3/4"
        cases.append({"kind": "hom", "par": par, "loss": rng.choice([0, 0, 0.25, 0.5])})
    for _ in range(ctx.n(36, 400)):
        if ctx.out_of_time():
            break
        args = dict(GOOD)
        for k in rng.sample(list(GOOD), rng.choice([1, 1, 2])):
            args[k] = rng.choice(BAD_VALUES)
        cases.append({"kind": "bad", "args": args})
    # histories on long-lived Source / Sampler objects
    nh = 0
    tries = 0
    while nh < ctx.n(N_HIST_QUICK, 400) and tries < 20000:
        if ctx.out_of_time():
            break
        tries += 1
        case = gen_hist(ctx, rng)
        if case is None:
            ctx.count("skipped:too_large")
            continue
        nh += 1
        cases.append(case)
    # histories in which the circuit / input of the long-lived Samplers changes between reads
    nh = 0
    tries = 0
    while nh < ctx.n(N_HIST_CIRC_QUICK, 400) and tries < 20000:
        if ctx.out_of_time():
            break
        tries += 1
        case = gen_hist_circ(ctx, rng)
        if case is None:
            ctx.count("skipped:too_large")
            continue
        nh += 1
        cases.append(case)
    # worlds of Samplers that each have a Source of their own (library-made defaults / explicit), one tuned in place
    nh = 0
    tries = 0
    while nh < ctx.n(N_OWN_QUICK, 300) and tries < 20000:
        if ctx.out_of_time():
            break
        tries += 1
        case = gen_own(ctx, rng)
        if case is None:
            ctx.count("skipped:too_large")
            continue
        nh += 1
        cases.append(case)
    # directed: the smallest configuration in which the threshold removes every input
    if INCLUDE_OVER_THRESHOLD:
        cases.insert(0, {"kind": "stats", "state": [1, 1], "par": {"nu": "1/2", "x": "0", "q": "1", "thr": "9/10"}})
    # directed histories and directed parameter boundaries run first
    cases[0:0] = hist_corpus() + own_corpus() + par_corpus()
    for i, case in enumerate(cases):
        probs = run_case(ctx, case)
        ctx.count("stream:" + case["kind"])
        branches(ctx, case)
        nontrivial = False
        if case["kind"] in ("stats", "dist"):
            _, x, q, _ = par_vals(case["par"])
            full_path = not (x == 0 and q == 1)
            if case["kind"] == "stats":
                st = case["state"]
                nph = sum(st)
                if has_gap(st):
                    ctx.count("input:empty_run>=2")
                if any(v >= 2 for v in st):
                    ctx.count("input:bunched")
            else:
                prog = case["prog"]
                nph = case["photons"]
                her = nph - sum(case["input"])
                ctx.count("lossy" if any(fg.is_lossy(op) for op in prog) else "lossless")
                ctx.count("herald_photons>0" if her else "no_herald_photons")
                if any(v >= 2 for v in case["input"]):
                    ctx.count("input:bunched")
            ctx.count(f"photons:{nph}")
            nontrivial = nph >= 2 and full_path
        elif case["kind"] in ("g2", "hom", "g2f"):
            nontrivial = True
        elif case["kind"] == "hist":
            nontrivial = hist_branches(ctx, case)
            ctx.count(f"photons:{case['photons']}")
        elif case["kind"] == "own":
            nontrivial = own_branches(ctx, case)
            ctx.count(f"photons:{case['photons']}")
        ctx.case(json.dumps(case, sort_keys=True), nontrivial, sample=case if i in (1, 150) else None)
        if probs:
            report(ctx, case, probs)


def replay(ctx: Ctx, path: str) -> None:
    data = json.load(open(path))["replay"]
    probs = run_case(ctx, data["case"])
    ctx.case("replay", True, sample=data["case"])
    for p in probs:
        print("replay:", p)
        if p.startswith("oracle"):
            kind = "threshold-removes-all-inputs" if "removes every" in p else "replay"
            ctx.violation(p, data, sig={"kind": kind})
        else:
            ctx.disagreement(p, data)
