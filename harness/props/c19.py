"""
C19 — any constructible circuit can be displayed, without side effects.

Model: LW.Model.Display (option validation + the position arithmetic of both drawing back-ends:
`x_locations` / `y_locations`, every index used on them, every slice `max()` is taken over, the
mode-label bookkeeping, the order of the checks).  Theorems: LW/Properties/C19.lean.

Per generated tree of circuits (harness/props/c02.Gen extended with unitary blocks, Parameters
with and without labels, group names, rewrites of a copy of the root) every circuit object of the
pool is displayed with the real `lightworks.Display`:

  * oracle (the property's own clauses, evaluated on the implementation):
      - valid options  -> a drawing is returned, no exception of any class;
      - unknown display type or a label list of the wrong length -> DisplayError
        (the right length is the number of modes the circuit was created with — known to the
        harness by construction, not read from the implementation);
      - every circuit of the pool (n_modes, input_modes, heralds, U_full, parameter values and
        labels, its default svg drawing) is the same before and after;
  * correspondence (model vs code): per-call construction outcomes, the exception class, and the
    quantities of the returned object that the position arithmetic determines — svg
    `Drawing.width/height`; mpl `xlim`, `ylim`, `yticks`, `yticklabels`;
  * hypothesis coverage: the model circuit of every displayed object satisfies the decidable
    invariant `Disp.WF` under which the index-safety theorems are proved (it is also proved to
    hold after any history of model API calls, `constructible_wf`).

Option values of every Python type (directed stream first, then a sample per generated circuit), through every way
of calling (`Display` by keyword and by position, `Circuit.display` by keyword and by position):
  * display type: strings equal but not identical to 'svg' / 'mpl', str subclasses (known types), and unknown values of every
    kind - near-miss strings, None, numbers, bytes, tuples, frozensets, types, and UNHASHABLE ones (lists, sets, dicts,
    bytearrays, deques, objects without a hash): DisplayError whatever the type;
  * mode labels held in every kind of container (list, tuple, list subclass, UserList, abstract Sequence, deque, ndarray, str,
    bytes, range, dict / keys / values / items, set, frozenset - sized; generator, iterator, map, reversed - unsized; numbers
    and plain objects): a sized container of the wrong length -> DisplayError, a list / tuple of the right length -> drawing,
    other containers -> drawing or DisplayError, an object without a length -> DisplayError or TypeError (what the unchanged
    library does: `len()` of it), never any other exception class; the caller's container is unchanged afterwards;
  * display_loss / show_parameter_values given as any truthy / falsy object -> a drawing (model: that of bool(value)).

A small directed stream probes degenerate objects the API also accepts (zero-mode circuits);
it is oracle-only (the model's circuits have naturals as mode counts and `Disp.WF` needs n > 0).
"""

from __future__ import annotations

import itertools
import json
import math

import numpy as np

import circgen as cg
from core import CIRCLE, PYTH, Ctx, GQ, MachineryFault, ddmin, exc_class
from props.c02 import Gen

TRUSTED = [
    "Lean 4.33 kernel; Mathlib v4.33 as compiled on this image",
    "axioms: subset of {propext, Classical.choice, Quot.sound} (audited per theorem on every run)",
    "hand-written model LW.Model.Display (index arithmetic, label bookkeeping, option checks of both back-ends) "
    "on top of LW.Model.Circuit, tied to the code by this correspondence check",
    "drawsvg and matplotlib (shape / text primitives, figure creation) — exercised, not modelled",
    "text placed on the drawing (parameter labels / values, group names, unitary labels) — exercised, not modelled",
    "Python list semantics (IndexError on i >= len, slices clip, max() of an empty sequence raises ValueError)",
    "driver JSON parser and harness comparison code",
]
ASSUMPTIONS = [
    "trees: depth <= 3, <= 6 user modes per circuit, <= 3 declared heralds per circuit (theorems are unbounded)",
    "parameters hold real numbers; labels, names and mode labels are strings",
    "option values of other types: a display type is any Python object whose == with a str gives a bool (numpy arrays, whose "
    "elementwise == has no truth value, are not generated); display_loss / show_parameter_values are objects with a truth value "
    "and count as bool(value); mode labels given as an object without a length (generator, iterator, number) are refused by the "
    "unchanged library with the TypeError of len() - the oracle accepts that or DisplayError, nothing else; a sized container "
    "that is not a list / tuple and has the right length may be drawn or refused with DisplayError",
    "Display is observed at its return value; rendering the returned matplotlib figure is exercised on a sample only",
    "the invariant Disp.WF (hypothesis of the index-safety theorems) is proved for every object built by any history "
    "of model API calls with at least one mode per constructor (constructible_wf) and is also evaluated on the model "
    "circuit of every displayed object; zero-mode objects (Circuit(0)) are outside it and are probed oracle-only",
]

LABELS = ["a", "in", "q0", "mode", "long label", "αβγ", "x_1", "", "0123456789ab", 7, 2.5, None, True, -1, "  "]
# phase values that reach every branch of the phase text (multiples of pi/4 of either sign, n > 4,
# plain decimals, integers, numpy scalars); the model does not depend on the value
PI = math.pi
PHIS = [0, 0.0, PI / 4, PI / 2, 3 * PI / 4, PI, 5 * PI / 4, 3 * PI / 2, 2 * PI, 9 * PI / 4, 5 * PI / 2, 4 * PI,
        -PI / 4, -PI / 2, -PI, -3 * PI, 1, 3, -2, -1.23456789, 1e-9, 100.0, ["np", 0.5], ["np", PI]]
PLABELS = ["theta", "φ_1", "r", "loss_a", "p", "a long parameter label", "T"]
NAMES = ["CZ", "X", "Sub-circuit", "", "Q", "CNOT"]
ULABELS = ["U", "V1", "Haar", ""]
BAD_TYPES = ["png", "", "SVG", "matplotlib", None, 3]


# ----------------------------------------------------------------------- option values of every Python type
# (targets stay JSON: {"py": name} stands for the object built by the factory of that name)


class _S(str):
    """a str subclass"""

    __slots__ = ()


class _L(list):
    """a list subclass"""


class _NoHash:
    """defines == and therefore has no hash (the standard way to be unhashable)"""

    def __eq__(self, other):
        return self is other


class _Seq:
    """a sequence that is not a list (registered below as collections.abc.Sequence)"""

    def __init__(self, items):
        self._items = tuple(items)

    def __len__(self):
        return len(self._items)

    def __getitem__(self, i):
        return self._items[i]

    def __iter__(self):
        return iter(self._items)


import collections  # noqa: E402
import collections.abc  # noqa: E402

collections.abc.Sequence.register(_Seq)

# name -> (factory, the back-end it names or None when it is an unknown display type)
DTYPE_OBJS = {
    # known: equal to 'svg' / 'mpl' without being the interned literal
    "svg:rebuilt": (lambda: "".join(["s", "vg"]), "svg"), "mpl:rebuilt": (lambda: "".join(["m", "pl"]), "mpl"),
    "svg:str-subclass": (lambda: _S("svg"), "svg"), "mpl:str-subclass": (lambda: _S("mpl"), "mpl"),
    "svg:np.str_": (lambda: np.str_("svg"), "svg"), "mpl:np.str_": (lambda: np.str_("mpl"), "mpl"),
    # unknown strings
    "str:Svg": (lambda: "Svg", None), "str:svg+space": (lambda: "svg ", None), "str:space+svg": (lambda: " svg", None),
    "str:svg+newline": (lambda: "svg\n", None), "str:svg+nul": (lambda: "svg\0", None), "str:s": (lambda: "s", None),
    "str:svgmpl": (lambda: "svgmpl", None), "str:mpl,svg": (lambda: "mpl,svg", None), "str:cyrillic-s-vg": (lambda: "ѕvg", None),
    "str:MPL": (lambda: "MPL", None), "str:matplotlib": (lambda: "matplotlib", None), "str-subclass:png": (lambda: _S("png"), None),
    "str-subclass:empty": (lambda: _S(""), None),
    # unknown, hashable non-strings
    "none": (lambda: None, None), "int:0": (lambda: 0, None), "int:1": (lambda: 1, None), "true": (lambda: True, None),
    "false": (lambda: False, None), "float": (lambda: 1.5, None), "nan": (lambda: float("nan"), None), "complex": (lambda: 1j, None),
    "bytes:svg": (lambda: b"svg", None), "bytes:mpl": (lambda: b"mpl", None), "bytes:empty": (lambda: b"", None),
    "tuple:svg": (lambda: ("svg",), None), "tuple:mpl,svg": (lambda: ("mpl", "svg"), None), "tuple:empty": (lambda: (), None),
    "frozenset:svg": (lambda: frozenset({"svg"}), None), "type:str": (lambda: str, None), "function": (lambda: len, None),
    "object": (lambda: object(), None), "ellipsis": (lambda: ..., None), "range": (lambda: range(3), None),
    "np.int64": (lambda: np.int64(3), None), "np.bytes_": (lambda: np.bytes_(b"svg"), None), "fraction": (lambda: __import__("fractions").Fraction(1, 2), None),
    # unknown, UNHASHABLE
    "list:svg": (lambda: ["svg"], None), "list:mpl": (lambda: ["mpl"], None), "list:mpl,svg": (lambda: ["mpl", "svg"], None),
    "list:empty": (lambda: [], None), "list:nested": (lambda: [["svg"]], None), "set:svg": (lambda: {"svg"}, None),
    "set:empty": (lambda: set(), None), "dict:svg": (lambda: {"svg": True}, None), "dict:empty": (lambda: {}, None),
    "dict:display_type": (lambda: {"display_type": "svg"}, None), "bytearray:svg": (lambda: bytearray(b"svg"), None),
    "bytearray:mpl": (lambda: bytearray(b"mpl"), None), "bytearray:empty": (lambda: bytearray(), None),
    "deque:svg": (lambda: collections.deque(["svg"]), None), "userlist:svg": (lambda: collections.UserList(["svg"]), None),
    "userdict": (lambda: collections.UserDict({"svg": 1}), None), "list-subclass:svg": (lambda: _L(["svg"]), None),
    "no-hash-object": (lambda: _NoHash(), None), "memoryview": (lambda: memoryview(bytearray(b"svg")), None),
    "tuple-holding-list": (lambda: ("svg", []), None),
}
UNKNOWN_DTYPES = [k for k, (_f, be) in DTYPE_OBJS.items() if be is None]
EQUAL_DTYPES = [k for k, (_f, be) in DTYPE_OBJS.items() if be is not None]

# truthy / falsy objects for the two boolean options
OPT_OBJS = {
    "int:1": lambda: 1, "int:0": lambda: 0, "int:2": lambda: 2, "none": lambda: None, "str:yes": lambda: "yes", "str:False": lambda: "False",
    "str:empty": lambda: "", "list:empty": lambda: [], "list:0": lambda: [0], "dict:empty": lambda: {}, "tuple:0": lambda: (0,),
    "bytes:empty": lambda: b"", "float:0": lambda: 0.0, "float:2.5": lambda: 2.5, "nan": lambda: float("nan"), "np.true": lambda: np.True_,
    "np.false": lambda: np.False_, "np.int:0": lambda: np.int64(0), "np.array:1": lambda: np.array([1]), "object": lambda: object(),
    "set:empty": lambda: set(), "no-hash-object": lambda: _NoHash(),
}

# containers the labels can be held in
LC_LISTLIKE = ["list", "tuple", "list-subclass"]  # the documented kind: right length -> a drawing
LC_SIZED = ["userlist", "sequence", "deque", "ndarray", "str", "bytes", "bytearray", "range", "dict", "dict_keys", "dict_values", "dict_items",
            "set", "frozenset"]
LC_UNSIZED = ["generator", "iterator", "map", "reversed", "zip"]
LC_SCALAR = ["int", "float", "true", "false", "object", "ellipsis"]
LC_ALL = LC_LISTLIKE + LC_SIZED + LC_UNSIZED + LC_SCALAR
VIAS = ["Display", "Display:positional", "method", "method:positional"]


def build_labels(kind: str, items: list):
    uniq = [f"{x}#{i}" for i, x in enumerate(items)]
    n = len(items)
    return {
        "list": lambda: list(items), "tuple": lambda: tuple(items), "list-subclass": lambda: _L(items),
        "userlist": lambda: collections.UserList(items), "sequence": lambda: _Seq(items), "deque": lambda: collections.deque(items),
        "ndarray": lambda: np.array([str(x) for x in items], dtype=object), "str": lambda: "".join((str(x) + "_")[0] for x in items),
        "bytes": lambda: bytes(range(65, 65 + n)), "bytearray": lambda: bytearray(range(65, 65 + n)), "range": lambda: range(n),
        "dict": lambda: {u: i for i, u in enumerate(uniq)}, "dict_keys": lambda: {u: i for i, u in enumerate(uniq)}.keys(),
        "dict_values": lambda: dict(enumerate(items)).values(), "dict_items": lambda: {u: i for i, u in enumerate(uniq)}.items(),
        "set": lambda: set(uniq), "frozenset": lambda: frozenset(uniq),
        "generator": lambda: (x for x in items), "iterator": lambda: iter(list(items)), "map": lambda: map(str, items),
        "reversed": lambda: reversed(list(items)), "zip": lambda: zip(items, items),
        "int": lambda: n, "float": lambda: float(n), "true": lambda: True, "false": lambda: False, "object": lambda: object(),
        "ellipsis": lambda: ...,
    }[kind]()


def py_value(spec, table):
    """resolve a JSON option value: {"py": name} -> a fresh object of that name"""
    if isinstance(spec, dict) and "py" in spec:
        f = table[spec["py"]]
        return (f[0] if isinstance(f, tuple) else f)()
    return spec


def backend(t: dict):
    """the back-end the display type names ('svg' / 'mpl'), None for an unknown display type"""
    d = t["dtype"]
    if isinstance(d, dict) and "py" in d:
        return DTYPE_OBJS[d["py"]][1]
    return d if isinstance(d, str) and d in ("svg", "mpl") else None


def truth(spec) -> bool:
    try:
        return bool(py_value(spec, OPT_OBJS))
    except Exception:  # noqa: BLE001
        return False


def label_info(t: dict) -> dict:
    """what kind of thing is passed as mode_labels, and (for a sized container) its length and elements"""
    if t["labels"] is None:
        return {"kind": "none"}
    lc = t.get("lc", "list")
    obj = build_labels(lc, t["labels"])
    if lc in LC_UNSIZED:
        return {"kind": "unsized", "n": len(list(obj))}
    if lc in LC_SCALAR:
        return {"kind": "scalar"}
    return {"kind": "listlike" if lc in LC_LISTLIKE else "sized", "n": len(obj), "items": list(obj)}


# --------------------------------------------------------------------------- generation


class Gen19(Gen):
    """c02.Gen + unitary blocks (every component kind of the spec is then reachable)"""

    def circuit(self, depth: int, max_n: int = 6) -> str:
        rng = self.rng
        cid = self.fresh()
        n = rng.randint(1, max_n)
        self.prog.append(["new", cid, n])
        self.ports[cid], self.hin[cid], self.hout[cid], self.anc[cid] = n, set(), set(), 0
        nops = rng.randint(0, 6 if depth else 5)
        for _ in range(nops):
            r = rng.random()
            if depth > 0 and r < 0.40:
                self.add_sub(cid, depth)
            elif r < 0.50:
                self.unitary_block(cid)
            elif r < 0.64 and len(self.hin[cid]) < min(3, n):
                self.herald(cid)
            else:
                self.prog.append(cg.rand_prim_op(rng, cid, n, p_invalid=0.05))
        return cid

    def unitary_block(self, cid: str) -> None:
        rng = self.rng
        p = self.ports[cid]
        sz = rng.randint(1, min(p, 4))
        uid = self.fresh()
        self.prog.append(["unitary", uid, cg.mat_json(cg.exact_unitary(rng, sz, depth=rng.randint(0, 3))),
                          {"label": rng.choice(ULABELS)}])
        self.ports[uid], self.hin[uid], self.hout[uid], self.anc[uid] = sz, set(), set(), 0
        mode = rng.randint(0, p - sz)
        self.prog.append(["add", cid, uid, mode, rng.random() < 0.4])
        self.ctx.count("gen:unitary_block")


def decorate(rng, prog: list) -> None:
    """implementation-only literals: Parameters (labelled or not) in place of numbers, group names"""
    for op in prog:
        name = op[0]
        if name == "add" and rng.random() < 0.5:
            op.append({"name": rng.choice(NAMES)})
        elif name in ("ps", "bs", "loss") and isinstance(op[-1], dict) and not op[-1] and rng.random() < 0.5:
            ex = op[-1]
            lab = lambda: rng.choice([None, *PLABELS])  # noqa: E731
            if name == "ps":
                if rng.random() < 0.5:
                    ex["phi_lit"] = rng.choice(PHIS)
                if rng.random() < 0.8:
                    ex["pphi"] = lab()
                if op[4] is not None and rng.random() < 0.5:
                    ex["ploss"] = lab()
            elif name == "bs":
                if rng.random() < 0.8:
                    ex["prefl"] = lab()
                if op[7] is not None and rng.random() < 0.5:
                    ex["ploss"] = lab()
            else:
                ex["ploss"] = lab()


def gen_program(ctx: Ctx, rng) -> tuple[list, str]:
    g = Gen19(ctx, rng)
    depth = rng.choice([0, 1, 2, 2, 3])
    root = g.circuit(depth)
    prog = g.prog
    decorate(rng, prog)
    # rewrites of a copy of the root, and the sum of two herald-free circuits
    r = rng.random()
    if r < 0.30:
        prog.append(["copy", "r2", root])
        prog.append([rng.choice(["unpack", "compress", "nonadj"]), "r2"])
    elif r < 0.38:
        prog.append(["plus", "r3", root, root])
    return prog, root


# --------------------------------------------------------------------------- execution


def apply_op19(pool: dict, op: list, params: list) -> str:
    """cg.apply_op extended with the decorations (Parameters, names, labels)"""
    import lightworks as lw

    name = op[0]
    ex = op[-1] if isinstance(op[-1], dict) else {}

    def par(key, val):
        if key in ex:
            p = lw.Parameter(val, label=ex[key])
            params.append((p, val, ex[key]))
            return p
        return val

    try:
        if name == "ps" and ("pphi" in ex or "ploss" in ex or "phi_lit" in ex):
            _, cid, m, p, lossab, *_ = op
            g = GQ.parse(p)
            phi = math.atan2(float(g.im), float(g.re))
            if "phi_lit" in ex:
                phi = ex["phi_lit"]
                phi = np.float64(phi[1]) if isinstance(phi, list) else phi
            loss = 0 if lossab is None else float(cg._f(lossab[1]) ** 2)
            pool[cid].ps(m, par("pphi", phi), loss=par("ploss", loss))
        elif name == "bs" and ("prefl" in ex or "ploss" in ex):
            _, cid, m1, m2, c, _s, conv, lossab, *_ = op
            refl = float(cg._f(c) ** 2)
            loss = 0 if lossab is None else float(cg._f(lossab[1]) ** 2)
            pool[cid].bs(m1, m2, reflectivity=par("prefl", refl), loss=par("ploss", loss), convention=conv)
        elif name == "loss" and "ploss" in ex:
            _, cid, m, _a, b, *_ = op
            pool[cid].loss(m, par("ploss", float(cg._f(b) ** 2)))
        elif name == "unitary" and "label" in ex:
            u = np.array([[complex(GQ.parse(x)) for x in r] for r in op[2]], dtype=complex)
            pool[op[1]] = lw.Unitary(u, label=ex["label"])
        elif name == "add" and "name" in ex:
            pool[op[1]].add(pool[op[2]], op[3], group=op[4], name=ex["name"])
        else:
            return cg.apply_op(pool, op)
    except Exception as e:  # noqa: BLE001
        return exc_class(e)
    return "ok"


def run_program(prog: list) -> tuple[dict, list, list, dict]:
    """pool, per-op outcomes, parameters, and the number of usable modes of each circuit — the
    number of modes it was created with (harness-side ground truth for the label length)"""
    pool: dict = {}
    params: list = []
    res = []
    ports: dict = {}
    for op in prog:
        r = apply_op19(pool, op, params)
        res.append(r)
        if r != "ok":
            continue
        name = op[0]
        if name == "new":
            ports[op[1]] = op[2]
        elif name == "unitary":
            ports[op[1]] = len(op[2])
        elif name in ("copy", "plus"):
            ports[op[1]] = ports[op[2]]
        elif name == "unpack":
            ports[op[1]] = pool[op[1]].n_modes  # every mode is addressable again
    return pool, res, params, ports


def snapshot(pool: dict, params: list) -> dict:
    """public state of every live object"""
    import lightworks as lw

    snap = {}
    for cid, c in pool.items():
        o = cg.observe(c)
        s = {"n": o["n"], "input_modes": o["input_modes"], "in": o["in_heralds"], "out": o["out_heralds"],
             "U_full": o.get("U_full"), "U_error": o.get("U_error")}
        try:
            s["svg"] = lw.Display(c).as_svg()
        except Exception as e:  # noqa: BLE001
            s["svg"] = "raises " + exc_class(e)
        snap[cid] = s
    snap["#params"] = [(p.get(), p.label) for p, _, _ in params]
    return snap


def snap_diff(a: dict, b: dict) -> str | None:
    for k in a:
        if k == "#params":
            if a[k] != b[k]:
                return "a Parameter value or label changed"
            continue
        for f in ("n", "input_modes", "in", "out", "U_error", "svg"):
            if a[k][f] != b[k][f]:
                return f"{k}.{f} changed"
        ua, ub = a[k]["U_full"], b[k]["U_full"]
        if (ua is None) != (ub is None) or (ua is not None and not np.array_equal(ua, ub)):
            return f"{k}.U_full changed"
    return None


def do_display(c, t: dict, render: bool = False) -> dict:
    """run the real Display (or Circuit.display); returns {"exc": class, "msg": …} or the observables of the drawing"""
    import contextlib
    import io
    import warnings

    import matplotlib.pyplot as plt

    import lightworks as lw

    dtype = py_value(t["dtype"], DTYPE_OBJS)
    loss, values = py_value(t["loss"], OPT_OBJS), py_value(t["values"], OPT_OBJS)
    labels = None if t["labels"] is None else build_labels(t.get("lc", "list"), t["labels"])
    info = label_info(t)
    held = list(labels) if info["kind"] in ("listlike", "sized") else None  # the caller's view of its own container
    via = t.get("via", "Display")
    be = backend(t)
    out: dict = {}
    try:
        with warnings.catch_warnings(), contextlib.redirect_stdout(io.StringIO()):
            warnings.simplefilter("ignore")
            if via == "Display":
                r = lw.Display(c, display_type=dtype, display_loss=loss, mode_labels=labels, show_parameter_values=values)
            elif via == "Display:positional":
                r = lw.Display(c, loss, labels, dtype, values)
            elif via == "method":
                r = c.display(display_type=dtype, display_loss=loss, mode_labels=labels, show_parameter_values=values)
            else:
                r = c.display(values, loss, labels, dtype)
        if via.startswith("method"):
            out = {"returned": type(r).__name__}
        elif be == "mpl":
            fig, ax = r
            out = {"xlim": [float(v) for v in ax.get_xlim()], "ylim": [float(v) for v in ax.get_ylim()],
                   "yticks": [float(v) for v in ax.get_yticks()],
                   "labels": [x.get_text() for x in ax.get_yticklabels()]}
            if render:
                fig.set_dpi(40)
                fig.canvas.draw()
                out["rendered"] = True
        else:
            out = {"width": float(r.width), "height": float(r.height)}
            if render:
                out["rendered"] = len(r.as_svg()) > 0
    except Exception as e:  # noqa: BLE001
        out = {"exc": exc_class(e), "msg": str(e)[:200]}
    finally:
        plt.close("all")
    if held is not None:
        try:
            now = list(labels)
            same = len(now) == len(held) and all(type(a) is type(b) and (a is b or a == b) for a, b in zip(held, now))
        except Exception as e:  # noqa: BLE001
            same, now = False, exc_class(e)
        if not same:
            out["labels_changed"] = f"{held!r} -> {now!r}"
    return out


def model_target(t: dict) -> dict:
    be = backend(t)
    d = t["dtype"]
    info = label_info(t)
    return {"id": t["id"], "dtype": be if be else ("unknown:" + d["py"] if isinstance(d, dict) else d), "loss": truth(t["loss"]),
            "values": truth(t["values"]), "labels": [str(x) for x in info["items"]] if "items" in info else None}


def call_text(t: dict) -> str:
    opt = lambda v: v["py"] if isinstance(v, dict) else repr(v)  # noqa: E731
    lab = "None" if t["labels"] is None else f"{t.get('lc', 'list')} of {t['labels']!r}"
    how = {"Display": "Display", "Display:positional": "Display (positional arguments)", "method": "Circuit.display",
           "method:positional": "Circuit.display (positional arguments)"}[t.get("via", "Display")]
    return (f"{how}({t['id']}, display_type={opt(t['dtype'])}, display_loss={opt(t['loss'])}, mode_labels={lab}, "
            f"show_parameter_values={opt(t['values'])})")


def frac(s: str) -> float:
    from fractions import Fraction

    return float(Fraction(s))


def expected_outcomes(t: dict, expected_ports: int) -> tuple[set, str]:
    """the outcomes the property allows for these options: a set out of {"drawing", "DisplayError", "TypeError"} and why"""
    if backend(t) is None:
        return {"DisplayError"}, "unknown display type"
    info = label_info(t)
    if info["kind"] == "none":
        return {"drawing"}, "valid options"
    if info["kind"] == "listlike":
        if info["n"] == expected_ports:
            return {"drawing"}, "valid options"
        return {"DisplayError"}, f"label list length != {expected_ports}"
    if info["kind"] == "sized":
        if info["n"] == expected_ports:
            return {"drawing", "DisplayError"}, "labels in a container that is not a list, of the right length"
        return {"DisplayError"}, f"label container length != {expected_ports}"
    # no length: refused as a wrong argument (DisplayError, or the TypeError of len() as in the unchanged library)
    ok = {"DisplayError", "TypeError"}
    if info["kind"] == "unsized" and info["n"] == expected_ports:
        ok.add("drawing")
    return ok, "labels given as an object without a length"


def compare(t: dict, got: dict, m: dict, expected_ports: int) -> list[str]:
    """problems of one Display call: oracle clauses first, then model-vs-code"""
    probs = []
    allowed, why = expected_outcomes(t, expected_ports)
    outcome = got.get("exc", "drawing")
    if "labels_changed" in got:
        probs.append(f"oracle:caller-container-modified: {call_text(t)} changed the container holding the labels: {got['labels_changed']}")
    if outcome not in allowed:
        if "exc" in got and got["exc"] != "DisplayError":
            probs.append(f"oracle:unexpected-exception: {call_text(t)} raised {got['exc']}: {got['msg']} ({why}: "
                         f"{' or '.join(sorted(allowed))} required)")
        elif "exc" in got:
            probs.append(f"oracle:rejected-valid-options: {call_text(t)} "
                         f"raised DisplayError although the options are valid ({got['msg']})")
        else:
            probs.append(f"oracle:accepted-invalid-options: {call_text(t)} "
                         f"returned a drawing; a DisplayError is required ({why})")
    if probs or t.get("oracle_only") or label_info(t)["kind"] in ("unsized", "scalar"):
        return probs
    # correspondence
    if "exc" in got:
        if m.get("err") != got["exc"]:
            probs.append(f"corr: {call_text(t)} impl raised {got['exc']}, model: {m}")
        return probs
    if "err" in m:
        probs.append(f"corr: {call_text(t)} impl returned a drawing, model raised {m['err']}")
        return probs
    tol = 1e-9
    if "returned" in got:  # Circuit.display shows the drawing and returns nothing
        return probs
    if backend(t) == "svg":
        if abs(got["width"] - frac(m["width"])) > tol or abs(got["height"] - frac(m["height"])) > tol:
            probs.append(f"corr: svg size impl=({got['width']},{got['height']}) model=({m['width']},{m['height']})")
    else:
        ys = [frac(y) for y in m["ys"]]
        if abs(got["xlim"][0]) > tol or abs(got["xlim"][1] - frac(m["width"])) > tol:
            probs.append(f"corr: mpl xlim impl={got['xlim']} model=(0,{m['width']})")
        elif abs(got["ylim"][1] + 1) > tol or abs(got["ylim"][0] - frac(m["height"])) > tol:
            probs.append(f"corr: mpl ylim impl={got['ylim']} model=({m['height']},-1)")
        elif len(ys) != len(got["yticks"]) or any(abs(a - b) > tol for a, b in zip(ys, got["yticks"])):
            probs.append(f"corr: mpl yticks impl={got['yticks']} model={m['ys']}")
        elif got["labels"] != m["labels"]:
            probs.append(f"corr: mpl yticklabels impl={got['labels']} model={m['labels']}")
    return probs


def run_targets(ctx: Ctx, prog: list, targets: list, check_state: bool = True, render: bool = False,
                need_wf: bool = True) -> tuple[list[tuple], dict]:
    """run the program and the Display calls on implementation and model; returns the problems as
    (target or None, text) pairs and the model's response"""
    pool, impl_res, params, ports = run_program(prog)
    targets = [t for t in targets if t["id"] in pool]
    mres = ctx.model.call({"op": "display", "prog": prog, "targets": [model_target(t) for t in targets]})
    probs: list[tuple] = []
    for k, (a, b) in enumerate(zip(impl_res, mres["results"])):
        if a != b:
            probs.append((None, f"corr: construction call #{k} {prog[k][:5]} impl={a} model={b}"))
            return probs, mres
    before = snapshot(pool, params) if check_state else None
    for t, m in zip(targets, mres["out"]):
        got = do_display(pool[t["id"]], t, render=render)
        t["_got"] = got
        probs += [(t, p) for p in compare(t, got, m, ports[t["id"]])]
        if need_wf and not mres["wf"].get(t["id"], False):
            probs.append((t, f"corr: the model circuit of {t['id']} does not satisfy Disp.WF (hypothesis of the theorems)"))
    if check_state:
        d = snap_diff(before, snapshot(pool, params))
        if d:
            probs.append((None, f"oracle:side-effect: after the Display calls {d}"))
    return probs, mres


# --------------------------------------------------------------------------- option combinations


def label_choices(rng, ports: int) -> dict:
    good = [rng.choice(LABELS) for _ in range(ports)]
    wrong_n = rng.choice([k for k in (ports - 1, ports + 1, 0, ports + 3) if k >= 0 and k != ports])
    return {"none": None, "good": good, "wrong": [rng.choice(LABELS) for _ in range(wrong_n)]}


def make_targets(ctx: Ctx, rng, cid: str, ports: int, n_mpl: int) -> list[dict]:
    lc = label_choices(rng, ports)
    combos = list(itertools.product([False, True], [False, True], ["none", "good", "wrong"]))
    out = []
    for loss, values, lk in combos:  # svg: the full product
        out.append({"id": cid, "dtype": "svg", "loss": loss, "values": values, "labels": lc[lk], "lk": lk})
    for loss, values, lk in rng.sample(combos, n_mpl):  # mpl: a sample (figure creation is slow)
        out.append({"id": cid, "dtype": "mpl", "loss": loss, "values": values, "labels": lc[lk], "lk": lk})
    if rng.random() < 0.5:  # malformed stream: unknown display type
        out.append({"id": cid, "dtype": rng.choice(BAD_TYPES), "loss": rng.random() < 0.5,
                    "values": rng.random() < 0.5, "labels": lc[rng.choice(["none", "good", "wrong"])], "lk": "badtype"})
    return out


def option_type_targets(ctx: Ctx, rng, cid: str, ports: int, n: int = 1, mpl: float = 0.25) -> list[dict]:
    """option values of every Python type, through every way of calling: `n` rounds of (an unknown display type of any
    type, a display type equal to a known one, labels in any container of the right / a wrong length, truthy / falsy objects)"""
    out = []
    flag = lambda: rng.random() < 0.5  # noqa: E731
    for _ in range(n):
        lc = label_choices(rng, ports)
        lk = rng.choice(["none", "good", "wrong"])
        out.append({"id": cid, "dtype": {"py": rng.choice(UNKNOWN_DTYPES)}, "loss": flag(), "values": flag(), "labels": lc[lk],
                    "lc": rng.choice(LC_ALL), "via": rng.choice(VIAS), "lk": "badtype:any-type"})
        eq = rng.choice(EQUAL_DTYPES)
        if DTYPE_OBJS[eq][1] == "svg" or rng.random() < mpl:
            lk = rng.choice(["none", "good", "wrong"])
            out.append({"id": cid, "dtype": {"py": eq}, "loss": flag(), "values": flag(), "labels": lc[lk], "via": rng.choice(VIAS),
                        "lk": lk + ":equal-string"})
        for lk in ("good", "wrong"):
            kind = rng.choice(LC_ALL)
            out.append({"id": cid, "dtype": "mpl" if rng.random() < mpl / 2 else "svg", "loss": flag(), "values": flag(), "labels": lc[lk],
                        "lc": kind, "via": rng.choice(VIAS[:3]), "lk": f"{lk}:{kind}"})
        out.append({"id": cid, "dtype": "mpl" if rng.random() < mpl / 2 else "svg", "loss": {"py": rng.choice(list(OPT_OBJS))},
                    "values": {"py": rng.choice(list(OPT_OBJS))}, "labels": lc[rng.choice(["none", "good"])], "via": rng.choice(VIAS[:2]),
                    "lk": "truthy-falsy-options"})
    return out


def option_type_corpus(cid: str, ports: int, mpl: bool) -> list[dict]:
    """the directed part: every unknown display type x every way of calling; every equal string; every container kind with
    the right and with wrong lengths; every truthy / falsy object for either boolean option"""
    good = [LABELS[i % len(LABELS)] for i in range(ports)]
    lens = sorted({k for k in (0, 1, ports - 1, ports + 1, 2 * ports) if k >= 0 and k != ports})
    base = {"id": cid, "loss": False, "values": False, "labels": None}
    out = []
    for name in UNKNOWN_DTYPES:
        out += [{**base, "dtype": {"py": name}, "via": via, "lk": "badtype:any-type"} for via in VIAS]
        out.append({**base, "dtype": {"py": name}, "labels": good, "loss": True, "values": True, "lk": "badtype:any-type"})
    for name in EQUAL_DTYPES:
        if DTYPE_OBJS[name][1] == "svg" or mpl:
            out += [{**base, "dtype": {"py": name}, "via": via, "labels": lab, "lk": "equal-string"}
                    for via in VIAS for lab in (None, good, good + ["x"])]
    for dtype in ("svg", "mpl") if mpl else ("svg",):
        for kind in LC_ALL:
            out.append({**base, "dtype": dtype, "labels": good, "lc": kind, "lk": "good:" + kind})
            out += [{**base, "dtype": dtype, "labels": [LABELS[i % 7] for i in range(k)], "lc": kind, "lk": "wrong:" + kind}
                    for k in (lens if dtype == "svg" else lens[-1:])]
            if dtype == "svg":
                out += [{**base, "dtype": dtype, "labels": lab, "lc": kind, "via": "method", "loss": True, "lk": "method:" + kind}
                        for lab in (good, good + ["x"])]
        for name in OPT_OBJS:
            out.append({**base, "dtype": dtype, "loss": {"py": name}, "lk": "truthy-falsy-options"})
            out.append({**base, "dtype": dtype, "values": {"py": name}, "loss": True, "labels": good, "lk": "truthy-falsy-options"})
    return out


def strip(t: dict) -> dict:
    return {k: v for k, v in t.items() if not k.startswith("_")}


def category(p: str) -> str:
    return p.split(":")[1].strip() if p.startswith("oracle:") else "corr"


def signature(ctx: Ctx, prog: list, t: dict, prob: str) -> dict:
    empty_barrier = any(op[0] == "barrier" and op[2] == [] for op in prog)
    zero = any(op[0] == "new" and op[2] <= 0 for op in prog) or any(op[0] == "unitary" and len(op[2]) == 0 for op in prog)
    got = t.get("_got", {})
    pool = run_program(prog)[0]
    target_zero = t.get("id") in pool and pool[t["id"]].n_modes <= 0
    d = t["dtype"]
    if isinstance(d, dict):  # option values of other types: the class of value, not each value
        obj = py_value(d, DTYPE_OBJS)
        try:
            hash(obj)
            hashable = "hashable"
        except Exception:  # noqa: BLE001
            hashable = "unhashable"
        d = backend(t) or f"unknown display type ({'str' if isinstance(obj, str) else hashable + ' non-str'})"
    return {"target_zero_mode": target_zero, "kind": category(prob), "exc": got.get("exc"), "dtype": d if isinstance(d, str) else repr(d),
            "barrier_empty": empty_barrier, "zero_mode": zero, "via": t.get("via", "Display").split(":")[0],
            "labels": label_info(t)["kind"] if "labels" in t else "none"}


def shrink_and_report(ctx: Ctx, prog: list, targets: list, prob: str, model: bool = True) -> None:
    """shrink the program (and the set of Display calls) on which a problem of this category
    shows, then report it: oracle problems as violations, model-vs-code differences as
    disagreements"""
    cat = category(prob)
    ts = [strip(t) for t in targets]
    # shrinking is the expensive part: at most a handful per kind of problem, further instances are counted
    kind = f"{cat}/{prob.split(' raised ')[1].split(':')[0] if ' raised ' in prob else ''}/{'model' if model else 'oracle-only'}"
    done = ctx.extra.setdefault("problems_by_kind", {})
    done[kind] = done.get(kind, 0) + 1
    if cat != "corr" and done[kind] > 8 and ctx.violations:
        ctx.count("problems_counted_not_shrunk")
        return

    def problems(sub, tl):
        tl = [dict(t) for t in tl]
        if model:
            return [(t, p) for t, p in run_targets(ctx, sub, tl, check_state=(cat == "side-effect"))[0]]
        return run_oracle_only(sub, tl)

    def still(sub):
        return cg.well_formed(sub) and any(category(p) == cat for _, p in problems(sub, ts))

    small = ddmin(prog, still) if len(prog) > 1 else prog
    if len(ts) > 1:
        ts = ddmin(ts, lambda tl: any(category(p) == cat for _, p in problems(small, tl)))
    final = [(t, p) for t, p in problems(small, ts) if category(p) == cat] or [(None, prob)]
    t, text = final[0]
    t = t if t is not None else (ts[0] if ts else {"id": "?", "dtype": "svg"})
    rep = {"program": small, "targets": [strip(x) for x in ts], "problems": [p for _, p in final], "model": model}
    if cat == "corr":
        ctx.disagreement(text, rep)
        return
    sig = signature(ctx, small, t, text)
    key = json.dumps(sig, sort_keys=True, default=str)
    seen = ctx.extra.setdefault("violation_signatures", {})
    seen[key] = seen.get(key, 0) + 1
    if seen[key] == 1:  # one replay per distinct signature; repeats are counted
        ctx.violation(text, rep, sig=sig)


# --------------------------------------------------------------------------- degenerate objects (oracle only)


def run_oracle_only(prog: list, targets: list) -> list[tuple]:
    pool, _res, params, _ports = run_program(prog)
    probs: list[tuple] = []
    before = snapshot(pool, params)
    for t in targets:
        if t["id"] not in pool:
            continue
        got = do_display(pool[t["id"]], t)
        t["_got"] = got
        if "exc" in got and got["exc"] != "DisplayError":
            probs.append((t, f"oracle:unexpected-exception: {call_text(t)} on the "
                             f"circuit built by {[o[:5] for o in prog]} raised {got['exc']}: {got['msg']}"))
    d = snap_diff(before, snapshot(pool, params))
    if d:
        probs.append((None, f"oracle:side-effect: after the Display calls {d}"))
    return probs


def degenerate_stream(ctx: Ctx, rng) -> None:
    """zero-mode objects: `Circuit(0)`, a 0x0 `Unitary`, and a parent to which one was added as a group"""
    progs = [([["new", "z", 0]], "z"), ([["unitary", "z", []]], "z")]
    for n in (1, 2, 3):
        for m in range(n):
            progs.append(([["new", "c", n], ["new", "z", 0], ["add", "c", "z", m, True]], "c"))
    progs.append(([["new", "c", 2], ["bs", "c", 0, 1, "3/5", "4/5", "Rx", None, True, True, {}], ["new", "z", 0],
                   ["add", "c", "z", 0, True, {"name": "empty"}], ["ps", "c", 1, "0,1", None, True, {}]], "c"))
    for prog, cid in progs:
        pool, res, _params, _ports = run_program(prog)
        if cid not in pool or any(r != "ok" for r in res):
            ctx.count("degenerate:not_constructible")  # e.g. a constructor that rejects n < 1
            continue
        for dtype in ("svg", "mpl"):
            t = {"id": cid, "dtype": dtype, "loss": False, "values": False, "labels": None}
            probs = run_oracle_only(prog, [t])
            ctx.count("degenerate:displayed")
            ctx.case(("degenerate", repr(prog), dtype), False)
            for _t, p in probs[:1]:
                shrink_and_report(ctx, prog, [t], p, model=False)


# --------------------------------------------------------------------------- directed regression programs


def directed_programs() -> list[tuple[list, list]]:
    """hand-written programs run first on every seed: the minimal inputs of past findings and the
    bookkeeping corners of DESIGN §5 (ancilla inside a later span, herald in != out, nesting)"""
    bs = lambda c, a, b: ["bs", c, a, b, "3/5", "4/5", "Rx", None, True, True, {}]  # noqa: E731
    ps = lambda c, m: ["ps", c, m, "0,1", ["4/5", "3/5"], True, {"pphi": "theta"}]  # noqa: E731
    sub = [["new", "s", 3], bs("s", 0, 1), bs("s", 1, 2), ["herald", "s", 1, 2, 0]]
    return [
        ([["new", "c", 1], ["barrier", "c", []]], ["c"]),                                   # F12
        ([["new", "c", 3], ["barrier", "c", []], bs("c", 0, 2), ["barrier", "c", None]], ["c"]),
        ([["new", "c", 2], ["swaps", "c", []], ["barrier", "c", [1]]], ["c"]),
        (sub + [["new", "c", 4], ps("c", 3), ["add", "c", "s", 1, False, {"name": "H"}], bs("c", 0, 3),
                ["add", "c", "s", 0, True], ["herald", "c", 0, 3, 1], ["loss", "c", 2, "3/5", "4/5", True, {}]],
         ["s", "c"]),
        (sub + [["new", "m", 3], ["add", "m", "s", 0, True], ["new", "c", 5], ["add", "c", "m", 1, True, {"name": "nested"}],
                ["add", "c", "m", 0, False], ["copy", "r2", "c"], ["unpack", "r2"]], ["m", "c", "r2"]),
    ]


def target_key(t: dict) -> str:
    return json.dumps(strip(t), sort_keys=True, default=repr)


def count_target(ctx: Ctx, t: dict) -> None:
    """coverage of the option-type dimension"""
    got = t.get("_got", {})
    d = t["dtype"]
    if isinstance(d, dict):
        ctx.count("dtype:" + ("equal-to-known:" if backend(t) else "unknown:") + d["py"].split(":")[0])
    ctx.count("via:" + t.get("via", "Display"))
    if t["labels"] is not None and ("lc" in t):
        ctx.count(f"labels:container:{t['lc']}:{got.get('exc', 'drawing')}")
        if label_info(t)["kind"] in ("unsized", "scalar"):
            ctx.count("labels:without-a-length:oracle-only")
            if got.get("exc") == "TypeError" and not ctx.extra.get("noted_unsized_labels"):
                ctx.extra["noted_unsized_labels"] = True
                ctx.notes.append("observation (not counted): mode labels given as an object without a length (a generator, an iterator, a "
                                 "number) and a known display type are refused with TypeError (len() of it), not with DisplayError")
    if isinstance(t["loss"], dict) or isinstance(t["values"], dict):
        ctx.count("options:truthy-falsy-object")


def option_type_stream(ctx: Ctx, rng) -> None:
    """the option-type corpus on a few fixed circuits: one mode; a declared herald (usable modes != n_modes); groups with
    ancillas, loss elements and Parameters"""
    progs = directed_programs()
    one = ([["new", "c", 1], ["ps", "c", 0, "0,1", None, True, {"pphi": "theta"}]], ["c"])
    for k, (prog, ids) in enumerate([one, (progs[3][0], ["s"]), (progs[3][0], ["c"])]):
        pool, _res, _params, ports = run_program(prog)
        del pool
        targets = []
        for cid in ids:
            if cid in ports:
                targets += option_type_corpus(cid, ports[cid], mpl=(k == 1))
        probs, _ = run_targets(ctx, prog, targets)
        ctx.count("option_type_programs")
        for t in targets:
            if "_got" in t:
                ctx.case(("option-types", k, target_key(t)), True)
                count_target(ctx, t)
        seen = set()
        for t, p in probs:
            key = (category(p), t.get("via") if t else None, backend(t) if t else None)
            if key not in seen and len(seen) < 6:
                seen.add(key)
                shrink_and_report(ctx, prog, [t] if t is not None else targets, p)


def directed_stream(ctx: Ctx, rng) -> None:
    for prog, ids in directed_programs():
        pool, _res, _params, ports = run_program(prog)
        del pool
        targets = []
        for cid in ids:
            if cid in ports:
                targets += make_targets(ctx, rng, cid, ports[cid], 4)
                targets += option_type_targets(ctx, rng, cid, ports[cid], n=3)
        probs, _ = run_targets(ctx, prog, targets)
        ctx.count("directed_programs")
        for t in targets:
            if "_got" in t:
                ctx.case(("directed", repr(prog), target_key(t)), True)
                count_target(ctx, t)
        seen = set()
        for t, p in probs:
            if category(p) not in seen:
                seen.add(category(p))
                shrink_and_report(ctx, prog, [t] if t is not None else targets, p)


# --------------------------------------------------------------------------- entry points


def self_test(ctx: Ctx) -> None:
    """the driver must reproduce F12 on the model of the pinned code and not on the repaired model,
    and the comparison code must see an injected difference"""
    prog = [["new", "c", 2], ["barrier", "c", []]]
    tg = [{"id": "c", "dtype": "svg", "loss": False, "values": False, "labels": None}]
    a = ctx.model.call({"op": "display", "prog": prog, "targets": tg, "pinned": True})["out"][0]
    b = ctx.model.call({"op": "display", "prog": prog, "targets": tg})["out"][0]
    if a.get("err") != "ValueError" or "err" in b:
        raise MachineryFault(f"self-test: pinned model {a}, repaired model {b}")
    fake = {"width": frac(b["width"]) + 1, "height": frac(b["height"])}
    if not compare(dict(tg[0]), fake, b, 2):
        raise MachineryFault("self-test: the comparison does not see an injected difference")
    ctx.count("selftest_ok")


def features(ctx: Ctx, prog: list, root: str) -> None:
    ops = [op[0] for op in prog]
    for k in set(ops):
        ctx.count("op:" + k, ops.count(k))
    if any(op[0] == "barrier" and op[2] == [] for op in prog):
        ctx.count("feat:empty_barrier")
    if any(op[0] == "swaps" and op[2] == [] for op in prog):
        ctx.count("feat:empty_swaps")
    if any(isinstance(op[-1], dict) and any(k in op[-1] for k in ("pphi", "prefl", "ploss")) for op in prog):
        ctx.count("feat:parameters")
    if any(isinstance(op[-1], dict) and "phi_lit" in op[-1] for op in prog):
        ctx.count("feat:special_phase_values")
    if any(isinstance(op[-1], dict) and any(op[-1].get(k) for k in ("pphi", "prefl", "ploss")) for op in prog):
        ctx.count("feat:labelled_parameters")
    if any(op[0] == "add" and isinstance(op[-1], dict) and "name" in op[-1] for op in prog):
        ctx.count("feat:named_group")


def run(ctx: Ctx) -> None:
    ctx.rule = ("random trees of circuits (depth <= 3: all component kinds incl. unitary blocks, loss elements, "
                "barriers (also empty / default), Parameters with and without labels, declared heralds with in != out, "
                "plain / grouped / heralded additions at any nesting, rewrites of a copy); every circuit object is "
                "displayed with svg (all 12 combinations of display_loss x show_parameter_values x labels none/right/"
                "wrong length) and mpl (a sample), plus unknown display types; option values of every Python type (unknown display "
                "types hashable and unhashable, strings equal to 'svg' / 'mpl', labels in every kind of container, truthy / falsy "
                "objects) through Display and Circuit.display by keyword and by position; evaluation = one Display call; "
                "non-trivial = the displayed circuit has a group or an external herald, and >= 3 spec entries; "
                "distinct = distinct (program, circuit, options)")
    self_test(ctx)
    rng = ctx.rng
    option_type_stream(ctx, rng)
    directed_stream(ctx, rng)
    N = ctx.n(400, 5000)
    n_mpl = 2
    for i in range(N):
        if ctx.out_of_time():
            break
        prog, root = gen_program(ctx, rng)
        features(ctx, prog, root)
        # which objects exist, and with how many usable modes
        pool, res, _params, ports = run_program(prog)
        del pool
        ids = [op[1] for op in prog if op[0] in ("new", "unitary", "copy", "plus") and op[1] in ports]
        # the root and its rewrites always, the other objects of the tree with probability 1/2
        chosen = [c for c in ids if c in (root, "r2", "r3") or rng.random() < 0.5]
        targets = []
        for cid in chosen:
            targets += make_targets(ctx, rng, cid, ports[cid], n_mpl if cid in (root, "r2") else 1)
            if cid in (root, "r2", "r3") or rng.random() < 0.3:
                targets += option_type_targets(ctx, rng, cid, ports[cid])
        render = rng.random() < 0.05
        probs, mres = run_targets(ctx, prog, targets, render=render)
        if render:
            ctx.count("rendered_programs")
        feat = mres.get("feat", {}) if isinstance(mres, dict) else {}
        for t in targets:
            got = t.get("_got")
            if got is None:
                continue
            f = feat.get(t["id"], {})
            nontriv = f.get("spec_len", 0) >= 3 and (f.get("groups", 0) > 0 or f.get("ext", 0) > 0)
            ctx.case((i, target_key(t)),
                     nontriv, sample={"program": prog, "target": strip(t)} if nontriv and t["dtype"] == "svg" else None)
            count_target(ctx, t)
            ctx.count(f"display:{backend(t) or 'unknown-type'}")
            ctx.count(f"labels:{t['lk']}")
            ctx.count("outcome:" + got.get("exc", "drawing"))
            if f.get("groups_heralded", 0):
                ctx.count("displayed:heralded_group")
            if f.get("internal", 0):
                ctx.count("displayed:with_ancilla_modes")
            if f.get("ext", 0):
                ctx.count("displayed:external_heralds")
            if f.get("loss", 0) and t["loss"]:
                ctx.count("displayed:loss_shown")
            if f.get("barrier_empty", 0):
                ctx.count("displayed:empty_barrier")
        if probs:
            ctx.count("programs_with_problems")
            seen = set()
            for t, p in probs:
                cat = category(p)
                if cat in seen:
                    continue
                seen.add(cat)
                shrink_and_report(ctx, prog, [t] if t is not None else targets, p)
    degenerate_stream(ctx, rng)


def replay(ctx: Ctx, path: str) -> None:
    data = json.load(open(path))["replay"]
    prog, ts = data["program"], data["targets"]
    if data.get("model", True):
        probs, _ = run_targets(ctx, prog, ts)
    else:
        probs = run_oracle_only(prog, ts)
    ctx.case("replay", True, sample={"program": prog, "targets": [strip(t) for t in ts]})
    ctx.max_reports = 0  # the replay file already exists: report against it, do not write a new one
    for t, p in probs:
        print("replay:", p)
        if p.startswith("oracle"):
            before = len(ctx.violations)
            ctx.violation(p, {}, sig=signature(ctx, prog, t if t is not None else ts[0], p))
            if len(ctx.violations) > before:
                print(f"VIOLATION property={ctx.prop} replay={path}\n  {p}", flush=True)
        else:
            ctx.disagreement(p, data)
