"""
C14 — Reck mapping reproduces any unitary; noise enters only through the error model.

Model: LW.Model.Reck (reck_decomposition / bs_matrix / check_null / Reck.map on exact scalars
GQ[sqrt 2]), LW.Model.ReckNoise (distributions as tape functions, seed derivation, programmed
parameters).  Theorems: LW/Properties/C14.lean.

Every case is a circuit (a Unitary over exact Gaussian rationals, optionally heralded, or a circuit
built by a construction program) together with an error model and a seed.  On every case

  oracle:  the property's own clauses are evaluated on the implementation — mapped.U == circuit.U
           (1e-9), mapped.heralds == circuit.heralds, only adjacent-mode beam splitters / phase
           shifters / barriers (+ loss elements when the error model has loss), every programmed phase
           in [0, 2*pi), every drawn value inside the declared bounds of its distribution, the same
           seed gives the same circuit, U_full unitary and U sub-unitary;
  corr:    the exact model is run on the same input and compared on the sequence of components,
           their parameters (when the decomposition is well conditioned), heralds, raised
           exception class and, for exactly representable constant error models, U_full; for random
           error models the parameter-level model replays the numpy streams as tapes and must
           reproduce every programmed number.
"""

from __future__ import annotations

import json
import math
from fractions import Fraction

import numpy as np

import circgen as cg
import lightworks as lw
from core import CIRCLE, GQ, PYTH, Ctx, MachineryFault, ddmin, exc_class, frac_str, mat_close
from lightworks.interferometers import ErrorModel, Reck
from lightworks.interferometers.decomposition import reck_decomposition
from lightworks.interferometers.dists import Constant, Gaussian, TopHat
from props.c02 import Gen

TRUSTED = [
    "Lean 4.33 kernel; Mathlib v4.33 as compiled on this image",
    "axioms: subset of {propext, Classical.choice, Quot.sound} (audited per theorem on every run)",
    "hand-written models LW.Model.Reck / ReckNoise / Q2 tied to the code by this correspondence check",
    "IEEE-754 rounding of sqrt/arctan/angle/cos/sin/exp/%: the theorems are about the real functions (their algebraic "
    "contracts NumOk are PROVED for arctan/cos/sin/exp/arg over the complex numbers, theorem "
    "real_functions_satisfy_contracts); rounding artefacts (F16) and the thresholds 1e-20 / 1e-10 are caught by "
    "the oracle on the implementation, not by the theorems",
    "numpy.random.Generator streams (default_rng(seed).integers/random/normal) are replayed as tapes, not modelled",
    "component parameters are read through Circuit._get_circuit_spec() (read-only)",
]
ASSUMPTIONS = [
    "correspondence: <= 8 modes, Reck settings from Pythagorean rationals / rational circle points; unitaries whose "
    "settings are irrational are checked by the oracle only (counted as model:inexact)",
    "threshold abs(u) < 1e-20 is mirrored exactly by the model; the theorems idealise it to u = 0",
]
LEANCHECKER = True

SQRT2 = math.sqrt(2.0)
TWO_PI = 2 * np.pi
TOL = 1e-9

# ----------------------------------------------------------------------------- exact helpers


def q2_complex(s: str) -> complex:
    """LW.Q2.toStr: `a.re,a.im,b.re,b.im` for a + b*sqrt(2)"""
    ar, ai, br, bi = (float(Fraction(x)) for x in s.split(","))
    return complex(ar, ai) + SQRT2 * complex(br, bi)


def q2_mat(rows) -> np.ndarray:
    return np.array([[q2_complex(x) for x in r] for r in rows], dtype=complex)


def gq_mat_np(rows) -> np.ndarray:
    return np.array([[complex(GQ.parse(x)) for x in r] for r in rows], dtype=complex)


def n_steps(n: int) -> int:
    return n * (n - 1) // 2


def steps(n: int) -> list[tuple[int, int]]:
    return [(i, j) for i in range(n - 1) for j in range(n - 1 - i)]


def tiny_pyth(k: int) -> tuple[Fraction, Fraction]:
    """(c, s) with c ~ 2e-k"""
    m = 10**k
    return Fraction(2 * m, m * m + 1), Fraction(m * m - 1, m * m + 1)


def gq_eye(n):
    return [[GQ(1) if i == j else GQ(0) for j in range(n)] for i in range(n)]


def recipe_unitary(n: int, recipe: list) -> list[list[GQ]]:
    """exact unitary from a list of row operations (shrinkable)"""
    u = gq_eye(n)
    for op in recipe:
        if op[0] == "giv":
            _, i, j, c, s, ph = op
            c, s, ph = Fraction(c), Fraction(s), GQ.parse(ph)
            for k in range(n):
                a, b = u[i][k], u[j][k]
                u[i][k] = GQ(c) * a + (-(GQ(s) * ph.conj())) * b
                u[j][k] = GQ(s) * ph * a + GQ(c) * b
        elif op[0] == "ph":
            _, i, ph = op
            ph = GQ.parse(ph)
            for k in range(n):
                u[i][k] = ph * u[i][k]
        elif op[0] == "swap":
            _, i, j = op
            u[i], u[j] = u[j], u[i]
    return u


def rand_recipe(rng, n: int, style: str) -> list:
    rec = []
    if style == "perm":
        for _ in range(rng.randint(0, 2 * n)):
            if n >= 2:
                i, j = rng.sample(range(n), 2)
                rec.append(["swap", i, j])
        for i in range(n):
            if rng.random() < 0.5:
                rec.append(["ph", i, rng.choice(CIRCLE).s()])
        return rec
    if style == "block":
        # Givens rotations only inside blocks of a random partition
        cuts = sorted({0, n, *[rng.randrange(n + 1) for _ in range(rng.randint(1, 2))]})
        for a, b in zip(cuts, cuts[1:]):
            if b - a >= 2:
                for _ in range(rng.randint(1, 2 * (b - a))):
                    i, j = rng.sample(range(a, b), 2)
                    c, s = rng.choice(PYTH)
                    rec.append(["giv", i, j, frac_str(c), frac_str(s), rng.choice(CIRCLE).s()])
        return rec
    real = style == "real"
    for _ in range(rng.randint(0, 2 * n)):
        if n >= 2 and rng.random() < 0.75:
            i, j = rng.sample(range(n), 2)
            c, s = rng.choice(PYTH)
            ph = GQ(rng.choice([1, -1])) if real else rng.choice(CIRCLE)
            rec.append(["giv", i, j, frac_str(c), frac_str(s), ph.s()])
        elif n >= 1:
            ph = GQ(rng.choice([1, -1])) if real else rng.choice(CIRCLE)
            rec.append(["ph", rng.randrange(n), ph.s()])
    if n >= 2 and rng.random() < 0.3:
        for _ in range(rng.randint(1, n)):
            i, j = rng.sample(range(n), 2)
            rec.append(["swap", i, j])
    return rec


def rand_reck_settings(rng, n: int, style: str) -> dict:
    """Reck settings (cos, sin, e^{i phi}) per unit cell in loop order, normalised to what the code would choose:
    inside a row every cell left of a theta = pi cell is itself (pi, 0)"""
    cells = []
    pos = [p for p in PYTH if p[0] > 0]
    tiny_budget = 2 if style == "tiny" else 0
    for i in range(n - 1):
        row_len = n - 1 - i
        if style == "sparse":
            z = rng.choice([0, 0, row_len, rng.randint(0, row_len)])
        elif style == "identity":
            z = row_len
        else:
            z = 0 if rng.random() < 0.85 else rng.randint(0, row_len)
        for j in range(row_len):
            if j < z:
                cells.append(["0", "1", "1,0"])
                continue
            if style == "sparse" and rng.random() < 0.5:
                c, s = Fraction(1), Fraction(0)
            elif tiny_budget and rng.random() < 0.3:
                tiny_budget -= 1
                c, s = tiny_pyth(rng.randint(3, 8))
                if rng.random() < 0.5:
                    c, s = s, c
            else:
                c, s = rng.choice(pos)
            if style in ("real", "identity"):
                p = GQ(rng.choice([1, -1]))
            else:
                p = rng.choice(CIRCLE)
            cells.append([frac_str(c), frac_str(s), p.s()])
    if style == "identity":
        ends = ["1,0"] * n
    elif style == "real":
        ends = [GQ(rng.choice([1, -1])).s() for _ in range(n)]
    else:
        ends = [rng.choice(CIRCLE).s() for _ in range(n)]
    return {"n": n, "cells": cells, "ends": ends}


# ----------------------------------------------------------------------------- error models

IDEAL = {"bs": {"kind": "constant", "v": 0.5, "half": True}, "loss": {"kind": "constant", "v": 0},
         "off": {"kind": "constant", "v": 0}}


def build_dist(d: dict):
    k = d["kind"]
    if k == "constant":
        return Constant(d["v"])
    if k == "gaussian":
        return Gaussian(d["c"], d["d"], d.get("lo"), d.get("hi"))
    if k == "tophat":
        return TopHat(d["lo"], d["hi"])
    raise AssertionError(k)


def build_em(em: dict) -> ErrorModel:
    e = ErrorModel()
    e.bs_reflectivity = build_dist(em["bs"])
    e.loss = build_dist(em["loss"])
    e.phase_offset = build_dist(em["off"])
    return e


def rat(x) -> str:
    return frac_str(Fraction(x))


def dist_json(d: dict) -> dict:
    """the distribution as the driver reads it (floats as exact rationals)"""
    if d["kind"] == "constant":
        return {"kind": "constant", "v": rat(d["v"])}
    if d["kind"] == "gaussian":
        return {"kind": "gaussian", "c": rat(d["c"]), "d": rat(d["d"]),
                "lo": None if d.get("lo") is None else rat(d["lo"]),
                "hi": None if d.get("hi") is None else rat(d["hi"])}
    return {"kind": "tophat", "lo": rat(d["lo"]), "hi": rat(d["hi"])}


def bounds(d: dict) -> tuple[float, float]:
    if d["kind"] == "constant":
        return d["v"], d["v"]
    if d["kind"] == "gaussian":
        return (-math.inf if d.get("lo") is None else d["lo"]), (math.inf if d.get("hi") is None else d["hi"])
    return d["lo"], d["hi"]


def is_random(em: dict) -> bool:
    return any(em[k]["kind"] != "constant" for k in ("bs", "loss", "off"))


def rand_constant_em(rng) -> dict:
    """constant error model whose values are exactly representable in the model"""
    c, s = rng.choice([p for p in PYTH if 0 < p[0] < 1])
    em = {"bs": {"kind": "constant", "v": float(c * c), "cs": [frac_str(c), frac_str(s)]}}
    if rng.random() < 0.6:
        a, b = rng.choice([p for p in PYTH if 0 < p[1] < 1])
        em["loss"] = {"kind": "constant", "v": float(b * b), "ab": [frac_str(a), frac_str(b)]}
    else:
        em["loss"] = {"kind": "constant", "v": 0}
    if rng.random() < 0.7:
        p = rng.choice(CIRCLE)
        em["off"] = {"kind": "constant", "v": math.atan2(float(p.im), float(p.re)), "p": p.s()}
    else:
        em["off"] = {"kind": "constant", "v": 0}
    if rng.random() < 0.25:
        em["bs"] = {"kind": "constant", "v": 0.5, "half": True}
    return em


def rand_dist(rng, what: str) -> dict:
    r = rng.random()
    if what == "bs":
        if r < 0.2:
            return {"kind": "constant", "v": rng.choice([0.5, 0.45, 0.52])}
        if r < 0.6:
            lo = rng.uniform(0.3, 0.5)
            return {"kind": "tophat", "lo": lo, "hi": rng.choice([lo, lo + rng.uniform(0, 0.3)])}
        lo = rng.uniform(0.35, 0.5)
        hi = lo + rng.uniform(0.01, 0.2)
        return {"kind": "gaussian", "c": rng.uniform(lo, hi), "d": rng.uniform(0.005, 0.1),
                "lo": rng.choice([lo, 0.0]), "hi": rng.choice([hi, 1.0])}
    if what == "loss":
        if r < 0.35:
            return {"kind": "constant", "v": rng.choice([0, 0, 0.1, 0.02])}
        if r < 0.7:
            lo = rng.choice([0.0, rng.uniform(0, 0.2)])
            return {"kind": "tophat", "lo": lo, "hi": lo + rng.uniform(0, 0.2)}
        return {"kind": "gaussian", "c": rng.uniform(0.0, 0.1), "d": rng.uniform(0.005, 0.05),
                "lo": 0.0, "hi": rng.choice([0.3, 1.0])}
    if r < 0.3:
        return {"kind": "constant", "v": rng.choice([0, 0.1, -0.2])}
    if r < 0.65:
        lo = rng.uniform(-0.5, 0.3)
        return {"kind": "tophat", "lo": lo, "hi": lo + rng.uniform(0, 0.4)}
    lohi = rng.choice([(None, None), (-0.3, 0.3), (None, 0.2), (-0.1, None)])
    return {"kind": "gaussian", "c": rng.uniform(-0.1, 0.1), "d": rng.uniform(0.01, 0.1), "lo": lohi[0], "hi": lohi[1]}


def rand_random_em(rng) -> dict:
    em = {"bs": rand_dist(rng, "bs"), "loss": rand_dist(rng, "loss"), "off": rand_dist(rng, "off")}
    if not is_random(em):
        em["off"] = {"kind": "tophat", "lo": -0.1, "hi": 0.1}
    return em


# ----------------------------------------------------------------------------- implementation side


def build_circuit(case: dict):
    """the circuit to be mapped, its exact U (GQ strings) and heralds as the model needs them; None when the
    construction itself is rejected"""
    org = case["origin"]
    if "prog" in org:
        pool: dict = {}
        for op in org["prog"]:
            cg.apply_op(pool, op)
        return pool.get(org["top"])
    u = gq_mat_np(org["U"])
    c = lw.Unitary(u)
    for k, i, o in org.get("heralds", []):
        c.herald(k, i, o)
    return c


def observe_spec(mc) -> list:
    out = []
    for s in mc._get_circuit_spec():
        name = type(s).__name__
        if name == "PhaseShifter":
            out.append(["ps", s.mode, s.phi])
        elif name == "BeamSplitter":
            out.append(["bs", s.mode_1, s.mode_2, s.reflectivity, s.convention])
        elif name == "Barrier":
            out.append(["barrier", list(s.modes)])
        elif name == "Loss":
            out.append(["loss", s.mode, s.loss])
        else:
            out.append([name])
    return out


def heralds_of(c) -> dict:
    h = c.heralds
    return {"input": dict(h["input"]), "output": dict(h["output"])}


def ang_close(a: float, b: float, tol: float = TOL) -> bool:
    d = abs(a - b) % TWO_PI
    return d <= tol or TWO_PI - d <= tol


def oracle(case: dict, circ, mc, em: dict) -> list[str]:
    """the clauses of the property evaluated on the implementation"""
    probs = []
    n = circ.n_modes
    spec = observe_spec(mc)
    lossy = em["loss"]["kind"] != "constant" or em["loss"]["v"] != 0
    ideal = not is_random(em) and em["bs"]["v"] == 0.5 and not lossy and em["off"]["v"] == 0
    if mc.n_modes != n or mc.input_modes != circ.input_modes:
        probs.append(f"oracle: size: mapped circuit has n_modes {mc.n_modes} / input_modes {mc.input_modes}, "
                     f"original {n} / {circ.input_modes}")
    if heralds_of(mc) != heralds_of(circ):
        probs.append(f"oracle: heralds: mapped {heralds_of(mc)} != original {heralds_of(circ)}")
    for s in spec:
        if s[0] == "bs":
            if abs(s[1] - s[2]) != 1:
                probs.append(f"oracle: structure: beam splitter on non-adjacent modes {s[1]},{s[2]}")
        elif s[0] == "loss":
            if not lossy:
                probs.append("oracle: structure: loss element although the error model has no loss")
        elif s[0] not in ("ps", "barrier"):
            probs.append(f"oracle: structure: unexpected component {s[0]}")
    for s in spec:
        if s[0] == "ps" and not (0 <= s[2] < TWO_PI):
            probs.append(f"oracle: phase_out_of_range: programmed phase {s[2]!r} on mode {s[1]} is not in [0, 2*pi)")
            break
    try:
        uf = np.array(mc.U_full)
        um = np.array(mc.U)
    except Exception as e:  # noqa: BLE001
        probs.append(f"oracle: valid: mapped circuit does not compile ({exc_class(e)})")
        return probs
    if not mat_close(uf.conj().T @ uf, np.eye(uf.shape[0])):
        probs.append("oracle: valid: U_full of the mapped circuit is not unitary")
    if np.linalg.norm(um, 2) > 1 + TOL:
        probs.append("oracle: valid: U of the mapped circuit is not sub-unitary")
    if ideal:
        uo = np.array(circ.U)
        if not mat_close(um, uo):
            probs.append(f"oracle: unitary: mapped U differs from the original by {np.abs(um - uo).max():.3e}")
    # drawn values inside the declared bounds
    blo, bhi = bounds(em["bs"])
    llo, lhi = bounds(em["loss"])
    for s in spec:
        if s[0] == "bs" and not (blo <= s[3] <= bhi):
            probs.append(f"oracle: bounds: reflectivity {s[3]!r} outside [{blo}, {bhi}]")
            break
    for s in spec:
        if s[0] == "loss" and not (llo <= s[2] <= lhi):
            probs.append(f"oracle: bounds: loss {s[2]!r} outside [{llo}, {lhi}]")
            break
    return probs


def impl_angles(circ) -> dict:
    pm, ends = reck_decomposition(np.flip(np.array(circ.U), axis=(0, 1)))
    keys = list(pm)
    cells = []
    for a, b in zip(keys[0::2], keys[1::2]):
        assert a.startswith("bs_") and b.startswith("ps_") and a[3:] == b[3:], (a, b)
        cells.append((float(pm[a]), float(pm[b])))
    return {"cells": cells, "ends": [float(e) for e in ends]}


def split_cells(spec: list, n: int):
    """mapped spec -> per-cell parameters (phi, r1, theta, r2, loss) in loop order and residual phases; None when
    the component sequence is not the expected one"""
    k = 0
    cells = []
    for (_i, j) in steps(n):
        mode = n - j - 2
        try:
            if spec[k] != ["barrier", [mode, mode + 1]]:
                return None
            ps1, bs1, ps2, bs2 = spec[k + 1: k + 5]
            if ps1[:2] != ["ps", mode + 1] or bs1[:3] != ["bs", mode, mode + 1] or ps2[:2] != ["ps", mode] \
                    or bs2[:3] != ["bs", mode, mode + 1] or bs1[4] != "Rx" or bs2[4] != "Rx":
                return None
            k += 5
            loss = 0.0
            if k + 1 < len(spec) and spec[k][0] == "loss":
                l1, l2 = spec[k], spec[k + 1]
                if l1[:2] != ["loss", mode] or l2[:2] != ["loss", mode + 1] or l1[2] != l2[2]:
                    return None
                loss = l1[2]
                k += 2
            cells.append((ps1[2], bs1[3], ps2[2], bs2[3], loss))
        except (IndexError, ValueError):
            return None
    if k >= len(spec) or spec[k] != ["barrier", list(range(n))]:
        return None
    k += 1
    ends = []
    for i in range(n):
        if k >= len(spec) or spec[k][:2] != ["ps", n - i - 1]:
            return None
        ends.append(spec[k][2])
        k += 1
    if k != len(spec):
        return None
    return cells, ends


# ----------------------------------------------------------------------------- model side


def model_em(em: dict) -> dict | None:
    """constant error model in the driver's exact form; None when not exactly representable"""
    if is_random(em):
        return None
    out = {"refl_ok": 0 <= em["bs"]["v"] <= 1, "loss_ok": 0 <= em["loss"]["v"] <= 1}
    b = em["bs"]
    if b.get("half"):
        out["bs"] = "half"
    elif "cs" in b:
        out["bs"] = b["cs"]
    elif not out["refl_ok"]:
        out["bs"] = ["1", "0"]
    else:
        return None
    lo = em["loss"]
    if lo["v"] == 0 or not out["loss_ok"]:
        out["loss"] = None if lo["v"] <= 0 else ["1", "0"]
        if not out["loss_ok"]:
            out["loss"] = ["1", "0"]
    elif "ab" in lo:
        out["loss"] = lo["ab"]
    else:
        return None
    of = em["off"]
    if of["v"] == 0:
        out["off"] = "1,0"
    elif "p" in of:
        out["off"] = of["p"]
    else:
        return None
    return out


IMPL_TO_MODEL_EXC = {"DecompositionUnsuccessful": "Exception", "RuntimeError": "Exception", "KeyError": "Exception"}


def source_for_model(ctx: Ctx, case: dict):
    """(n, U strings, in_heralds, out_heralds, lossy) of the circuit to map, exact, from the model"""
    org = case["origin"]
    if "prog" in org:
        res = ctx.model.call({"op": "circ", "prog": org["prog"], "observe": [org["top"]]})
        f = res["final"][org["top"]]
        if f is None:
            return None
        n = f["n"]
        u = [row[:n] for row in f["U_full"][:n]]
        return n, u, f["in_heralds"], f["out_heralds"], f["loss_modes"] > 0
    hs = org.get("heralds", [])
    return len(org["U"]), org["U"], [[i, k] for k, i, _o in hs], [[o, k] for k, _i, o in hs], False


def run_model_map(ctx: Ctx, case: dict, em: dict):
    mem = model_em(em)
    if mem is None:
        return None
    src = source_for_model(ctx, case)
    if src is None:
        return None
    n, u, hin, hout, _lossy = src
    # cost bound of the exact model: every loss element adds a mode to U_full (2 per unit cell)
    if n > 8 or (mem["loss"] is not None and n > 4):
        return None
    return ctx.model.call({"op": "reck", "cmd": "map", "n": n, "U": u, "in_heralds": hin, "out_heralds": hout,
                           "em": mem})


def compare_with_model(case: dict, circ, mc, em: dict, m: dict, well: bool) -> list[str]:
    probs = []
    n = circ.n_modes
    if m["result"] != "ok":
        return [f"corr: model raises {m['result']}, implementation maps the circuit"]
    if m["n"] != mc.n_modes or m["input_modes"] != mc.input_modes:
        probs.append("corr: n_modes / input_modes differ from the model")
    if [list(p) for p in mc.heralds["input"].items()] != m["in_heralds"] or \
            [list(p) for p in mc.heralds["output"].items()] != m["out_heralds"]:
        probs.append(f"corr: heralds {mc.heralds} differ from the model {m['in_heralds']} {m['out_heralds']}")
    spec = observe_spec(mc)
    kinds_i = [[s[0], *(s[1:3] if s[0] == "bs" else s[1:2])] for s in spec]
    kinds_m = [[s[0], *(s[1:3] if s[0] == "bs" else s[1:2])] for s in m["spec"]]
    if kinds_i != kinds_m:
        probs.append("corr: sequence of components (kind, modes) differs from the model")
        return probs
    if not (m["exact"] and well):
        return probs
    for si, sm in zip(spec, m["spec"]):
        if si[0] == "ps":
            if abs(np.exp(1j * si[2]) - q2_complex(sm[2])) > TOL:
                probs.append(f"corr: phase on mode {si[1]}: exp(i*{si[2]!r}) != model {q2_complex(sm[2])}")
                break
        elif si[0] == "bs":
            if abs(si[3] - abs(q2_complex(sm[3])) ** 2) > TOL:
                probs.append(f"corr: reflectivity {si[3]!r} != model {abs(q2_complex(sm[3])) ** 2}")
                break
        elif si[0] == "loss":
            if abs(si[2] - abs(q2_complex(sm[3])) ** 2) > TOL:
                probs.append(f"corr: loss {si[2]!r} != model {abs(q2_complex(sm[3])) ** 2}")
                break
    uf = np.array(mc.U_full)
    ufm = q2_mat(m["U_full"])
    if uf.shape != ufm.shape or not mat_close(uf, ufm):
        probs.append("corr: U_full of the mapped circuit differs from the model")
    _ = n
    return probs


def well_conditioned(m: dict) -> bool:
    """every unit cell of the exact decomposition has cos and sin of theta/2 >= 1e-4 (then the float decomposition is
    determined up to rounding; otherwise angle() of a rounding-level entry is arbitrary and only U is comparable)"""
    d = m.get("decomp")
    if not isinstance(d, dict):
        return False
    for c in d["cells"]:
        if abs(q2_complex(c[2])) < 1e-4 or abs(q2_complex(c[3])) < 1e-4:
            return False
    return True


# ----------------------------------------------------------------------------- parameter-level (tapes)


def seed_ints(seed: int, k: int = 3) -> list[int]:
    rng = np.random.default_rng(seed)
    return [int(rng.integers(2**31 - 1)) for _ in range(k)]


def tape_for(k: int, d: dict, count: int) -> list[float]:
    rng = np.random.default_rng(k)
    if d["kind"] == "tophat":
        return [float(rng.random()) for _ in range(count)]
    return [float(rng.normal(d["c"], d["d"])) for _ in range(count)]


def params_problems(ctx: Ctx, circ, mc, em: dict, seed: int) -> list[str]:
    """replay the numpy streams as tapes through LW.Model.ReckNoise and compare every programmed number"""
    n = circ.n_modes
    ang = impl_angles(circ)
    sp = split_cells(observe_spec(mc), n)
    if sp is None:
        return ["corr: params: the mapped circuit is not a sequence of unit cells"]
    cells_i, ends_i = sp
    flat = [x for ab in ang["cells"] for x in ab] + list(ang["ends"])
    if not all(np.isfinite(x) for x in flat):
        return ["oracle: params: the decomposition produced a non-finite angle (nan / inf)"]
    ints = seed_ints(seed)
    need = 4 * n_steps(n) + 2 * n + 8
    for attempt in range(4):
        count = need * (4 ** attempt) + 64
        tapes = []
        for k in ints:
            for key in ("bs", "loss", "off"):
                if em[key]["kind"] != "constant":
                    tapes.append([k, dist_json(em[key]), [rat(x) for x in tape_for(k, em[key], count)]])
        r = ctx.model.call({"op": "reck", "cmd": "params", "two_pi": rat(TWO_PI),
                            "dists": {k: dist_json(em[k]) for k in ("bs", "loss", "off")},
                            "ints": ints, "tapes": tapes, "prior": {"bs": [], "loss": [], "off": []},
                            "angles": {"cells": [[rat(a), rat(b)] for a, b in ang["cells"]],
                                       "ends": [rat(e) for e in ang["ends"]]}})
        if r["result"] == "ok":
            break
    else:
        raise MachineryFault("parameter model: tapes exhausted (rejection rate of a Gaussian too high)")
    probs = []
    if len(r["cells"]) != len(cells_i) or len(r["ends"]) != len(ends_i):
        return ["corr: params: number of cells / residual phases differs from the model"]
    names = ["phi", "r1", "theta", "r2", "loss"]
    for idx, (ci, cm) in enumerate(zip(cells_i, r["cells"])):
        for nm, a, b in zip(names, ci, cm):
            b = float(Fraction(b))
            ok = ang_close(a, b) if nm in ("phi", "theta") else abs(a - b) <= TOL
            if not ok:
                probs.append(f"corr: params: cell {idx} {nm}: implementation {a!r}, model {b!r}")
                return probs
    for idx, (a, b) in enumerate(zip(ends_i, r["ends"])):
        if not ang_close(a, float(Fraction(b))):
            probs.append(f"corr: params: residual phase {idx}: implementation {a!r}, model {float(Fraction(b))!r}")
            return probs
    # offsets inside the declared bounds (oracle): programmed - decomposed, modulo 2*pi
    lo, hi = bounds(em["off"])
    if lo > -math.pi + 1e-6 and hi < math.pi - 1e-6:
        vals = [(c[2], a[0]) for c, a in zip(cells_i, ang["cells"])] + \
               [(c[0], a[1]) for c, a in zip(cells_i, ang["cells"])] + list(zip(ends_i, ang["ends"]))
        for prog, v in vals:
            d = (prog - v + math.pi) % TWO_PI - math.pi
            if not (lo - 1e-7 <= d <= hi + 1e-7):
                probs.append(f"oracle: bounds: phase offset {d!r} outside [{lo}, {hi}]")
                break
    return probs


def params_of(mc) -> list:
    return [tuple(s) if s[0] != "barrier" else ("barrier", tuple(s[1])) for s in observe_spec(mc)]


# ----------------------------------------------------------------------------- one case


def run_case(ctx: Ctx, case: dict, count: bool = False) -> list[str]:
    """returns the list of problems ('oracle: …' = a clause of the property fails on the implementation,
    'corr: …' = model and implementation differ)"""
    em = case.get("em", IDEAL)
    seed = case.get("seed", 0)
    c = (lambda b: ctx.count(b)) if count else (lambda b: None)
    # --- implementation
    try:
        circ = build_circuit(case)
    except Exception as e:  # noqa: BLE001
        return [f"machinery: generated circuit cannot be built ({exc_class(e)}: {e})"]
    if circ is None:
        c("origin:not-constructible")
        return []
    try:
        emo = build_em(em)
        em_exc = None
    except Exception as e:  # noqa: BLE001
        em_exc = exc_class(e)
    if em_exc is not None:
        # a rejected distribution: the model's constructors must reject it with the same class
        c("malformed:distribution-rejected")
        bad = []
        for k in ("bs", "loss", "off"):
            try:
                build_dist(em[k])
            except Exception as e:  # noqa: BLE001
                r = ctx.model.call({"op": "reck", "cmd": "dist", "dist": dist_json(em[k]), "tape": [], "draws": 0})
                if r["result"] != exc_class(e):
                    bad.append(f"corr: distribution {em[k]} raises {exc_class(e)}, model says {r['result']}")
        return bad
    reck = Reck(emo)
    try:
        mc = reck.map(circ, seed=seed)
        exc = None
    except Exception as e:  # noqa: BLE001
        mc, exc = None, exc_class(e)
    # --- model (exact), when the error model is exactly representable
    m = run_model_map(ctx, case, em)
    if m is None and not is_random(em):
        c("model:skipped (size bound of the exact model, oracle only)")
    probs: list[str] = []
    if exc is not None:
        c("outcome:raises-" + exc)
        lossless = True
        try:
            u = np.array(circ.U)
            lossless = mat_close(u.conj().T @ u, np.eye(u.shape[0]), 1e-10)
        except Exception:  # noqa: BLE001
            pass
        valid_em = 0 <= bounds(em["bs"])[0] and bounds(em["bs"])[1] <= 1 and 0 <= bounds(em["loss"])[0] \
            and bounds(em["loss"])[1] <= 1
        if lossless and valid_em:
            probs.append(f"oracle: raises: mapping a lossless circuit raises {exc}")
        if m is not None:
            want = IMPL_TO_MODEL_EXC.get(exc, exc)
            if m["result"] != want and m.get("exact", True):
                probs.append(f"corr: implementation raises {exc}, model result {m['result']}")
        return probs
    c("outcome:mapped")
    probs += oracle(case, circ, mc, em)
    if m is not None:
        if m["result"] == "ok" and not m["exact"]:
            c("model:inexact (irrational settings, oracle only)")
        else:
            c("model:exact")
        well = well_conditioned(m)
        if m["result"] == "ok" and m["exact"]:
            c("model:well-conditioned" if well else "model:degenerate cell (structure/heralds only)")
            if not m["U_equal_input"] and model_em(em) == model_em(IDEAL):
                raise MachineryFault("exact model: mapped U differs from the input although every hypothesis of "
                                     "map_U_eq was checked (model or theorem statement is wrong)")
        if m["result"] != "ok" and not m.get("exact", True):
            c("model:inexact (irrational settings, oracle only)")
        else:
            probs += compare_with_model(case, circ, mc, em, m, well)
            if m["result"] == "ok" and m["exact"] and well:
                # the implementation's decomposition itself (public function) against the model's
                ang = impl_angles(circ)
                for (th, ph), cm in zip(ang["cells"], m["decomp"]["cells"]):
                    if abs(math.cos(th / 2) - q2_complex(cm[2]).real) > TOL or \
                            abs(math.sin(th / 2) - q2_complex(cm[3]).real) > TOL or \
                            abs(np.exp(1j * ph) - q2_complex(cm[5])) > 1e-7:
                        probs.append(f"corr: reck_decomposition cell {cm[:2]}: theta={th!r} phi={ph!r} differ from "
                                     f"the model")
                        break
    if is_random(em):
        c("em:random")
        probs += params_problems(ctx, circ, mc, em, seed)
        # the same seed gives the same circuit: same object after other draws, and a fresh object
        try:
            reck.map(circ, seed=seed + 1)
            again = reck.map(circ, seed=seed)
            fresh = Reck(build_em(em)).map(circ, seed=seed)
            if params_of(again) != params_of(mc):
                probs.append("oracle: seed: the same Reck object maps differently for the same seed")
            if params_of(fresh) != params_of(mc):
                probs.append("oracle: seed: a fresh Reck with an equal error model maps differently for the same seed")
        except Exception as e:  # noqa: BLE001
            probs.append(f"oracle: seed: remapping raises {exc_class(e)}")
    elif em is not IDEAL and model_em(em) != model_em(IDEAL):
        c("em:constant-noise")
    return probs


# ----------------------------------------------------------------------------- generation


def gen_case(ctx: Ctx, rng, max_n: int) -> dict:
    r = rng.random()
    sizes = [1, 2, 2, 3, 3, 3, 4, 4, 4, 5, 5, 6] * 2 + ([7, 8] if max_n >= 8 else [])
    n = rng.choice([s for s in sizes if s <= max_n])
    # boundary seeds (0 is falsy, 2**31 - 1 / 2**32 - 1 are the edges of the derived-seed range) with fixed probability
    case: dict = {"seed": rng.choice([0, 0, 1, 2**31 - 1, 2**32 - 1]) if rng.random() < 0.2 else rng.randrange(10**6)}
    if r < 0.30:
        style = rng.choice(["dense", "dense", "real", "sparse", "identity", "tiny"])
        st = rand_reck_settings(rng, n, style)
        case["kind"] = "reck-settings:" + style
        case["settings"] = st
    elif r < 0.55:
        style = rng.choice(["givens", "givens", "real", "perm", "block"])
        case["kind"] = "recipe:" + style
        case["recipe"] = {"n": n, "ops": rand_recipe(rng, n, style)}
    elif r < 0.62:
        # entries below the 1e-20 threshold of the nulling loop, and exactly zero entries
        st = rand_reck_settings(rng, max(n, 2), "dense")
        k = rng.randrange(len(st["cells"]))
        c, s = tiny_pyth(rng.randint(19, 24))
        st["cells"][k] = [frac_str(c), frac_str(s), st["cells"][k][2]]
        case["kind"] = "reck-settings:below-threshold"
        case["settings"] = st
    elif r < 0.80:
        g = Gen(ctx_quiet(ctx), rng)
        g.circuit(rng.choice([0, 1, 1, 2]), max_n=min(5, max_n))
        case["kind"] = "program"
        case["origin"] = {"prog": g.prog, "top": "c1"}
    else:
        style = rng.choice(["dense", "real", "sparse"])
        case["kind"] = "heralded-unitary"
        case["settings"] = rand_reck_settings(rng, n, style)
        ins = rng.sample(range(n), rng.randint(0, min(3, n)))
        outs = list(ins) if rng.random() < 0.4 else rng.sample(range(n), len(ins))
        hs = [[rng.choice([0, 1, 1, 2]), i, o] for i, o in zip(ins, outs)]
        case["heralds"] = hs
    # error model
    e = rng.random()
    if e < 0.55:
        pass
    elif e < 0.75:
        case["em"] = rand_constant_em(rng)
    elif e < 0.93:
        case["em"] = rand_random_em(rng)
    else:
        case["em"] = rand_malformed_em(rng)
    return case


def rand_malformed_em(rng) -> dict:
    em = {"bs": {"kind": "constant", "v": 0.5, "half": True}, "loss": {"kind": "constant", "v": 0},
          "off": {"kind": "constant", "v": 0}}
    w = rng.choice(["refl", "loss", "tophat", "gaussian"])
    if w == "refl":
        em["bs"] = {"kind": "constant", "v": rng.choice([1.5, -0.1, 1.0000001])}
    elif w == "loss":
        em["loss"] = {"kind": "constant", "v": rng.choice([1.5, -0.25])}
    elif w == "tophat":
        em[rng.choice(["bs", "loss", "off"])] = {"kind": "tophat", "lo": 0.6, "hi": 0.4}
    else:
        em[rng.choice(["bs", "loss", "off"])] = {"kind": "gaussian", "c": 0.5, "d": 0.01, "lo": 0.6, "hi": 0.4}
    return em


class _Quiet:
    """a Ctx stand-in for the C02 generator so that its branch counters do not pollute C14's evidence"""

    def __init__(self, ctx):
        self._ctx = ctx

    def count(self, *_a, **_k):
        return None

    def __getattr__(self, k):
        return getattr(self._ctx, k)


def ctx_quiet(ctx: Ctx):
    return _Quiet(ctx)


def materialise(ctx: Ctx, case: dict) -> dict:
    """fill in case['origin'] (exact U) from settings / recipe"""
    if "origin" in case:
        return case
    if "settings" in case:
        st = case["settings"]
        u = ctx.model.call({"op": "reck", "cmd": "synth", "n": st["n"], "cells": st["cells"], "ends": st["ends"]})["U"]
    else:
        rc = case["recipe"]
        u = cg.mat_json(recipe_unitary(rc["n"], rc["ops"]))
    case = dict(case)
    case["origin"] = {"U": u, "heralds": case.get("heralds", [])}
    return case


def kind_of(p: str) -> str:
    return p.split(":")[1].strip() if p.startswith("oracle:") else p.split(":")[0]


def shrink(ctx: Ctx, case: dict, probs: list[str]) -> tuple[dict, list[str]]:
    """smaller case with a problem of the same kind"""
    target = kind_of(probs[0])

    def fails(c: dict) -> list[str]:
        try:
            ps = run_case(ctx, materialise(ctx, c))
        except MachineryFault:
            raise
        except Exception:  # noqa: BLE001
            return []
        return [p for p in ps if kind_of(p) == target]

    best, bprobs = case, probs
    budget = [60]

    def attempt(c: dict) -> bool:
        nonlocal best, bprobs
        if budget[0] <= 0:
            return False
        budget[0] -= 1
        c = {k: v for k, v in c.items() if k != "origin" or "prog" in v}
        ps = fails(c)
        if ps:
            best, bprobs = c, ps
            return True
        return False

    base = {k: v for k, v in case.items() if k != "origin" or "prog" in v}
    # 1. the plain identity of increasing size (first with the default error model, then with the case's own)
    for with_em in ([False, True] if "em" in base else [False]):
        for k in range(1, 9):
            cand = {"kind": "shrunk:identity", "seed": base.get("seed", 0), "recipe": {"n": k, "ops": []}}
            if with_em:
                cand["em"] = base["em"]
            if attempt(cand):
                return materialise(ctx, best), bprobs
    # 2. drop heralds / error model
    for key in ("heralds", "em"):
        if key in best:
            attempt({k: v for k, v in best.items() if k != key})
    # 3. simplify settings / recipe / program
    if "recipe" in best:
        rc = best["recipe"]

        def still(ops):
            return attempt({**best, "recipe": {"n": rc["n"], "ops": ops}})

        if rc["ops"]:
            ddmin(rc["ops"], still, max_tests=30)
    elif "settings" in best:
        st = best["settings"]
        for k in range(len(st["cells"])):
            for triv in (["0", "1", "1,0"], ["1", "0", "1,0"]):
                cur = best["settings"]
                if cur["cells"][k] != triv:
                    cells = list(cur["cells"])
                    cells[k] = triv
                    if attempt({**best, "settings": {**cur, "cells": cells}}):
                        break
    elif "origin" in best and "prog" in best["origin"]:
        org = best["origin"]

        def still_p(prog):
            return cg.well_formed(prog) and bool(prog) and prog[0][:2] == ["new", org["top"]] and \
                attempt({**best, "origin": {"prog": prog, "top": org["top"]}})

        ddmin(org["prog"], still_p, max_tests=40)
    return materialise(ctx, best), bprobs


_REPORTED: set = set()
_MINIMAL_REPORTED: set = set()


def report(ctx: Ctx, case: dict, probs: list[str]) -> None:
    if kind_of(probs[0]) in _MINIMAL_REPORTED:
        # a minimal replay (bare identity, default error model) of this clause is already reported
        ctx.count("duplicate_of_reported_replay")
        return
    small, sprobs = shrink(ctx, case, probs)
    oracle_p = [p for p in sprobs if p.startswith("oracle")]
    mach = [p for p in sprobs if p.startswith("machinery")]
    if mach:
        raise MachineryFault(mach[0])
    rep = {"case": small, "problems": sprobs}
    key = json.dumps({k: v for k, v in small.items() if k != "seed"}, sort_keys=True, default=str)
    if key in _REPORTED:
        ctx.count("duplicate_of_reported_replay")
        return
    _REPORTED.add(key)
    if small.get("kind") == "shrunk:identity" and "em" not in small:
        _MINIMAL_REPORTED.add(kind_of(sprobs[0]))
    if oracle_p:
        ctx.violation(oracle_p[0], rep, sig={"kind": kind_of(oracle_p[0])})
    else:
        ctx.disagreement(sprobs[0], rep)


def dist_checks(ctx: Ctx, rng, count: int) -> None:
    """Gaussian.value / TopHat.value / Constant.value against the tape model, bounds, reseeding"""
    for _ in range(count):
        what = rng.choice(["bs", "loss", "off"])
        d = rand_dist(rng, what)
        if rng.random() < 0.15:
            d = rng.choice([{"kind": "tophat", "lo": 0.5, "hi": 0.25},
                            {"kind": "gaussian", "c": 0.0, "d": 1.0, "lo": 1.0, "hi": -1.0},
                            {"kind": "gaussian", "c": 0.5, "d": 0.01, "lo": 0.5, "hi": 0.501},
                            {"kind": "tophat", "lo": 0.25, "hi": 0.25}])
        ctx.count("dist:" + d["kind"])
        try:
            obj = build_dist(d)
            exc = None
        except Exception as e:  # noqa: BLE001
            obj, exc = None, exc_class(e)
        k = rng.randrange(2**31 - 1)
        draws = 40
        tape = [] if d["kind"] == "constant" or exc else tape_for(k, d, 8000 if d.get("hi") == 0.501 else 1200)
        r = ctx.model.call({"op": "reck", "cmd": "dist", "dist": dist_json(d), "tape": [rat(x) for x in tape],
                            "draws": draws})
        ctx.case(("dist", json.dumps(d, sort_keys=True), k), d["kind"] != "constant", None)
        if exc is not None:
            ctx.count("dist:rejected")
            if r["result"] != exc:
                ctx.disagreement(f"corr: distribution {d} raises {exc}, model says {r['result']}", {"dist": d})
            continue
        if r["result"] != "ok":
            if r["result"] == "exhausted":
                raise MachineryFault(f"dist check: tape exhausted for {d}")
            ctx.disagreement(f"corr: distribution {d} accepted, model says {r['result']}", {"dist": d})
            continue
        if hasattr(obj, "set_random_seed"):
            obj.set_random_seed(k)
        vals = [obj.value() for _ in range(draws)]
        lo, hi = bounds(d)
        if any(not (lo <= v <= hi) for v in vals):
            ctx.violation(f"oracle: bounds: {d} returned a value outside its bounds", {"dist": d, "seed": k},
                          sig={"kind": "bounds"})
        mv = [float(Fraction(x)) for x in r["values"]]
        if any(abs(a - b) > 1e-12 for a, b in zip(vals, mv)):
            ctx.disagreement(f"corr: values of {d} seeded with {k} differ from the tape model", {"dist": d, "seed": k})
        if hasattr(obj, "set_random_seed"):
            obj.value()
            obj.set_random_seed(k)
            if [obj.value() for _ in range(draws)] != vals:
                ctx.violation(f"oracle: seed: {d} reseeded with {k} returns different values", {"dist": d, "seed": k},
                              sig={"kind": "seed"})
        if r["has_seed"] != hasattr(obj, "set_random_seed"):
            ctx.disagreement(f"corr: set_random_seed presence differs for {d}", {"dist": d})


def self_test(ctx: Ctx) -> None:
    """the comparison code must notice a wrong mapping: perturb one programmed phase of a mapped circuit"""
    u = ctx.model.call({"op": "reck", "cmd": "synth", "n": 3,
                        "cells": [["3/5", "4/5", "0,1"], ["5/13", "12/13", "1,0"], ["4/5", "3/5", "-1,0"]],
                        "ends": ["1,0", "0,1", "-1,0"]})["U"]
    circ = lw.Unitary(gq_mat_np(u))
    mc = Reck().map(circ)
    bad = lw.Circuit(3)
    done = False
    for s in observe_spec(mc):
        if s[0] == "ps":
            bad.ps(s[1], s[2] + (0.0 if done else 1e-6))
            done = True
        elif s[0] == "bs":
            bad.bs(s[1], s[2], reflectivity=s[3])
    if not any(p.startswith("oracle: unitary") for p in oracle({}, circ, bad, IDEAL)):
        raise MachineryFault("self-test: the oracle does not notice a perturbed phase")
    # … and the correspondence comparison must notice a model answer that differs in one phase
    case = {"origin": {"U": u, "heralds": []}}
    m = run_model_map(ctx, case, IDEAL)
    if m["result"] != "ok" or not m["exact"] or not m["U_equal_input"] or not well_conditioned(m):
        raise MachineryFault("self-test: the exact model does not reproduce a 3-mode unitary")
    if compare_with_model(case, circ, mc, IDEAL, m, True):
        raise MachineryFault("self-test: model and implementation differ on the self-test unitary")
    k = next(i for i, sp in enumerate(m["spec"]) if sp[0] == "ps")
    wrong = json.loads(json.dumps(m))
    wrong["spec"][k][2] = "3/5,4/5,0,0" if wrong["spec"][k][2] != "3/5,4/5,0,0" else "1,0,0,0"
    if not compare_with_model(case, circ, mc, IDEAL, wrong, True):
        raise MachineryFault("self-test: the correspondence comparison does not notice a wrong model phase")
    ctx.count("self-test:passed")


def run(ctx: Ctx) -> None:
    ctx.rule = ("cases = (circuit, error model, seed); circuits: unitaries synthesised from exact Reck settings (dense, "
                "real, sparse, identity, tiny and below-threshold entries), exact Givens/permutation/block-diagonal "
                "unitaries, heralded unitaries, circuits from the C02 program generator (lossy ones must be rejected); "
                "error models: default, exact constant, random Gaussian/TopHat, malformed; non-trivial = at least one "
                "unit cell (n >= 2) or a rejected input; distinct = distinct case description")
    rng = ctx.rng
    self_test(ctx)
    n_cases = ctx.n(500, 4000)
    max_n = 6 if not ctx.thorough else 8
    for i in range(n_cases):
        if ctx.out_of_time():
            break
        case = gen_case(ctx, rng, max_n)
        ctx.count("gen:" + case["kind"])
        full = materialise(ctx, case)
        probs = run_case(ctx, full, count=True)
        org = full["origin"]
        n = len(org["U"]) if "U" in org else None
        ctx.case(json.dumps({k: v for k, v in case.items() if k != "origin" or "prog" in v}, sort_keys=True, default=str),
                 (n is None or n >= 2), sample={"kind": case["kind"], "n": n, "em": case.get("em", "default")} if i < 3 else None)
        if probs:
            ctx.count("cases_with_problems")
            report(ctx, case, probs)
    dist_checks(ctx, rng, ctx.n(40, 400))


def replay(ctx: Ctx, path: str) -> None:
    data = json.load(open(path))["replay"]
    if "dist" in data:
        raise MachineryFault("distribution replays are re-run by the normal check")
    case = data["case"]
    probs = run_case(ctx, materialise(ctx, case), count=True)
    ctx.case("replay", True, sample={"kind": case.get("kind")})
    for p in probs:
        print("replay:", p)
    oracle_p = [p for p in probs if p.startswith("oracle")]
    if oracle_p:
        ctx.violation(oracle_p[0], data, sig={"kind": kind_of(oracle_p[0])})
    elif probs:
        ctx.disagreement(probs[0], data)
