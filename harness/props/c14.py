"""
C14 — Reck mapping reproduces any unitary; noise enters only through the error model.

Model: LW.Model.Reck (reck_decomposition / bs_matrix / check_null / Reck.map on exact scalars
GQ[sqrt 2]), LW.Model.ReckNoise (distributions as tape functions, seed derivation, programmed
parameters).  Theorems: LW/Properties/C14.lean.

Every case is a circuit (a Unitary over exact Gaussian rationals, optionally heralded, or a circuit
built by a construction program) together with an error model and a seed.  On every case

  oracle:  the property's own clauses are evaluated on the implementation — mapped.U == circuit.U
           (1e-9), mapped.heralds == circuit.heralds, only adjacent-mode beam splitters / phase
           shifters / barriers (+ loss elements when the error model has loss), every programmed phase
           in [0, 2*pi), every drawn value inside the declared bounds of its distribution, the same
           seed gives the same circuit, U_full unitary and U sub-unitary;
  corr:    the exact model is run on the same input and compared on the sequence of components,
           their parameters (when the decomposition is well conditioned), heralds, raised
           exception class and, for exactly representable constant error models, U_full; for random
           error models the parameter-level model replays the numpy streams as tapes and must
           reproduce every programmed number.

Besides the single cases there are
  histories   (section "histories on long-lived objects"): one world of Recks, ErrorModels, distribution objects,
              circuits and Parameters that live through many steps — the same Reck maps several circuits and the SAME
              circuit object repeatedly while it is changed in place (Parameter.set, appended components, heralds, the
              object replaced under the same name), error models are tuned in place (through the Reck's `error_model`
              property, through the ErrorModel object handed over at construction), re-assigned, distribution objects
              are shared between quantities / error models / Recks, re-seeded and drawn from between maps; Recks and
              ErrorModels are created with defaults (argument omitted / None / ErrorModel()) before and after another
              one is tuned.  After EVERY map the clauses above are evaluated against the harness's own record of the
              current circuit and the current error model (never read back from the objects), and the result must equal
              what a FRESH Reck built from that record programs.  A failing history is confirmed and shrunk in forked
              copies of a process in which no history ever ran (class Pristine), so that a replay is self-contained
              even when the defect is state that the library keeps per process;
  processes   the same (circuit, error model, seed) mapped in another interpreter process (different string-hash
              seed) must give the same numbers.
"""

from __future__ import annotations

import json
import math
from fractions import Fraction

import numpy as np

import circgen as cg
import lightworks as lw
from core import CIRCLE, GQ, PYTH, Ctx, MachineryFault, ddmin, exc_class, frac_str, mat_close
from lightworks.interferometers import ErrorModel, Reck
from lightworks.interferometers.decomposition import reck_decomposition
from lightworks.interferometers.dists import Constant, Gaussian, TopHat
from props.c02 import Gen

TRUSTED = [
    "Lean 4.33 kernel; Mathlib v4.33 as compiled on this image",
    "axioms: subset of {propext, Classical.choice, Quot.sound} (audited per theorem on every run)",
    "hand-written models LW.Model.Reck / ReckNoise / Q2 tied to the code by this correspondence check",
    "IEEE-754 rounding of sqrt/arctan/angle/cos/sin/exp/%: the theorems are about the real functions (their algebraic "
    "contracts NumOk are PROVED for arctan/cos/sin/exp/arg over the complex numbers, theorem "
    "real_functions_satisfy_contracts); rounding artefacts (F16) and the thresholds 1e-20 / 1e-10 are caught by "
    "the oracle on the implementation, not by the theorems",
    "numpy.random.Generator streams (default_rng(seed).integers/random/normal) are replayed as tapes, not modelled",
    "component parameters are read through Circuit._get_circuit_spec() (read-only)",
]
ASSUMPTIONS = [
    "correspondence: <= 8 modes, Reck settings from Pythagorean rationals / rational circle points; unitaries whose "
    "settings are irrational are checked by the oracle only (counted as model:inexact)",
    "threshold abs(u) < 1e-20 is mirrored exactly by the model; the theorems idealise it to u = 0",
]
LEANCHECKER = True

SQRT2 = math.sqrt(2.0)
TWO_PI = 2 * np.pi
TOL = 1e-9

# ----------------------------------------------------------------------------- exact helpers


def q2_complex(s: str) -> complex:
    """LW.Q2.toStr: `a.re,a.im,b.re,b.im` for a + b*sqrt(2)"""
    ar, ai, br, bi = (float(Fraction(x)) for x in s.split(","))
    return complex(ar, ai) + SQRT2 * complex(br, bi)


def q2_mat(rows) -> np.ndarray:
    return np.array([[q2_complex(x) for x in r] for r in rows], dtype=complex)


def gq_mat_np(rows) -> np.ndarray:
    return np.array([[complex(GQ.parse(x)) for x in r] for r in rows], dtype=complex)


def n_steps(n: int) -> int:
    return n * (n - 1) // 2


def steps(n: int) -> list[tuple[int, int]]:
    return [(i, j) for i in range(n - 1) for j in range(n - 1 - i)]


def tiny_pyth(k: int) -> tuple[Fraction, Fraction]:
    """(c, s) with c ~ 2e-k"""
    m = 10**k
    return Fraction(2 * m, m * m + 1), Fraction(m * m - 1, m * m + 1)


def gq_eye(n):
    return [[GQ(1) if i == j else GQ(0) for j in range(n)] for i in range(n)]


def recipe_unitary(n: int, recipe: list) -> list[list[GQ]]:
    """exact unitary from a list of row operations (shrinkable)"""
    u = gq_eye(n)
    for op in recipe:
        if op[0] == "giv":
            _, i, j, c, s, ph = op
            c, s, ph = Fraction(c), Fraction(s), GQ.parse(ph)
            for k in range(n):
                a, b = u[i][k], u[j][k]
                u[i][k] = GQ(c) * a + (-(GQ(s) * ph.conj())) * b
                u[j][k] = GQ(s) * ph * a + GQ(c) * b
        elif op[0] == "ph":
            _, i, ph = op
            ph = GQ.parse(ph)
            for k in range(n):
                u[i][k] = ph * u[i][k]
        elif op[0] == "swap":
            _, i, j = op
            u[i], u[j] = u[j], u[i]
    return u


def rand_recipe(rng, n: int, style: str) -> list:
    rec = []
    if style == "perm":
        for _ in range(rng.randint(0, 2 * n)):
            if n >= 2:
                i, j = rng.sample(range(n), 2)
                rec.append(["swap", i, j])
        for i in range(n):
            if rng.random() < 0.5:
                rec.append(["ph", i, rng.choice(CIRCLE).s()])
        return rec
    if style == "block":
        # Givens rotations only inside blocks of a random partition
        cuts = sorted({0, n, *[rng.randrange(n + 1) for _ in range(rng.randint(1, 2))]})
        for a, b in zip(cuts, cuts[1:]):
            if b - a >= 2:
                for _ in range(rng.randint(1, 2 * (b - a))):
                    i, j = rng.sample(range(a, b), 2)
                    c, s = rng.choice(PYTH)
                    rec.append(["giv", i, j, frac_str(c), frac_str(s), rng.choice(CIRCLE).s()])
        return rec
    real = style == "real"
    for _ in range(rng.randint(0, 2 * n)):
        if n >= 2 and rng.random() < 0.75:
            i, j = rng.sample(range(n), 2)
            c, s = rng.choice(PYTH)
            ph = GQ(rng.choice([1, -1])) if real else rng.choice(CIRCLE)
            rec.append(["giv", i, j, frac_str(c), frac_str(s), ph.s()])
        elif n >= 1:
            ph = GQ(rng.choice([1, -1])) if real else rng.choice(CIRCLE)
            rec.append(["ph", rng.randrange(n), ph.s()])
    if n >= 2 and rng.random() < 0.3:
        for _ in range(rng.randint(1, n)):
            i, j = rng.sample(range(n), 2)
            rec.append(["swap", i, j])
    return rec


def rand_reck_settings(rng, n: int, style: str) -> dict:
    """Reck settings (cos, sin, e^{i phi}) per unit cell in loop order, normalised to what the code would choose:
    inside a row every cell left of a theta = pi cell is itself (pi, 0)"""
    cells = []
    pos = [p for p in PYTH if p[0] > 0]
    tiny_budget = 2 if style == "tiny" else 0
    for i in range(n - 1):
        row_len = n - 1 - i
        if style == "sparse":
            z = rng.choice([0, 0, row_len, rng.randint(0, row_len)])
        elif style == "identity":
            z = row_len
        else:
            z = 0 if rng.random() < 0.85 else rng.randint(0, row_len)
        for j in range(row_len):
            if j < z:
                cells.append(["0", "1", "1,0"])
                continue
            if style == "sparse" and rng.random() < 0.5:
                c, s = Fraction(1), Fraction(0)
            elif tiny_budget and rng.random() < 0.3:
                tiny_budget -= 1
                c, s = tiny_pyth(rng.randint(3, 8))
                if rng.random() < 0.5:
                    c, s = s, c
            else:
                c, s = rng.choice(pos)
            if style in ("real", "identity"):
                p = GQ(rng.choice([1, -1]))
            else:
                p = rng.choice(CIRCLE)
            cells.append([frac_str(c), frac_str(s), p.s()])
    if style == "identity":
        ends = ["1,0"] * n
    elif style == "real":
        ends = [GQ(rng.choice([1, -1])).s() for _ in range(n)]
    else:
        ends = [rng.choice(CIRCLE).s() for _ in range(n)]
    return {"n": n, "cells": cells, "ends": ends}


# ----------------------------------------------------------------------------- error models

IDEAL = {"bs": {"kind": "constant", "v": 0.5, "half": True}, "loss": {"kind": "constant", "v": 0},
         "off": {"kind": "constant", "v": 0}}


def build_dist(d: dict):
    k = d["kind"]
    if k == "constant":
        return Constant(d["v"])
    if k == "gaussian":
        return Gaussian(d["c"], d["d"], d.get("lo"), d.get("hi"))
    if k == "tophat":
        return TopHat(d["lo"], d["hi"])
    raise AssertionError(k)


def build_em(em: dict) -> ErrorModel:
    e = ErrorModel()
    e.bs_reflectivity = build_dist(em["bs"])
    e.loss = build_dist(em["loss"])
    e.phase_offset = build_dist(em["off"])
    return e


def rat(x) -> str:
    return frac_str(Fraction(x))


def dist_json(d: dict) -> dict:
    """the distribution as the driver reads it (floats as exact rationals)"""
    if d["kind"] == "constant":
        return {"kind": "constant", "v": rat(d["v"])}
    if d["kind"] == "gaussian":
        return {"kind": "gaussian", "c": rat(d["c"]), "d": rat(d["d"]),
                "lo": None if d.get("lo") is None else rat(d["lo"]),
                "hi": None if d.get("hi") is None else rat(d["hi"])}
    return {"kind": "tophat", "lo": rat(d["lo"]), "hi": rat(d["hi"])}


def bounds(d: dict) -> tuple[float, float]:
    if d["kind"] == "constant":
        return d["v"], d["v"]
    if d["kind"] == "gaussian":
        return (-math.inf if d.get("lo") is None else d["lo"]), (math.inf if d.get("hi") is None else d["hi"])
    return d["lo"], d["hi"]


def is_random(em: dict) -> bool:
    return any(em[k]["kind"] != "constant" for k in ("bs", "loss", "off"))


def rand_constant_em(rng) -> dict:
    """constant error model whose values are exactly representable in the model"""
    c, s = rng.choice([p for p in PYTH if 0 < p[0] < 1])
    em = {"bs": {"kind": "constant", "v": float(c * c), "cs": [frac_str(c), frac_str(s)]}}
    if rng.random() < 0.6:
        a, b = rng.choice([p for p in PYTH if 0 < p[1] < 1])
        em["loss"] = {"kind": "constant", "v": float(b * b), "ab": [frac_str(a), frac_str(b)]}
    else:
        em["loss"] = {"kind": "constant", "v": 0}
    if rng.random() < 0.7:
        p = rng.choice(CIRCLE)
        em["off"] = {"kind": "constant", "v": math.atan2(float(p.im), float(p.re)), "p": p.s()}
    else:
        em["off"] = {"kind": "constant", "v": 0}
    if rng.random() < 0.25:
        em["bs"] = {"kind": "constant", "v": 0.5, "half": True}
    return em


def rand_dist(rng, what: str) -> dict:
    r = rng.random()
    if what == "bs":
        if r < 0.2:
            return {"kind": "constant", "v": rng.choice([0.5, 0.45, 0.52])}
        if r < 0.6:
            lo = rng.uniform(0.3, 0.5)
            return {"kind": "tophat", "lo": lo, "hi": rng.choice([lo, lo + rng.uniform(0, 0.3)])}
        lo = rng.uniform(0.35, 0.5)
        hi = lo + rng.uniform(0.01, 0.2)
        return {"kind": "gaussian", "c": rng.uniform(lo, hi), "d": rng.uniform(0.005, 0.1),
                "lo": rng.choice([lo, 0.0]), "hi": rng.choice([hi, 1.0])}
    if what == "loss":
        if r < 0.35:
            return {"kind": "constant", "v": rng.choice([0, 0, 0.1, 0.02])}
        if r < 0.7:
            lo = rng.choice([0.0, rng.uniform(0, 0.2)])
            return {"kind": "tophat", "lo": lo, "hi": lo + rng.uniform(0, 0.2)}
        return {"kind": "gaussian", "c": rng.uniform(0.0, 0.1), "d": rng.uniform(0.005, 0.05),
                "lo": 0.0, "hi": rng.choice([0.3, 1.0])}
    if r < 0.3:
        return {"kind": "constant", "v": rng.choice([0, 0.1, -0.2])}
    if r < 0.65:
        lo = rng.uniform(-0.5, 0.3)
        return {"kind": "tophat", "lo": lo, "hi": lo + rng.uniform(0, 0.4)}
    lohi = rng.choice([(None, None), (-0.3, 0.3), (None, 0.2), (-0.1, None)])
    return {"kind": "gaussian", "c": rng.uniform(-0.1, 0.1), "d": rng.uniform(0.01, 0.1), "lo": lohi[0], "hi": lohi[1]}


def rand_random_em(rng) -> dict:
    em = {"bs": rand_dist(rng, "bs"), "loss": rand_dist(rng, "loss"), "off": rand_dist(rng, "off")}
    if not is_random(em):
        em["off"] = {"kind": "tophat", "lo": -0.1, "hi": 0.1}
    return em


# ----------------------------------------------------------------------------- implementation side


def build_circuit(case: dict):
    """the circuit to be mapped, its exact U (GQ strings) and heralds as the model needs them; None when the
    construction itself is rejected"""
    org = case["origin"]
    if "prog" in org:
        pool: dict = {}
        for op in org["prog"]:
            cg.apply_op(pool, op)
        return pool.get(org["top"])
    u = gq_mat_np(org["U"])
    c = lw.Unitary(u)
    for k, i, o in org.get("heralds", []):
        c.herald(k, i, o)
    return c


def observe_spec(mc) -> list:
    out = []
    for s in mc._get_circuit_spec():
        name = type(s).__name__
        if name == "PhaseShifter":
            out.append(["ps", s.mode, s.phi])
        elif name == "BeamSplitter":
            out.append(["bs", s.mode_1, s.mode_2, s.reflectivity, s.convention])
        elif name == "Barrier":
            out.append(["barrier", list(s.modes)])
        elif name == "Loss":
            out.append(["loss", s.mode, s.loss])
        else:
            out.append([name])
    return out


def heralds_of(c) -> dict:
    h = c.heralds
    return {"input": dict(h["input"]), "output": dict(h["output"])}


def ang_close(a: float, b: float, tol: float = TOL) -> bool:
    d = abs(a - b) % TWO_PI
    return d <= tol or TWO_PI - d <= tol


def oracle(case: dict, circ, mc, em: dict) -> list[str]:
    """the clauses of the property evaluated on the implementation"""
    probs = []
    n = circ.n_modes
    spec = observe_spec(mc)
    lossy = em["loss"]["kind"] != "constant" or em["loss"]["v"] != 0
    ideal = not is_random(em) and em["bs"]["v"] == 0.5 and not lossy and em["off"]["v"] == 0
    if mc.n_modes != n or mc.input_modes != circ.input_modes:
        probs.append(f"oracle: size: mapped circuit has n_modes {mc.n_modes} / input_modes {mc.input_modes}, "
                     f"original {n} / {circ.input_modes}")
    if heralds_of(mc) != heralds_of(circ):
        probs.append(f"oracle: heralds: mapped {heralds_of(mc)} != original {heralds_of(circ)}")
    for s in spec:
        if s[0] == "bs":
            if abs(s[1] - s[2]) != 1:
                probs.append(f"oracle: structure: beam splitter on non-adjacent modes {s[1]},{s[2]}")
        elif s[0] == "loss":
            if not lossy:
                probs.append("oracle: structure: loss element although the error model has no loss")
        elif s[0] not in ("ps", "barrier"):
            probs.append(f"oracle: structure: unexpected component {s[0]}")
    for s in spec:
        if s[0] == "ps" and not (0 <= s[2] < TWO_PI):
            probs.append(f"oracle: phase_out_of_range: programmed phase {s[2]!r} on mode {s[1]} is not in [0, 2*pi)")
            break
    try:
        uf = np.array(mc.U_full)
        um = np.array(mc.U)
    except Exception as e:  # noqa: BLE001
        probs.append(f"oracle: valid: mapped circuit does not compile ({exc_class(e)})")
        return probs
    if not mat_close(uf.conj().T @ uf, np.eye(uf.shape[0])):
        probs.append("oracle: valid: U_full of the mapped circuit is not unitary")
    if np.linalg.norm(um, 2) > 1 + TOL:
        probs.append("oracle: valid: U of the mapped circuit is not sub-unitary")
    if ideal:
        uo = np.array(circ.U)
        if not mat_close(um, uo):
            probs.append(f"oracle: unitary: mapped U differs from the original by {np.abs(um - uo).max():.3e}")
    # drawn values inside the declared bounds
    blo, bhi = bounds(em["bs"])
    llo, lhi = bounds(em["loss"])
    for s in spec:
        if s[0] == "bs" and not (blo <= s[3] <= bhi):
            probs.append(f"oracle: bounds: reflectivity {s[3]!r} outside [{blo}, {bhi}]")
            break
    for s in spec:
        if s[0] == "loss" and not (llo <= s[2] <= lhi):
            probs.append(f"oracle: bounds: loss {s[2]!r} outside [{llo}, {lhi}]")
            break
    return probs


def impl_angles(circ) -> dict:
    pm, ends = reck_decomposition(np.flip(np.array(circ.U), axis=(0, 1)))
    keys = list(pm)
    cells = []
    for a, b in zip(keys[0::2], keys[1::2]):
        assert a.startswith("bs_") and b.startswith("ps_") and a[3:] == b[3:], (a, b)
        cells.append((float(pm[a]), float(pm[b])))
    return {"cells": cells, "ends": [float(e) for e in ends]}


def split_cells(spec: list, n: int):
    """mapped spec -> per-cell parameters (phi, r1, theta, r2, loss) in loop order and residual phases; None when
    the component sequence is not the expected one"""
    k = 0
    cells = []
    for (_i, j) in steps(n):
        mode = n - j - 2
        try:
            if spec[k] != ["barrier", [mode, mode + 1]]:
                return None
            ps1, bs1, ps2, bs2 = spec[k + 1: k + 5]
            if ps1[:2] != ["ps", mode + 1] or bs1[:3] != ["bs", mode, mode + 1] or ps2[:2] != ["ps", mode] \
                    or bs2[:3] != ["bs", mode, mode + 1] or bs1[4] != "Rx" or bs2[4] != "Rx":
                return None
            k += 5
            loss = 0.0
            if k + 1 < len(spec) and spec[k][0] == "loss":
                l1, l2 = spec[k], spec[k + 1]
                if l1[:2] != ["loss", mode] or l2[:2] != ["loss", mode + 1] or l1[2] != l2[2]:
                    return None
                loss = l1[2]
                k += 2
            cells.append((ps1[2], bs1[3], ps2[2], bs2[3], loss))
        except (IndexError, ValueError):
            return None
    if k >= len(spec) or spec[k] != ["barrier", list(range(n))]:
        return None
    k += 1
    ends = []
    for i in range(n):
        if k >= len(spec) or spec[k][:2] != ["ps", n - i - 1]:
            return None
        ends.append(spec[k][2])
        k += 1
    if k != len(spec):
        return None
    return cells, ends


# ----------------------------------------------------------------------------- model side


def model_em(em: dict) -> dict | None:
    """constant error model in the driver's exact form; None when not exactly representable"""
    if is_random(em):
        return None
    out = {"refl_ok": 0 <= em["bs"]["v"] <= 1, "loss_ok": 0 <= em["loss"]["v"] <= 1}
    b = em["bs"]
    if b.get("half"):
        out["bs"] = "half"
    elif "cs" in b:
        out["bs"] = b["cs"]
    elif not out["refl_ok"]:
        out["bs"] = ["1", "0"]
    else:
        return None
    lo = em["loss"]
    if lo["v"] == 0 or not out["loss_ok"]:
        out["loss"] = None if lo["v"] <= 0 else ["1", "0"]
        if not out["loss_ok"]:
            out["loss"] = ["1", "0"]
    elif "ab" in lo:
        out["loss"] = lo["ab"]
    else:
        return None
    of = em["off"]
    if of["v"] == 0:
        out["off"] = "1,0"
    elif "p" in of:
        out["off"] = of["p"]
    else:
        return None
    return out


IMPL_TO_MODEL_EXC = {"DecompositionUnsuccessful": "Exception", "RuntimeError": "Exception", "KeyError": "Exception"}


def source_for_model(ctx: Ctx, case: dict):
    """(n, U strings, in_heralds, out_heralds, lossy) of the circuit to map, exact, from the model"""
    org = case["origin"]
    if "prog" in org:
        res = ctx.model.call({"op": "circ", "prog": org["prog"], "observe": [org["top"]]})
        f = res["final"][org["top"]]
        if f is None:
            return None
        n = f["n"]
        u = [row[:n] for row in f["U_full"][:n]]
        return n, u, f["in_heralds"], f["out_heralds"], f["loss_modes"] > 0
    hs = org.get("heralds", [])
    return len(org["U"]), org["U"], [[i, k] for k, i, _o in hs], [[o, k] for k, _i, o in hs], False


def run_model_map(ctx: Ctx, case: dict, em: dict):
    mem = model_em(em)
    if mem is None:
        return None
    src = source_for_model(ctx, case)
    if src is None:
        return None
    n, u, hin, hout, _lossy = src
    # cost bound of the exact model: every loss element adds a mode to U_full (2 per unit cell)
    if n > 8 or (mem["loss"] is not None and n > 4):
        return None
    return ctx.model.call({"op": "reck", "cmd": "map", "n": n, "U": u, "in_heralds": hin, "out_heralds": hout,
                           "em": mem})


def compare_with_model(case: dict, circ, mc, em: dict, m: dict, well: bool) -> list[str]:
    probs = []
    n = circ.n_modes
    if m["result"] != "ok":
        return [f"corr: model raises {m['result']}, implementation maps the circuit"]
    if m["n"] != mc.n_modes or m["input_modes"] != mc.input_modes:
        probs.append("corr: n_modes / input_modes differ from the model")
    if [list(p) for p in mc.heralds["input"].items()] != m["in_heralds"] or \
            [list(p) for p in mc.heralds["output"].items()] != m["out_heralds"]:
        probs.append(f"corr: heralds {mc.heralds} differ from the model {m['in_heralds']} {m['out_heralds']}")
    spec = observe_spec(mc)
    kinds_i = [[s[0], *(s[1:3] if s[0] == "bs" else s[1:2])] for s in spec]
    kinds_m = [[s[0], *(s[1:3] if s[0] == "bs" else s[1:2])] for s in m["spec"]]
    if kinds_i != kinds_m:
        probs.append("corr: sequence of components (kind, modes) differs from the model")
        return probs
    if not (m["exact"] and well):
        return probs
    for si, sm in zip(spec, m["spec"]):
        if si[0] == "ps":
            if abs(np.exp(1j * si[2]) - q2_complex(sm[2])) > TOL:
                probs.append(f"corr: phase on mode {si[1]}: exp(i*{si[2]!r}) != model {q2_complex(sm[2])}")
                break
        elif si[0] == "bs":
            if abs(si[3] - abs(q2_complex(sm[3])) ** 2) > TOL:
                probs.append(f"corr: reflectivity {si[3]!r} != model {abs(q2_complex(sm[3])) ** 2}")
                break
        elif si[0] == "loss":
            if abs(si[2] - abs(q2_complex(sm[3])) ** 2) > TOL:
                probs.append(f"corr: loss {si[2]!r} != model {abs(q2_complex(sm[3])) ** 2}")
                break
    uf = np.array(mc.U_full)
    ufm = q2_mat(m["U_full"])
    if uf.shape != ufm.shape or not mat_close(uf, ufm):
        probs.append("corr: U_full of the mapped circuit differs from the model")
    _ = n
    return probs


def well_conditioned(m: dict) -> bool:
    """every unit cell of the exact decomposition has cos and sin of theta/2 >= 1e-4 (then the float decomposition is
    determined up to rounding; otherwise angle() of a rounding-level entry is arbitrary and only U is comparable)"""
    d = m.get("decomp")
    if not isinstance(d, dict):
        return False
    for c in d["cells"]:
        if abs(q2_complex(c[2])) < 1e-4 or abs(q2_complex(c[3])) < 1e-4:
            return False
    return True


# ----------------------------------------------------------------------------- parameter-level (tapes)


def seed_ints(seed: int, k: int = 3) -> list[int]:
    rng = np.random.default_rng(seed)
    return [int(rng.integers(2**31 - 1)) for _ in range(k)]


def tape_for(k: int, d: dict, count: int) -> list[float]:
    rng = np.random.default_rng(k)
    if d["kind"] == "tophat":
        return [float(rng.random()) for _ in range(count)]
    return [float(rng.normal(d["c"], d["d"])) for _ in range(count)]


def params_problems(ctx: Ctx, circ, mc, em: dict, seed: int) -> list[str]:
    """replay the numpy streams as tapes through LW.Model.ReckNoise and compare every programmed number"""
    n = circ.n_modes
    ang = impl_angles(circ)
    sp = split_cells(observe_spec(mc), n)
    if sp is None:
        return ["corr: params: the mapped circuit is not a sequence of unit cells"]
    cells_i, ends_i = sp
    flat = [x for ab in ang["cells"] for x in ab] + list(ang["ends"])
    if not all(np.isfinite(x) for x in flat):
        return ["oracle: params: the decomposition produced a non-finite angle (nan / inf)"]
    ints = seed_ints(seed)
    need = 4 * n_steps(n) + 2 * n + 8
    for attempt in range(4):
        count = need * (4 ** attempt) + 64
        tapes = []
        for k in ints:
            for key in ("bs", "loss", "off"):
                if em[key]["kind"] != "constant":
                    tapes.append([k, dist_json(em[key]), [rat(x) for x in tape_for(k, em[key], count)]])
        r = ctx.model.call({"op": "reck", "cmd": "params", "two_pi": rat(TWO_PI),
                            "dists": {k: dist_json(em[k]) for k in ("bs", "loss", "off")},
                            "ints": ints, "tapes": tapes, "prior": {"bs": [], "loss": [], "off": []},
                            "angles": {"cells": [[rat(a), rat(b)] for a, b in ang["cells"]],
                                       "ends": [rat(e) for e in ang["ends"]]}})
        if r["result"] == "ok":
            break
    else:
        raise MachineryFault("parameter model: tapes exhausted (rejection rate of a Gaussian too high)")
    probs = []
    if len(r["cells"]) != len(cells_i) or len(r["ends"]) != len(ends_i):
        return ["corr: params: number of cells / residual phases differs from the model"]
    names = ["phi", "r1", "theta", "r2", "loss"]
    for idx, (ci, cm) in enumerate(zip(cells_i, r["cells"])):
        for nm, a, b in zip(names, ci, cm):
            b = float(Fraction(b))
            ok = ang_close(a, b) if nm in ("phi", "theta") else abs(a - b) <= TOL
            if not ok:
                probs.append(f"corr: params: cell {idx} {nm}: implementation {a!r}, model {b!r}")
                return probs
    for idx, (a, b) in enumerate(zip(ends_i, r["ends"])):
        if not ang_close(a, float(Fraction(b))):
            probs.append(f"corr: params: residual phase {idx}: implementation {a!r}, model {float(Fraction(b))!r}")
            return probs
    # offsets inside the declared bounds (oracle): programmed - decomposed, modulo 2*pi
    lo, hi = bounds(em["off"])
    if lo > -math.pi + 1e-6 and hi < math.pi - 1e-6:
        vals = [(c[2], a[0]) for c, a in zip(cells_i, ang["cells"])] + \
               [(c[0], a[1]) for c, a in zip(cells_i, ang["cells"])] + list(zip(ends_i, ang["ends"]))
        for prog, v in vals:
            d = (prog - v + math.pi) % TWO_PI - math.pi
            if not (lo - 1e-7 <= d <= hi + 1e-7):
                probs.append(f"oracle: bounds: phase offset {d!r} outside [{lo}, {hi}]")
                break
    return probs


def params_of(mc) -> list:
    return [tuple(s) if s[0] != "barrier" else ("barrier", tuple(s[1])) for s in observe_spec(mc)]


# ----------------------------------------------------------------------------- one case


def run_case(ctx: Ctx, case: dict, count: bool = False) -> list[str]:
    """returns the list of problems ('oracle: …' = a clause of the property fails on the implementation,
    'corr: …' = model and implementation differ)"""
    em = case.get("em", IDEAL)
    seed = case.get("seed", 0)
    c = (lambda b: ctx.count(b)) if count else (lambda b: None)
    # --- implementation
    try:
        circ = build_circuit(case)
    except Exception as e:  # noqa: BLE001
        return [f"machinery: generated circuit cannot be built ({exc_class(e)}: {e})"]
    if circ is None:
        c("origin:not-constructible")
        return []
    try:
        emo = build_em(em)
        em_exc = None
    except Exception as e:  # noqa: BLE001
        em_exc = exc_class(e)
    if em_exc is not None:
        # a rejected distribution: the model's constructors must reject it with the same class
        c("malformed:distribution-rejected")
        bad = []
        for k in ("bs", "loss", "off"):
            try:
                build_dist(em[k])
            except Exception as e:  # noqa: BLE001
                r = ctx.model.call({"op": "reck", "cmd": "dist", "dist": dist_json(em[k]), "tape": [], "draws": 0})
                if r["result"] != exc_class(e):
                    bad.append(f"corr: distribution {em[k]} raises {exc_class(e)}, model says {r['result']}")
        return bad
    reck = Reck(emo)
    try:
        mc = reck.map(circ, seed=seed)
        exc = None
    except Exception as e:  # noqa: BLE001
        mc, exc = None, exc_class(e)
    # --- model (exact), when the error model is exactly representable
    m = run_model_map(ctx, case, em)
    if m is None and not is_random(em):
        c("model:skipped (size bound of the exact model, oracle only)")
    probs: list[str] = []
    if exc is not None:
        c("outcome:raises-" + exc)
        lossless = True
        try:
            u = np.array(circ.U)
            lossless = mat_close(u.conj().T @ u, np.eye(u.shape[0]), 1e-10)
        except Exception:  # noqa: BLE001
            pass
        valid_em = 0 <= bounds(em["bs"])[0] and bounds(em["bs"])[1] <= 1 and 0 <= bounds(em["loss"])[0] \
            and bounds(em["loss"])[1] <= 1
        if lossless and valid_em:
            probs.append(f"oracle: raises: mapping a lossless circuit raises {exc}")
        if m is not None:
            want = IMPL_TO_MODEL_EXC.get(exc, exc)
            if m["result"] != want and m.get("exact", True):
                probs.append(f"corr: implementation raises {exc}, model result {m['result']}")
        return probs
    c("outcome:mapped")
    probs += oracle(case, circ, mc, em)
    if m is not None:
        if m["result"] == "ok" and not m["exact"]:
            c("model:inexact (irrational settings, oracle only)")
        else:
            c("model:exact")
        well = well_conditioned(m)
        if m["result"] == "ok" and m["exact"]:
            c("model:well-conditioned" if well else "model:degenerate cell (structure/heralds only)")
            if not m["U_equal_input"] and model_em(em) == model_em(IDEAL):
                raise MachineryFault("exact model: mapped U differs from the input although every hypothesis of "
                                     "map_U_eq was checked (model or theorem statement is wrong)")
        if m["result"] != "ok" and not m.get("exact", True):
            c("model:inexact (irrational settings, oracle only)")
        else:
            probs += compare_with_model(case, circ, mc, em, m, well)
            if m["result"] == "ok" and m["exact"] and well:
                # the implementation's decomposition itself (public function) against the model's
                ang = impl_angles(circ)
                for (th, ph), cm in zip(ang["cells"], m["decomp"]["cells"]):
                    if abs(math.cos(th / 2) - q2_complex(cm[2]).real) > TOL or \
                            abs(math.sin(th / 2) - q2_complex(cm[3]).real) > TOL or \
                            abs(np.exp(1j * ph) - q2_complex(cm[5])) > 1e-7:
                        probs.append(f"corr: reck_decomposition cell {cm[:2]}: theta={th!r} phi={ph!r} differ from "
                                     f"the model")
                        break
    if is_random(em):
        c("em:random")
        probs += params_problems(ctx, circ, mc, em, seed)
        # the same seed gives the same circuit: same object after other draws, and a fresh object
        try:
            reck.map(circ, seed=seed + 1)
            again = reck.map(circ, seed=seed)
            fresh = Reck(build_em(em)).map(circ, seed=seed)
            if params_of(again) != params_of(mc):
                probs.append("oracle: seed: the same Reck object maps differently for the same seed")
            if params_of(fresh) != params_of(mc):
                probs.append("oracle: seed: a fresh Reck with an equal error model maps differently for the same seed")
        except Exception as e:  # noqa: BLE001
            probs.append(f"oracle: seed: remapping raises {exc_class(e)}")
    elif em is not IDEAL and model_em(em) != model_em(IDEAL):
        c("em:constant-noise")
    return probs


# ----------------------------------------------------------------------------- generation


def gen_case(ctx: Ctx, rng, max_n: int) -> dict:
    r = rng.random()
    sizes = [1, 2, 2, 3, 3, 3, 4, 4, 4, 5, 5, 6] * 2 + ([7, 8] if max_n >= 8 else [])
    n = rng.choice([s for s in sizes if s <= max_n])
    # boundary seeds (0 is falsy, 2**31 - 1 / 2**32 - 1 are the edges of the derived-seed range) with fixed probability
    case: dict = {"seed": rng.choice([0, 0, 1, 2**31 - 1, 2**32 - 1]) if rng.random() < 0.2 else rng.randrange(10**6)}
    if r < 0.30:
        style = rng.choice(["dense", "dense", "real", "sparse", "identity", "tiny"])
        st = rand_reck_settings(rng, n, style)
        case["kind"] = "reck-settings:" + style
        case["settings"] = st
    elif r < 0.55:
        style = rng.choice(["givens", "givens", "real", "perm", "block"])
        case["kind"] = "recipe:" + style
        case["recipe"] = {"n": n, "ops": rand_recipe(rng, n, style)}
    elif r < 0.62:
        # entries below the 1e-20 threshold of the nulling loop, and exactly zero entries
        st = rand_reck_settings(rng, max(n, 2), "dense")
        k = rng.randrange(len(st["cells"]))
        c, s = tiny_pyth(rng.randint(19, 24))
        st["cells"][k] = [frac_str(c), frac_str(s), st["cells"][k][2]]
        case["kind"] = "reck-settings:below-threshold"
        case["settings"] = st
    elif r < 0.80:
        g = Gen(ctx_quiet(ctx), rng)
        g.circuit(rng.choice([0, 1, 1, 2]), max_n=min(5, max_n))
        case["kind"] = "program"
        case["origin"] = {"prog": g.prog, "top": "c1"}
    else:
        style = rng.choice(["dense", "real", "sparse"])
        case["kind"] = "heralded-unitary"
        case["settings"] = rand_reck_settings(rng, n, style)
        ins = rng.sample(range(n), rng.randint(0, min(3, n)))
        outs = list(ins) if rng.random() < 0.4 else rng.sample(range(n), len(ins))
        hs = [[rng.choice([0, 1, 1, 2]), i, o] for i, o in zip(ins, outs)]
        case["heralds"] = hs
    # error model
    e = rng.random()
    if e < 0.55:
        pass
    elif e < 0.75:
        case["em"] = rand_constant_em(rng)
    elif e < 0.93:
        case["em"] = rand_random_em(rng)
    else:
        case["em"] = rand_malformed_em(rng)
    return case


def rand_malformed_em(rng) -> dict:
    em = {"bs": {"kind": "constant", "v": 0.5, "half": True}, "loss": {"kind": "constant", "v": 0},
          "off": {"kind": "constant", "v": 0}}
    w = rng.choice(["refl", "loss", "tophat", "gaussian"])
    if w == "refl":
        em["bs"] = {"kind": "constant", "v": rng.choice([1.5, -0.1, 1.0000001])}
    elif w == "loss":
        em["loss"] = {"kind": "constant", "v": rng.choice([1.5, -0.25])}
    elif w == "tophat":
        em[rng.choice(["bs", "loss", "off"])] = {"kind": "tophat", "lo": 0.6, "hi": 0.4}
    else:
        em[rng.choice(["bs", "loss", "off"])] = {"kind": "gaussian", "c": 0.5, "d": 0.01, "lo": 0.6, "hi": 0.4}
    return em


class _Quiet:
    """a Ctx stand-in for the C02 generator so that its branch counters do not pollute C14's evidence"""

    def __init__(self, ctx):
        self._ctx = ctx

    def count(self, *_a, **_k):
        return None

    def __getattr__(self, k):
        return getattr(self._ctx, k)


def ctx_quiet(ctx: Ctx):
    return _Quiet(ctx)


def materialise(ctx: Ctx, case: dict) -> dict:
    """fill in case['origin'] (exact U) from settings / recipe"""
    if "origin" in case:
        return case
    if "settings" in case:
        st = case["settings"]
        u = ctx.model.call({"op": "reck", "cmd": "synth", "n": st["n"], "cells": st["cells"], "ends": st["ends"]})["U"]
    else:
        rc = case["recipe"]
        u = cg.mat_json(recipe_unitary(rc["n"], rc["ops"]))
    case = dict(case)
    case["origin"] = {"U": u, "heralds": case.get("heralds", [])}
    return case


def kind_of(p: str) -> str:
    return p.split(":")[1].strip() if p.startswith("oracle:") else p.split(":")[0]


def shrink(ctx: Ctx, case: dict, probs: list[str]) -> tuple[dict, list[str]]:
    """smaller case with a problem of the same kind"""
    target = kind_of(probs[0])

    def fails(c: dict) -> list[str]:
        try:
            ps = run_case(ctx, materialise(ctx, c))
        except MachineryFault:
            raise
        except Exception:  # noqa: BLE001
            return []
        return [p for p in ps if kind_of(p) == target]

    best, bprobs = case, probs
    budget = [60]

    def attempt(c: dict) -> bool:
        nonlocal best, bprobs
        if budget[0] <= 0:
            return False
        budget[0] -= 1
        c = {k: v for k, v in c.items() if k != "origin" or "prog" in v}
        ps = fails(c)
        if ps:
            best, bprobs = c, ps
            return True
        return False

    base = {k: v for k, v in case.items() if k != "origin" or "prog" in v}
    # 1. the plain identity of increasing size (first with the default error model, then with the case's own)
    for with_em in ([False, True] if "em" in base else [False]):
        for k in range(1, 9):
            cand = {"kind": "shrunk:identity", "seed": base.get("seed", 0), "recipe": {"n": k, "ops": []}}
            if with_em:
                cand["em"] = base["em"]
            if attempt(cand):
                return materialise(ctx, best), bprobs
    # 2. drop heralds / error model
    for key in ("heralds", "em"):
        if key in best:
            attempt({k: v for k, v in best.items() if k != key})
    # 3. simplify settings / recipe / program
    if "recipe" in best:
        rc = best["recipe"]

        def still(ops):
            return attempt({**best, "recipe": {"n": rc["n"], "ops": ops}})

        if rc["ops"]:
            ddmin(rc["ops"], still, max_tests=30)
    elif "settings" in best:
        st = best["settings"]
        for k in range(len(st["cells"])):
            for triv in (["0", "1", "1,0"], ["1", "0", "1,0"]):
                cur = best["settings"]
                if cur["cells"][k] != triv:
                    cells = list(cur["cells"])
                    cells[k] = triv
                    if attempt({**best, "settings": {**cur, "cells": cells}}):
                        break
    elif "origin" in best and "prog" in best["origin"]:
        org = best["origin"]

        def still_p(prog):
            return cg.well_formed(prog) and bool(prog) and prog[0][:2] == ["new", org["top"]] and \
                attempt({**best, "origin": {"prog": prog, "top": org["top"]}})

        ddmin(org["prog"], still_p, max_tests=40)
    return materialise(ctx, best), bprobs


_REPORTED: set = set()
_MINIMAL_REPORTED: set = set()


def report(ctx: Ctx, case: dict, probs: list[str]) -> None:
    if kind_of(probs[0]) in _MINIMAL_REPORTED:
        # a minimal replay (bare identity, default error model) of this clause is already reported
        ctx.count("duplicate_of_reported_replay")
        return
    small, sprobs = shrink(ctx, case, probs)
    oracle_p = [p for p in sprobs if p.startswith("oracle")]
    mach = [p for p in sprobs if p.startswith("machinery")]
    if mach:
        raise MachineryFault(mach[0])
    rep = {"case": small, "problems": sprobs}
    key = json.dumps({k: v for k, v in small.items() if k != "seed"}, sort_keys=True, default=str)
    if key in _REPORTED:
        ctx.count("duplicate_of_reported_replay")
        return
    _REPORTED.add(key)
    if small.get("kind") == "shrunk:identity" and "em" not in small:
        _MINIMAL_REPORTED.add(kind_of(sprobs[0]))
    if oracle_p:
        ctx.violation(oracle_p[0], rep, sig={"kind": kind_of(oracle_p[0])})
    else:
        ctx.disagreement(sprobs[0], rep)


def dist_checks(ctx: Ctx, rng, count: int) -> None:
    """Gaussian.value / TopHat.value / Constant.value against the tape model, bounds, reseeding"""
    # directed: one-sided Gaussians whose centre sits ON the declared bound (every second draw has to be redrawn),
    # both bounds on one side of the centre, a degenerate TopHat
    directed = [{"kind": "gaussian", "c": 0.0, "d": 1.0, "lo": 0.0, "hi": None},
                {"kind": "gaussian", "c": 0.0, "d": 1.0, "lo": None, "hi": 0.0},
                {"kind": "gaussian", "c": 0.5, "d": 0.2, "lo": 0.6, "hi": None},
                {"kind": "gaussian", "c": 0.5, "d": 0.2, "lo": 0.55, "hi": 0.75},
                {"kind": "tophat", "lo": 0.25, "hi": 0.25}]
    for i in range(count + len(directed)):
        what = rng.choice(["bs", "loss", "off"])
        d = rand_dist(rng, what)
        if i < len(directed):
            d = directed[i]
            ctx.count("dist:directed")
        elif rng.random() < 0.15:
            d = rng.choice([{"kind": "tophat", "lo": 0.5, "hi": 0.25},
                            {"kind": "gaussian", "c": 0.0, "d": 1.0, "lo": 1.0, "hi": -1.0},
                            {"kind": "gaussian", "c": 0.5, "d": 0.01, "lo": 0.5, "hi": 0.501},
                            {"kind": "tophat", "lo": 0.25, "hi": 0.25}])
        ctx.count("dist:" + d["kind"])
        try:
            obj = build_dist(d)
            exc = None
        except Exception as e:  # noqa: BLE001
            obj, exc = None, exc_class(e)
        k = rng.randrange(2**31 - 1)
        draws = 40
        tape = [] if d["kind"] == "constant" or exc else tape_for(k, d, 8000 if d.get("hi") == 0.501 else 1200)
        r = ctx.model.call({"op": "reck", "cmd": "dist", "dist": dist_json(d), "tape": [rat(x) for x in tape],
                            "draws": draws})
        ctx.case(("dist", json.dumps(d, sort_keys=True), k), d["kind"] != "constant", None)
        if exc is not None:
            ctx.count("dist:rejected")
            if r["result"] != exc:
                ctx.disagreement(f"corr: distribution {d} raises {exc}, model says {r['result']}", {"dist": d})
            continue
        if r["result"] != "ok":
            if r["result"] == "exhausted":
                raise MachineryFault(f"dist check: tape exhausted for {d}")
            ctx.disagreement(f"corr: distribution {d} accepted, model says {r['result']}", {"dist": d})
            continue
        if hasattr(obj, "set_random_seed"):
            obj.set_random_seed(k)
        vals = [obj.value() for _ in range(draws)]
        lo, hi = bounds(d)
        if any(not (lo <= v <= hi) for v in vals):
            ctx.violation(f"oracle: bounds: {d} returned a value outside its bounds", {"dist": d, "seed": k},
                          sig={"kind": "bounds"})
        mv = [float(Fraction(x)) for x in r["values"]]
        if any(abs(a - b) > 1e-12 for a, b in zip(vals, mv)):
            ctx.disagreement(f"corr: values of {d} seeded with {k} differ from the tape model", {"dist": d, "seed": k})
        if hasattr(obj, "set_random_seed"):
            obj.value()
            obj.set_random_seed(k)
            if [obj.value() for _ in range(draws)] != vals:
                ctx.violation(f"oracle: seed: {d} reseeded with {k} returns different values", {"dist": d, "seed": k},
                              sig={"kind": "seed"})
        if r["has_seed"] != hasattr(obj, "set_random_seed"):
            ctx.disagreement(f"corr: set_random_seed presence differs for {d}", {"dist": d})


# ----------------------------------------------------------------------------- histories on long-lived objects
#
# A history is a list of steps executed on ONE world of long-lived objects (circuits, Parameters, distribution
# objects, ErrorModels, Recks).  The harness keeps its OWN record of what every object is intended to be (Record);
# nothing is ever read back from the objects under test to decide what is expected.  After every `map` step
#   * the clauses of the property are evaluated for the CURRENT circuit (re-built from the record, literal values
#     instead of Parameters, in a fresh pool) and the CURRENT error model of that Reck according to the record;
#   * the mapped circuit must agree with what a FRESH Reck, holding a fresh error model built from the record (with
#     the same sharing of distribution objects between its quantities), programs for the re-built circuit and the
#     same seed;
#   * the exact model (constant error models) / the tape model (random ones) is compared as for single cases.
#
# steps
#   ["c", op]                       circuit construction op (circgen op, or ["psp", cid, mode, pid] /
#                                   ["bsp", cid, m1, m2, pid, conv]: phase / reflectivity given as a Parameter)
#   ["pnew", pid, "ph"|"r", v]      Parameter (phase: point of the unit circle as GQ string, reflectivity: [c, s])
#   ["pset", pid, v]                Parameter.set
#   ["dnew", did, dist]             a distribution object
#   ["enew", eid]                   ErrorModel()
#   ["eset", eid, attr, did]        eid.<attr> = did                      (attr in bs / loss / off)
#   ["rnew", rid, form, eid|None]   form: omitted -> Reck(), none -> Reck(None), explicit -> Reck(ErrorModel()),
#                                   em -> Reck(eid)
#   ["rset", rid, attr, did]        rid.error_model.<attr> = did          (tuned in place through the property)
#   ["rassign", rid, eid|None]      rid.error_model = eid  (None: a new ErrorModel())
#   ["dseed", did, k]               did.set_random_seed(k)                (no effect on a seeded map)
#   ["ddraw", did, count]           draw values from did                   (no effect on a seeded map)
#   ["map", rid, cid, seed]         the observation

ATTR = {"bs": "bs_reflectivity", "loss": "loss", "off": "phase_offset"}


class Record:
    """the harness's own record of the intended state"""

    def __init__(self) -> None:
        self.dists: dict = {}
        self.ems: dict = {}
        self.recks: dict = {}
        self.cops: list = []
        self.params: dict = {}
        self.anon = 0

    def new_em(self, eid: str) -> str:
        for k in ATTR:
            self.dists[f"{eid}.{k}"] = IDEAL[k]
        self.ems[eid] = {k: f"{eid}.{k}" for k in ATTR}
        return eid

    def anon_em(self) -> str:
        self.anon += 1
        return self.new_em(f"~e{self.anon}")

    def em_of(self, rid: str) -> tuple[dict, dict]:
        dids = self.ems[self.recks[rid]]
        return {k: self.dists[dids[k]] for k in ATTR}, dids


class World:
    """the long-lived objects under test"""

    def __init__(self) -> None:
        self.pool: dict = {}
        self.params: dict = {}
        self.dists: dict = {}
        self.ems: dict = {}
        self.recks: dict = {}


def param_value(kind: str, v):
    if kind == "ph":
        g = GQ.parse(v)
        return math.atan2(float(g.im), float(g.re))
    return float(Fraction(v[0]) ** 2)


def flat_prog(cops: list, params: dict) -> list:
    """the construction program with every Parameter replaced by its CURRENT value (as the record has it)"""
    out = []
    for op in cops:
        if op[0] == "psp":
            out.append(cg.op_ps(op[1], op[2], GQ.parse(params[op[3]][1])))
        elif op[0] == "bsp":
            c, s = params[op[4]][1]
            out.append(cg.op_bs(op[1], op[2], op[3], Fraction(c), Fraction(s), op[5]))
        else:
            out.append(op)
    return out


def build_em_shared(em: dict, dids: dict) -> ErrorModel:
    """fresh error model from the record; quantities that share one distribution object share one fresh object"""
    objs: dict = {}
    e = ErrorModel()
    for k in ATTR:
        if dids[k] not in objs:
            objs[dids[k]] = build_dist(em[k])
        setattr(e, ATTR[k], objs[dids[k]])
    return e


def shared_random(em: dict, dids: dict) -> bool:
    rnd = [dids[k] for k in ATTR if em[k]["kind"] != "constant"]
    return len(set(rnd)) < len(rnd)


def spec_diff(a: list, b: list) -> str | None:
    """first difference between two observed component lists (numbers to 1e-9, phases modulo 2*pi)"""
    if len(a) != len(b):
        return f"{len(a)} components instead of {len(b)}"
    for k, (x, y) in enumerate(zip(a, b)):
        if x[0] != y[0]:
            return f"component {k} is {x[0]} instead of {y[0]}"
        if x[0] == "ps":
            if x[1] != y[1] or not ang_close(x[2], y[2]):
                return f"component {k}: ps mode {x[1]} phi {x[2]!r} instead of mode {y[1]} phi {y[2]!r}"
        elif x[0] == "bs":
            if x[1:3] != y[1:3] or x[4] != y[4] or not abs(x[3] - y[3]) <= TOL:
                return f"component {k}: bs {x[1:]} instead of {y[1:]}"
        elif x[0] == "loss":
            if x[1] != y[1] or not abs(x[2] - y[2]) <= TOL:
                return f"component {k}: loss {x[1:]} instead of {y[1:]}"
        elif x != y:
            return f"component {k}: {x} instead of {y}"
    return None


def apply_step(world: World, rec: Record, st: list) -> str | None:
    """execute one non-map step on the objects under test and on the record; returns a complaint when the step
    cannot be executed (an invalid history, e.g. a shrinking candidate)"""
    name = st[0]
    try:
        if name == "c":
            op = st[1]
            if op[0] in ("psp", "bsp") and rec.params[op[3 if op[0] == "psp" else 4]][0] != ("ph" if op[0] == "psp" else "r"):
                return "parameter of the wrong kind"
            if op[0] == "psp":
                world.pool[op[1]].ps(op[2], world.params[op[3]])
            elif op[0] == "bsp":
                world.pool[op[1]].bs(op[2], op[3], reflectivity=world.params[op[4]], convention=op[5])
            else:
                r = cg.apply_op(world.pool, op)
                if r != "ok":
                    return f"circuit op {op[:2]} raises {r}"
            rec.cops.append(op)
        elif name == "pnew":
            world.params[st[1]] = lw.Parameter(param_value(st[2], st[3]))
            rec.params[st[1]] = (st[2], st[3])
        elif name == "pset":
            kind = rec.params[st[1]][0]
            world.params[st[1]].set(param_value(kind, st[2]))
            rec.params[st[1]] = (kind, st[2])
        elif name == "dnew":
            world.dists[st[1]] = build_dist(st[2])
            rec.dists[st[1]] = st[2]
        elif name == "enew":
            world.ems[st[1]] = ErrorModel()
            rec.new_em(st[1])
        elif name == "eset":
            setattr(world.ems[st[1]], ATTR[st[2]], world.dists[st[3]])
            rec.ems[st[1]][st[2]] = st[3]
        elif name == "rnew":
            form = st[2]
            if form == "omitted":
                world.recks[st[1]] = Reck()
                rec.recks[st[1]] = rec.anon_em()
            elif form == "none":
                world.recks[st[1]] = Reck(None)
                rec.recks[st[1]] = rec.anon_em()
            elif form == "explicit":
                world.recks[st[1]] = Reck(ErrorModel())
                rec.recks[st[1]] = rec.anon_em()
            else:
                world.recks[st[1]] = Reck(world.ems[st[3]])
                rec.recks[st[1]] = st[3]
        elif name == "rset":
            setattr(world.recks[st[1]].error_model, ATTR[st[2]], world.dists[st[3]])
            rec.ems[rec.recks[st[1]]][st[2]] = st[3]
        elif name == "rassign":
            if st[2] is None:
                world.recks[st[1]].error_model = ErrorModel()
                rec.recks[st[1]] = rec.anon_em()
            else:
                world.recks[st[1]].error_model = world.ems[st[2]]
                rec.recks[st[1]] = st[2]
        elif name == "dseed":
            d = world.dists[st[1]]
            if hasattr(d, "set_random_seed"):
                d.set_random_seed(st[2])
        elif name == "ddraw":
            d = world.dists[st[1]]
            lo, hi = bounds(rec.dists[st[1]])
            for _ in range(st[2]):
                v = d.value()
                if not (lo <= v <= hi):
                    return f"oracle: bounds: {rec.dists[st[1]]} returned {v!r}, outside its bounds"
        else:
            return f"unknown step {name}"
    except (KeyError, IndexError, TypeError) as e:
        return f"step {st[:2]} cannot be executed ({exc_class(e)}: {e})"
    return None


def check_map(ctx: Ctx, world: World, rec: Record, st: list, idx: int, c, model: bool = True) -> list[str]:
    _, rid, cid, seed = st
    if rid not in world.recks or cid not in world.pool:
        return ["machinery: map step refers to an unknown object"]
    em, dids = rec.em_of(rid)
    # the circuit as it is intended to be NOW, from the record
    prog = flat_prog(rec.cops, rec.params)
    ref_pool: dict = {}
    for op in prog:
        if cg.apply_op(ref_pool, op) != "ok":
            return ["machinery: the recorded construction program cannot be replayed"]
    ref = ref_pool[cid]
    where = f" [history step {idx}: Reck {rid} maps circuit {cid}, seed {seed}]"
    live = world.pool[cid]
    try:
        before = (np.array(live.U), heralds_of(live))
    except Exception:  # noqa: BLE001
        before = None
    try:
        mc = world.recks[rid].map(live, seed=seed)
    except Exception as e:  # noqa: BLE001
        c("hist:map-raises")
        return [f"oracle: raises: mapping a lossless circuit raises {exc_class(e)}: {str(e)[:80]}" + where]
    c("hist:map")
    probs = oracle({}, ref, mc, em)
    # mapping only reads the circuit it is given
    if before is not None and not (mat_close(np.array(live.U), before[0]) and heralds_of(live) == before[1]):
        probs.append("oracle: argument: Reck.map changed the circuit it was given")
    rnd = is_random(em)
    ideal = model_em(em) == model_em(IDEAL)
    c("hist:em-" + ("random" if rnd else "ideal" if ideal else "constant-noise"))
    if seed is not None or not rnd:
        try:
            fmc = Reck(build_em_shared(em, dids)).map(ref, seed=seed)
            d = spec_diff(observe_spec(mc), observe_spec(fmc))
            if d is not None:
                probs.append("oracle: fresh: the mapped circuit differs from what a fresh Reck with the intended "
                             f"error model programs for the current circuit and the same seed: {d}")
            elif heralds_of(mc) != heralds_of(fmc):
                probs.append("oracle: fresh: heralds differ from those a fresh Reck produces")
        except Exception as e:  # noqa: BLE001
            probs.append(f"machinery: the fresh reference mapping raises {exc_class(e)}: {e}")
    else:
        c("hist:unseeded-random (bounds/structure only)")
    if model and not probs and seed is not None:
        if rnd:
            if shared_random(em, dids):
                c("hist:shared-random-distribution:oracle-only")
            else:
                c("hist:tape-model")
                probs += params_problems(ctx, ref, mc, em, seed)
        else:
            case = {"origin": {"prog": prog, "top": cid}}
            m = run_model_map(ctx, case, em)
            if m is None:
                c("hist:model-skipped (not exactly representable / size bound)")
            elif m["result"] == "ok" and m["exact"]:
                c("hist:exact-model")
                probs += compare_with_model(case, ref, mc, em, m, well_conditioned(m))
            elif m["result"] == "ok" or not m.get("exact", True):
                c("hist:model-inexact (irrational settings):oracle-only")
            else:
                probs.append(f"corr: model raises {m['result']}, implementation maps the circuit")
    # the caller goes on using the mapped circuit: a later map must not hand out (or depend on) this object again
    try:
        mc.ps(0, 0.5)
        c("hist:mapped-circuit-modified-afterwards")
    except Exception:  # noqa: BLE001
        pass
    return [p + where for p in dict.fromkeys(probs)]


def run_history(ctx: Ctx, hist: dict, count: bool = False, hook=None, model: bool = True) -> list[str]:
    """execute the history; problems of the first failing map step (later steps run on a world that is already
    known to be wrong)"""
    c = (lambda b: ctx.count(b)) if count else (lambda b: None)
    world, rec = World(), Record()
    for idx, st in enumerate(hist["steps"]):
        if st[0] == "map":
            if hook is not None:
                hook(world, idx)
            probs = check_map(ctx, world, rec, st, idx, c, model)
            if probs:
                return probs
        else:
            bad = apply_step(world, rec, st)
            if bad is not None:
                return [bad if bad.startswith("oracle") else "machinery: " + bad]
            c("hist:step-" + (st[0] if st[0] != "c" else "circuit-" + st[1][0]))
    return []


class HistGen:
    """random histories; keeps track of what exists so that every step is executable"""

    def __init__(self, rng, max_n: int = 5) -> None:
        self.rng = rng
        self.max_n = max_n
        self.steps: list = []
        self.circs: dict = {}
        self.params: dict = {}
        self.dists: dict = {}
        self.ems: list = []
        self.recks: list = []
        self.k = 0
        self.seed = rng.choice([0, 1, 2**31 - 1, rng.randrange(10**6), rng.randrange(10**6)])

    def name(self, p: str) -> str:
        self.k += 1
        return f"{p}{self.k}"

    # -- circuits
    def circuit(self, cid: str | None = None, n: int | None = None, sub: bool = False) -> str:
        rng = self.rng
        cid = cid or self.name("c")
        n = n or rng.choice([k for k in [2, 3, 3, 4, 4, 5] if k <= self.max_n])
        self.circs[cid] = {"n": n, "hin": set(), "hout": set(), "sub": sub}
        if rng.random() < 0.4:
            style = rng.choice(["givens", "real", "perm", "block"])
            self.steps.append(["c", ["unitary", cid, cg.mat_json(recipe_unitary(n, rand_recipe(rng, n, style)))]])
        else:
            self.steps.append(["c", ["new", cid, n]])
            for _ in range(rng.randint(1, 2 * n)):
                self.grow(cid, allow=("prim", "param"))
        return cid

    def param(self, kind: str) -> str:
        have = [p for p, k in self.params.items() if k == kind]
        if have and self.rng.random() < 0.5:
            return self.rng.choice(have)
        pid = self.name("p")
        self.params[pid] = kind
        self.steps.append(["pnew", pid, kind, self.pvalue(kind)])
        return pid

    def pvalue(self, kind: str):
        if kind == "ph":
            return self.rng.choice(CIRCLE).s()
        c, s = self.rng.choice(PYTH)
        return [frac_str(c), frac_str(s)]

    def grow(self, cid: str, allow=("prim", "param", "herald", "add")) -> None:
        """one in-place change of an existing circuit"""
        rng = self.rng
        info = self.circs[cid]
        n = info["n"]
        w = rng.choice(allow)
        if w == "herald":
            fi = [m for m in range(n) if m not in info["hin"]]
            fo = [m for m in range(n) if m not in info["hout"]]
            if len(fi) <= 1 or info["sub"]:
                w = "prim"
            else:
                i, o = rng.choice(fi), rng.choice(fo)
                info["hin"].add(i)
                info["hout"].add(o)
                self.steps.append(["c", ["herald", cid, rng.choice([0, 1, 1, 2]), i, o]])
                return
        if w == "add":
            if n < 2:
                w = "prim"
            else:
                sz = rng.randint(1, n)
                sid = self.name("s")
                if rng.random() < 0.5:
                    self.steps.append(["c", ["unitary", sid, cg.mat_json(cg.exact_unitary(rng, sz))]])
                else:
                    self.steps.append(["c", ["new", sid, sz]])
                    self.circs[sid] = {"n": sz, "hin": set(), "hout": set(), "sub": True}
                    for _ in range(rng.randint(1, 3)):
                        self.grow(sid, allow=("prim", "param"))
                    del self.circs[sid]
                self.steps.append(["c", ["add", cid, sid, rng.randint(0, n - sz), rng.random() < 0.4]])
                return
        if w == "param":
            if n >= 2 and rng.random() < 0.35:
                m1, m2 = rng.sample(range(n), 2)
                self.steps.append(["c", ["bsp", cid, m1, m2, self.param("r"), rng.choice(["Rx", "H"])]])
            else:
                self.steps.append(["c", ["psp", cid, rng.randrange(n), self.param("ph")]])
            return
        self.steps.append(["c", cg.rand_prim_op(rng, cid, n, 0.0, allow_loss=False)])

    def change_circuit(self, cid: str) -> None:
        """something that changes what `cid` implements, in place"""
        rng = self.rng
        used = [op[3 if op[0] == "psp" else 4] for st in self.steps if st[0] == "c"
                for op in [st[1]] if op[0] in ("psp", "bsp")]
        r = rng.random()
        if used and r < 0.4:
            pid = rng.choice(used)
            self.steps.append(["pset", pid, self.pvalue(self.params[pid])])
        elif r < 0.5:
            # the object is replaced by a new one under the same name (the old one is garbage: its id may be reused)
            self.circuit(cid, self.circs[cid]["n"])
        else:
            for _ in range(rng.randint(1, 3)):
                self.grow(cid)

    # -- error models
    def dist(self, what: str, kind: str | None = None) -> str:
        rng = self.rng
        kind = kind or rng.choice(["const", "const", "random", "random", "ideal"])
        if kind == "ideal":
            d = IDEAL[what]
        elif kind == "const":
            d = rand_constant_em(rng)[what]
        else:
            d = rand_dist(rng, what)
        did = self.name("d")
        self.dists[did] = what
        self.steps.append(["dnew", did, d])
        return did

    def shared_dist(self) -> str:
        """a distribution that is valid for every quantity (so that one object can serve two of them)"""
        rng = self.rng
        lo = rng.uniform(0.3, 0.45)
        d = rng.choice([{"kind": "tophat", "lo": lo, "hi": lo + rng.uniform(0, 0.1)},
                        {"kind": "gaussian", "c": lo + 0.02, "d": rng.uniform(0.005, 0.05), "lo": lo, "hi": lo + 0.1},
                        {"kind": "constant", "v": rng.choice([0.25, 0.5])}])
        did = self.name("d")
        self.dists[did] = "any"
        self.steps.append(["dnew", did, d])
        return did

    def em(self) -> str:
        eid = self.name("e")
        self.ems.append(eid)
        self.steps.append(["enew", eid])
        return eid

    def reck(self, form: str | None = None, eid: str | None = None) -> str:
        form = form or self.rng.choice(["omitted", "none", "explicit", "em"])
        if form == "em" and eid is None:
            eid = self.rng.choice(self.ems) if self.ems and self.rng.random() < 0.5 else self.em()
        rid = self.name("r")
        self.recks.append(rid)
        self.steps.append(["rnew", rid, form, eid if form == "em" else None])
        return rid

    def tune(self, rid: str | None = None) -> None:
        """change an error model that is in use: in place through the Reck, in place through the ErrorModel object,
        by re-assignment, by sharing a distribution object"""
        rng = self.rng
        rid = rid or rng.choice(self.recks)
        r = rng.random()
        what = rng.choice(["bs", "loss", "off"])
        if r < 0.45:
            self.steps.append(["rset", rid, what, self.dist(what)])
        elif r < 0.6 and self.ems:
            # through the ErrorModel object itself, preferably one that a Reck was given at construction / assignment
            used = [s[3] for s in self.steps if s[0] == "rnew" and s[3]] + \
                   [s[2] for s in self.steps if s[0] == "rassign" and s[2]]
            eid = rng.choice(used) if used and rng.random() < 0.8 else rng.choice(self.ems)
            self.steps.append(["eset", eid, what, self.dist(what)])
        elif r < 0.75:
            self.steps.append(["rassign", rid, rng.choice([None, *self.ems]) if self.ems else None])
        elif r < 0.9:
            did = self.shared_dist()
            a, b = rng.sample(["bs", "loss", "off"], 2)
            self.steps.append(["rset", rid, a, did])
            tgt = rng.choice(self.recks)
            self.steps.append(["rset", tgt, b, did])
        else:
            have = list(self.dists)
            if have:
                did = rng.choice(have)
                self.steps.append(rng.choice([["dseed", did, rng.choice([0, self.seed, rng.randrange(2**31)])],
                                              ["ddraw", did, rng.randint(1, 5)]]))

    def map(self, rid: str | None = None, cid: str | None = None, seed="hist") -> None:
        rng = self.rng
        rid = rid or rng.choice(self.recks)
        tops = [c for c, i in self.circs.items() if not i["sub"]]
        cid = cid or rng.choice(tops)
        if seed == "hist":
            seed = self.seed if rng.random() < 0.75 else rng.choice([None, 0, rng.randrange(10**6)])
        self.steps.append(["map", rid, cid, seed])

    def sweep(self) -> None:
        cid = self.rng.choice([c for c, i in self.circs.items() if not i["sub"]])
        for rid in self.recks:
            self.map(rid, cid, self.seed)


def gen_history(rng, kind: str, max_n: int = 5) -> dict:
    g = HistGen(rng, max_n)
    if kind == "circuit-inplace":
        # one Reck, the SAME circuit object mapped repeatedly with in-place changes in between
        rid = g.reck()
        if rng.random() < 0.4:
            g.tune(rid)
        cid = g.circuit()
        other = g.circuit() if rng.random() < 0.4 else None
        g.map(rid, cid)
        for _ in range(rng.randint(1, 3)):
            g.change_circuit(cid)
            if other and rng.random() < 0.3:
                g.map(rid, other)
            g.map(rid, cid)
    elif kind == "em-inplace":
        # one or two Recks, error model tuned / re-assigned / shared between maps of the same circuit
        for _ in range(rng.randint(0, 2)):
            g.em()
        rids = [g.reck(rng.choice(["em", "em", None])) for _ in range(rng.randint(1, 2))]
        cid = g.circuit()
        g.map(rids[0], cid)
        for _ in range(rng.randint(1, 4)):
            g.tune(rng.choice(rids))
            g.map(rng.choice(rids), cid)
        g.sweep()
    elif kind == "defaults":
        # several objects created with defaults; one is tuned in place; the others (created before AND after) stay ideal
        forms = ["omitted", "none", "explicit"]
        first = [g.reck(rng.choice(forms)) for _ in range(rng.randint(1, 2))]
        cid = g.circuit()
        if rng.random() < 0.5:
            g.map(first[0], cid)
        victim = rng.choice(first)
        for what in rng.sample(["bs", "loss", "off"], rng.randint(1, 3)):
            g.steps.append(["rset", victim, what, g.dist(what, rng.choice(["const", "random"]))])
        if rng.random() < 0.5:
            g.map(victim, cid)
        for _ in range(rng.randint(1, 2)):
            g.reck(rng.choice(forms))
        if rng.random() < 0.5:
            # the same for default ErrorModel objects
            e1, e2 = g.em(), g.em()
            what = rng.choice(["bs", "loss", "off"])
            g.steps.append(["eset", e1, what, g.dist(what, rng.choice(["const", "random"]))])
            g.reck("em", e2)
            g.em()
            g.reck("em", g.ems[-1])
        g.sweep()
    else:
        # mixed: several circuits, several Recks, everything interleaved
        for _ in range(rng.randint(0, 2)):
            g.em()
        for _ in range(rng.randint(1, 3)):
            g.reck()
        for _ in range(rng.randint(1, 2)):
            g.circuit()
        for _ in range(rng.randint(3, 8)):
            r = rng.random()
            if r < 0.3:
                g.tune()
            elif r < 0.55:
                g.change_circuit(rng.choice([c for c, i in g.circs.items() if not i["sub"]]))
            elif r < 0.62:
                g.reck()
            elif r < 0.67:
                g.circuit()
            else:
                g.map()
        g.sweep()
    return {"kind": "history:" + kind, "steps": g.steps}


def corpus_histories() -> list[dict]:
    """directed histories (always run first)"""
    ph = [GQ(Fraction(3, 5), Fraction(4, 5)).s(), GQ(Fraction(-5, 13), Fraction(12, 13)).s(), GQ(0, 1).s()]
    th = {"kind": "tophat", "lo": 0.1, "hi": 0.2}
    c45 = {"kind": "constant", "v": 0.36, "cs": ["3/5", "4/5"]}
    off = {"kind": "constant", "v": math.atan2(0.8, 0.6), "p": "3/5,4/5"}
    gau = {"kind": "gaussian", "c": 0.0, "d": 0.05, "lo": -0.2, "hi": 0.2}
    circ4 = [["c", ["new", "c1", 4]], ["pnew", "p1", "ph", ph[0]], ["pnew", "p2", "r", ["3/5", "4/5"]],
             ["c", cg.op_bs("c1", 0, 1, Fraction(3, 5), Fraction(4, 5))],
             ["c", cg.op_bs("c1", 2, 3, Fraction(5, 13), Fraction(12, 13))],
             ["c", ["psp", "c1", 1, "p1"]], ["c", ["bsp", "c1", 1, 2, "p2", "Rx"]],
             ["c", cg.op_ps("c1", 2, GQ.parse(ph[1]))], ["c", cg.op_bs("c1", 0, 1, Fraction(4, 5), Fraction(3, 5))]]
    u3 = cg.mat_json(recipe_unitary(3, [["giv", 0, 1, "3/5", "4/5", "0,1"], ["giv", 1, 2, "5/13", "12/13", "1,0"],
                                        ["ph", 0, "-3/5,4/5"]]))
    out = []
    # the same Reck maps the same circuit object; Parameter.set / appended components / heralds in between
    for form in ("omitted", "em"):
        pre = [["enew", "e1"]] if form == "em" else []
        out.append({"kind": "history:corpus-parameter-set", "steps": [
            *pre, ["rnew", "r1", form, "e1" if form == "em" else None], *circ4, ["map", "r1", "c1", None],
            ["pset", "p1", ph[1]], ["map", "r1", "c1", None], ["pset", "p2", ["5/13", "12/13"]],
            ["map", "r1", "c1", 3], ["pset", "p1", ph[0]], ["pset", "p2", ["3/5", "4/5"]], ["map", "r1", "c1", 3]]})
    out.append({"kind": "history:corpus-components-appended", "steps": [
        ["rnew", "r1", "omitted", None], ["c", ["new", "c1", 3]],
        ["c", cg.op_bs("c1", 0, 1, Fraction(3, 5), Fraction(4, 5))], ["c", cg.op_ps("c1", 1, GQ.parse(ph[0]))],
        ["map", "r1", "c1", 0], ["c", cg.op_bs("c1", 1, 2, Fraction(5, 13), Fraction(12, 13), "H")],
        ["map", "r1", "c1", 0], ["c", ["unitary", "s1", u3]], ["c", ["add", "c1", "s1", 0, False]],
        ["map", "r1", "c1", 0], ["c", ["swaps", "c1", [[0, 2], [2, 1], [1, 0]]]], ["map", "r1", "c1", 0],
        ["c", ["herald", "c1", 1, 0, 2]], ["map", "r1", "c1", 0], ["c", ["unitary", "s2", u3]],
        ["c", ["add", "c1", "s2", 0, True]], ["map", "r1", "c1", 0]]})
    # two circuits alternate on one Reck; one of them is replaced by a new object under the same name
    out.append({"kind": "history:corpus-two-circuits", "steps": [
        ["rnew", "r1", "none", None], *circ4, ["c", ["unitary", "c2", u3]], ["map", "r1", "c2", 1], ["map", "r1", "c1", 1], ["map", "r1", "c2", 1],
        ["c", ["new", "c2", 3]], ["c", cg.op_bs("c2", 0, 2, Fraction(3, 5), Fraction(4, 5))], ["map", "r1", "c2", 1],
        ["c", ["new", "c2", 3]], ["c", cg.op_bs("c2", 1, 2, Fraction(3, 5), Fraction(4, 5))], ["map", "r1", "c2", 1]]})
    # the same circuit object goes through several Recks (created before and after) while it changes
    out.append({"kind": "history:corpus-circuit-shared-by-recks", "steps": [
        ["rnew", "r1", "omitted", None], ["rnew", "r2", "explicit", None], *circ4, ["map", "r1", "c1", 2],
        ["pset", "p1", ph[2]], ["map", "r2", "c1", 2], ["c", ["psp", "c1", 3, "p1"]], ["map", "r1", "c1", 2],
        ["rnew", "r3", "none", None], ["pset", "p2", ["4/5", "3/5"]], ["map", "r3", "c1", 2], ["map", "r2", "c1", 2],
        ["map", "r1", "c1", 2]]})
    # default components per object: Reck() / Reck(None) / Reck(ErrorModel()), one tuned in place
    for form in ("omitted", "none", "explicit"):
        for what, d in (("loss", th), ("bs", c45), ("off", off), ("off", gau)):
            out.append({"kind": "history:corpus-defaults", "steps": [
                ["rnew", "r0", form, None], ["rnew", "r1", form, None], ["c", ["unitary", "c1", u3]],
                ["dnew", "d1", d], ["rset", "r1", what, "d1"], ["map", "r1", "c1", 5], ["rnew", "r2", form, None],
                ["rnew", "r3", "omitted", None], ["map", "r2", "c1", 5], ["map", "r0", "c1", 5],
                ["map", "r3", "c1", None], ["map", "r1", "c1", 5]]})
    # default ErrorModel objects; a distribution object shared by two quantities and by two error models
    out.append({"kind": "history:corpus-default-error-models", "steps": [
        ["enew", "e1"], ["enew", "e2"], ["dnew", "d1", th], ["eset", "e1", "loss", "d1"], ["enew", "e3"],
        ["rnew", "r1", "em", "e1"], ["rnew", "r2", "em", "e2"], ["rnew", "r3", "em", "e3"],
        ["c", ["unitary", "c1", u3]], ["map", "r2", "c1", 7], ["map", "r3", "c1", 7], ["map", "r1", "c1", 7],
        ["eset", "e2", "bs", "d1"], ["map", "r2", "c1", 7], ["map", "r1", "c1", 7], ["eset", "e1", "off", "d1"],
        ["map", "r1", "c1", 7], ["dseed", "d1", 7], ["ddraw", "d1", 3], ["map", "r1", "c1", 7],
        ["map", "r2", "c1", 7], ["map", "r3", "c1", 7]]})
    # the error model handed over at construction is tuned afterwards; re-assignment; back to ideal
    out.append({"kind": "history:corpus-error-model-retuned", "steps": [
        ["enew", "e1"], ["rnew", "r1", "em", "e1"], *circ4, ["map", "r1", "c1", 11], ["dnew", "d1", gau],
        ["eset", "e1", "off", "d1"], ["map", "r1", "c1", 11], ["map", "r1", "c1", 11], ["dnew", "d2", th],
        ["rset", "r1", "loss", "d2"], ["map", "r1", "c1", 11], ["dnew", "d3", c45], ["rset", "r1", "bs", "d3"],
        ["map", "r1", "c1", 11], ["enew", "e2"], ["rassign", "r1", "e2"], ["map", "r1", "c1", 11],
        ["rassign", "r1", "e1"], ["map", "r1", "c1", 11], ["rassign", "r1", None], ["map", "r1", "c1", 11],
        ["rnew", "r2", "em", "e1"], ["map", "r2", "c1", 11], ["map", "r2", "c1", 12], ["map", "r2", "c1", 11]]})
    return out


class Pristine:
    """A forked copy of this process, taken before any history has been executed.  Every request is executed in a
    further fork of that copy, i.e. in a process in which no object of an earlier history ever existed.  A history
    that fails there is a self-contained replay; a history that fails only in the long-lived process of the check
    depends on state that finished histories left behind in the library."""

    def __init__(self) -> None:
        import os

        self.os = os
        r1, w1 = os.pipe()
        r2, w2 = os.pipe()
        pid = os.fork()
        if pid == 0:
            try:
                os.close(w1)
                os.close(r2)
                fin, fout = os.fdopen(r1, "r"), os.fdopen(w2, "w")
                for line in fin:
                    rr, ww = os.pipe()
                    p = os.fork()
                    if p == 0:
                        os.close(rr)
                        try:
                            res = run_history(None, json.loads(line), model=False)
                        except BaseException as e:  # noqa: BLE001
                            res = [f"machinery: the history raised {type(e).__name__}: {e}"]
                        os.write(ww, json.dumps(res).encode())
                        os._exit(0)
                    os.close(ww)
                    data = b""
                    while True:
                        chunk = os.read(rr, 65536)
                        if not chunk:
                            break
                        data += chunk
                    os.close(rr)
                    os.waitpid(p, 0)
                    fout.write((data.decode() or '["machinery: no answer from the forked process"]') + "\n")
                    fout.flush()
            finally:
                os._exit(0)
        os.close(r1)
        os.close(w2)
        self.fout, self.fin, self.pid = os.fdopen(w1, "w"), os.fdopen(r2, "r"), pid

    def run(self, hist: dict) -> list[str]:
        self.fout.write(json.dumps(hist, default=str) + "\n")
        self.fout.flush()
        line = self.fin.readline()
        if not line:
            raise MachineryFault("history stream: the pristine process died")
        return json.loads(line)

    def close(self) -> None:
        try:
            self.fout.close()
            self.fin.close()
            self.os.waitpid(self.pid, 0)
        except Exception:  # noqa: BLE001
            pass


_PRISTINE: list = []


def pristine() -> Pristine:
    if not _PRISTINE:
        import atexit

        _PRISTINE.append(Pristine())
        atexit.register(_PRISTINE[0].close)
    return _PRISTINE[0]


def shrink_history(ctx: Ctx, hist: dict, probs: list[str], fresh: bool) -> tuple[dict, list[str]]:
    """fewer steps with a problem of the same kind; `fresh`: every candidate runs in a pristine process (oracle
    problems), otherwise in this process (model comparison)"""
    target = kind_of(probs[0])

    def fails(steps: list) -> list[str]:
        cand = {"kind": hist["kind"], "steps": steps}
        try:
            ps = pristine().run(cand) if fresh else run_history(ctx, cand)
        except MachineryFault:
            raise
        except Exception:  # noqa: BLE001
            return []
        return [p for p in ps if kind_of(p) == target and not p.startswith("machinery")]

    best = {"steps": list(hist["steps"]), "probs": probs}

    def still(steps: list) -> bool:
        ps = fails(steps)
        if ps:
            best["steps"], best["probs"] = steps, ps
            return True
        return False

    # cut after the failing map step, then remove steps
    m = [int(x) for p in probs for x in [p.split("[history step ")[-1].split(":")[0]] if "[history step " in p]
    if m:
        still(hist["steps"][: m[0] + 1])
    ddmin(best["steps"], still, max_tests=150)
    return {"kind": hist["kind"], "steps": best["steps"]}, best["probs"]


_HIST_REPORTED: list = []


def check_history(ctx: Ctx, hist: dict, sample: bool = False) -> None:
    probs = run_history(ctx, hist, count=True)
    maps = [s for s in hist["steps"] if s[0] == "map"]
    ctx.case(json.dumps(hist["steps"], sort_keys=True, default=str), bool(maps),
             sample={"kind": hist["kind"], "steps": len(hist["steps"]), "maps": len(maps)} if sample else None)
    if not probs:
        return
    ctx.count("histories_with_problems")
    if probs[0].startswith("machinery"):
        raise MachineryFault(f"history stream: {probs[0]} :: {json.dumps(hist, default=str)[:600]}")
    if not probs[0].startswith("oracle"):
        small, sprobs = shrink_history(ctx, hist, probs, fresh=False)
        key = json.dumps(small["steps"], sort_keys=True, default=str)
        if key not in _REPORTED:
            _REPORTED.add(key)
            ctx.disagreement(sprobs[0], {"case": small, "problems": sprobs, "script": history_script(small)})
        return
    # a clause of the property fails in this (long-lived) process: does the history fail on its own?
    alone = [p for p in pristine().run(hist) if p.startswith("oracle") and kind_of(p) == kind_of(probs[0])]
    if not alone:
        if _HIST_REPORTED:
            # e.g. a default shared by all objects that an earlier, already reported history has changed
            ctx.count("hist:fails-only-after-an-already-reported-history")
            return
        ctx.count("hist:fails-only-after-earlier-histories")
        _HIST_REPORTED.append(None)
        ctx.violation(probs[0] + "  -- the history holds in a process of its own and fails only in a process in which "
                      "other, finished histories (independent objects) ran before: state leaks between objects",
                      {"case": hist, "problems": probs, "script": history_script(hist)},
                      sig={"kind": kind_of(probs[0])}, found_input=False)
        return
    if len(_HIST_REPORTED) >= ctx.max_reports:
        # replays are written for the first few only: no point in shrinking further ones
        ctx.count("hist:further-failing-history (not shrunk)")
        ctx.violation(alone[0], {"case": hist, "problems": alone}, sig={"kind": kind_of(alone[0])})
        return
    small, sprobs = shrink_history(ctx, hist, alone, fresh=True)
    key = json.dumps(small["steps"], sort_keys=True, default=str)
    if key in _REPORTED:
        ctx.count("duplicate_of_reported_replay")
        return
    _REPORTED.add(key)
    _HIST_REPORTED.append(key)
    ctx.violation(sprobs[0], {"case": small, "problems": sprobs, "script": history_script(small)},
                  sig={"kind": kind_of(sprobs[0])})


def history_script(hist: dict) -> list[str]:
    """the history as Python statements against the public API (for the reader of a replay)"""
    out = []
    for st in hist["steps"]:
        n = st[0]
        if n == "c":
            op = st[1]
            if op[0] == "psp":
                out.append(f"{op[1]}.ps({op[2]}, {op[3]})")
            elif op[0] == "bsp":
                out.append(f"{op[1]}.bs({op[2]}, {op[3]}, reflectivity={op[4]}, convention={op[5]!r})")
            elif op[0] == "new":
                out.append(f"{op[1]} = lw.Circuit({op[2]})")
            elif op[0] == "unitary":
                out.append(f"{op[1]} = lw.Unitary(<exact {len(op[2])}x{len(op[2])} unitary>)")
            elif op[0] == "bs":
                out.append(f"{op[1]}.bs({op[2]}, {op[3]}, reflectivity=({op[4]})**2, convention={op[6]!r})")
            elif op[0] == "ps":
                out.append(f"{op[1]}.ps({op[2]}, arg({op[3]}))")
            elif op[0] == "add":
                out.append(f"{op[1]}.add({op[2]}, {op[3]}, group={op[4]})")
            elif op[0] == "herald":
                out.append(f"{op[1]}.herald({op[2]}, {op[3]}, {op[4]})")
            elif op[0] == "swaps":
                out.append(f"{op[1]}.mode_swaps({dict((a, b) for a, b in op[2])})")
            else:
                out.append(f"{op[1]}.{op[0]}({op[2:]})")
        elif n == "pnew":
            out.append(f"{st[1]} = lw.Parameter({param_value(st[2], st[3])!r})")
        elif n == "pset":
            out.append(f"{st[1]}.set(<{st[2]}>)")
        elif n == "dnew":
            out.append(f"{st[1]} = {st[2]}")
        elif n == "enew":
            out.append(f"{st[1]} = ErrorModel()")
        elif n == "eset":
            out.append(f"{st[1]}.{ATTR[st[2]]} = {st[3]}")
        elif n == "rnew":
            arg = {"omitted": "", "none": "None", "explicit": "ErrorModel()"}.get(st[2], st[3])
            out.append(f"{st[1]} = Reck({arg})")
        elif n == "rset":
            out.append(f"{st[1]}.error_model.{ATTR[st[2]]} = {st[3]}")
        elif n == "rassign":
            out.append(f"{st[1]}.error_model = {st[2] or 'ErrorModel()'}")
        elif n == "dseed":
            out.append(f"{st[1]}.set_random_seed({st[2]})")
        elif n == "ddraw":
            out.append(f"[{st[1]}.value() for _ in range({st[2]})]")
        elif n == "map":
            out.append(f"{st[1]}.map({st[2]}, seed={st[3]})   # checked")
    return out


def history_self_test(ctx: Ctx) -> None:
    """the history oracle must notice (a) an error model changed behind the record's back (what a default shared
    between objects looks like) and (b) a circuit changed behind the record's back (what a stale decomposition
    looks like from the other side).  Uses a Reck with an explicitly constructed error model, so that the tampering
    cannot touch anything but the objects of this one history."""
    hist = corpus_histories()[1]
    assert hist["steps"][1][:3] == ["rnew", "r1", "em"]

    def leak(world: World, idx: int) -> None:
        world.recks["r1"].error_model.loss = Constant(0.1)

    def stale(world: World, idx: int) -> None:
        world.params["p1"].set(0.123)

    if run_history(ctx, hist, model=False):
        # the directed history itself fails on this implementation: it is reported by the stream below
        ctx.count("self-test:history-skipped (the directed history already fails)")
        return
    for hook, what in ((leak, "a leaked error model"), (stale, "a circuit that differs from the recorded one")):
        ps = run_history(ctx, hist, hook=hook, model=False)
        if not any(p.startswith("oracle:") for p in ps):
            raise MachineryFault(f"self-test: the history oracle does not notice {what}")
    ctx.count("self-test:history-passed")


def history_stream(ctx: Ctx) -> None:
    rng = ctx.rng
    pristine()
    history_self_test(ctx)
    for i, h in enumerate(corpus_histories()):
        ctx.count("gen:" + h["kind"])
        check_history(ctx, h, sample=i == 0)
    kinds = ["circuit-inplace", "circuit-inplace", "em-inplace", "em-inplace", "defaults", "mixed", "mixed"]
    for _ in range(ctx.n(100, 800)):
        if ctx.out_of_time():
            break
        kind = rng.choice(kinds)
        h = gen_history(rng, kind, 5 if not ctx.thorough else 6)
        ctx.count("gen:" + h["kind"])
        check_history(ctx, h)


# ----------------------------------------------------------------------------- across processes

_CHILD = r"""
import json, sys
import numpy as np
import lightworks as lw
from lightworks.interferometers import ErrorModel, Reck
from lightworks.interferometers.dists import Constant, Gaussian, TopHat

def dist(d):
    if d["kind"] == "constant":
        return Constant(d["v"])
    if d["kind"] == "gaussian":
        return Gaussian(d["c"], d["d"], d.get("lo"), d.get("hi"))
    return TopHat(d["lo"], d["hi"])

out = []
for job in json.load(sys.stdin):
    objs = {}
    e = ErrorModel()
    for attr, key in (("bs_reflectivity", "bs"), ("loss", "loss"), ("phase_offset", "off")):
        name = job["share"].get(key, key)
        if name not in objs:
            objs[name] = dist(job["em"][name])
        setattr(e, attr, objs[name])
    u = np.array([[complex(*x) for x in row] for row in job["U"]])
    mc = Reck(e).map(lw.Unitary(u), seed=job["seed"])
    spec = []
    for s in mc._get_circuit_spec():
        t = type(s).__name__
        if t == "PhaseShifter":
            spec.append(["ps", s.mode, float(s.phi)])
        elif t == "BeamSplitter":
            spec.append(["bs", s.mode_1, s.mode_2, float(s.reflectivity), s.convention])
        elif t == "Loss":
            spec.append(["loss", s.mode, float(s.loss)])
        elif t == "Barrier":
            spec.append(["barrier", list(s.modes)])
        else:
            spec.append([t])
    out.append(spec)
print(json.dumps(out))
"""


def process_jobs(ctx: Ctx, jobs: list, hashseeds: list[str], here: str) -> None:
    import os
    import subprocess
    import sys

    mine = []
    for job in jobs:
        objs: dict = {}
        e = ErrorModel()
        for key in ATTR:
            name = job["share"].get(key, key)
            if name not in objs:
                objs[name] = build_dist(job["em"][name])
            setattr(e, ATTR[key], objs[name])
        u = np.array([[complex(*x) for x in row] for row in job["U"]])
        mine.append(observe_spec(Reck(e).map(lw.Unitary(u), seed=job["seed"])))
    for hs in hashseeds:
        r = subprocess.run([sys.executable, "-B", "-c", _CHILD], input=json.dumps(jobs), capture_output=True, text=True,
                           env=dict(os.environ, PYTHONHASHSEED=hs), timeout=600, check=False)
        if r.returncode != 0:
            # the child runs nothing but the implementation: it refuses / crashes there although it maps here
            tail = r.stderr.strip().splitlines()[-1][:200] if r.stderr.strip() else "no output"
            ctx.violation("oracle: seed: mapping the same (circuit, error model, seed) fails in another interpreter "
                          "process: " + tail,
                          {"process": jobs, "pythonhashseeds": [here, hs]}, sig={"kind": "seed"}, found_input=False)
            return
        theirs = json.loads(r.stdout.strip().splitlines()[-1])
        for job, a, b in zip(jobs, mine, theirs):
            ctx.count("process:seeded-map-compared")
            ctx.case(("process", hs, json.dumps(job, sort_keys=True)), True, None)
            d = spec_diff(a, b)
            if d is not None:
                ctx.violation("oracle: seed: the same circuit, error model and seed give a different mapped circuit "
                              f"in another interpreter process (PYTHONHASHSEED {here} / {hs}): {d}",
                              {"process": [job], "pythonhashseeds": [here, hs]}, sig={"kind": "seed"})
                return


def cross_process(ctx: Ctx) -> None:
    """the same (circuit, error model, seed) mapped in ANOTHER interpreter process (different string-hash seed) must
    program the same numbers: a seed is what makes a noisy mapping reproducible from run to run"""
    import os

    rng = ctx.rng
    jobs = []
    for i in range(ctx.n(4, 12)):
        n = rng.choice([2, 3, 4])
        u = recipe_unitary(n, rand_recipe(rng, n, "givens"))
        em = rand_random_em(rng)
        share = {}
        if i % 4 == 3:
            # one distribution object serves two quantities
            lo = rng.uniform(0.3, 0.45)
            em["bs"] = {"kind": "tophat", "lo": lo, "hi": lo + 0.1}
            share = {"loss": "bs"}
        jobs.append({"U": [[[float(x.re), float(x.im)] for x in row] for row in u], "em": em, "share": share,
                     "seed": rng.choice([0, 1, 2**31 - 1, rng.randrange(10**6)])})
    here = os.environ.get("PYTHONHASHSEED", "0")
    base = int(here) if here.isdigit() else 0
    process_jobs(ctx, jobs, [str((base + 1 + k) % 4294967295) for k in range(ctx.n(1, 2))], here)


def self_test(ctx: Ctx) -> None:
    """the comparison code must notice a wrong mapping: perturb one programmed phase of a mapped circuit"""
    u = ctx.model.call({"op": "reck", "cmd": "synth", "n": 3,
                        "cells": [["3/5", "4/5", "0,1"], ["5/13", "12/13", "1,0"], ["4/5", "3/5", "-1,0"]],
                        "ends": ["1,0", "0,1", "-1,0"]})["U"]
    circ = lw.Unitary(gq_mat_np(u))
    mc = Reck().map(circ)
    bad = lw.Circuit(3)
    done = False
    for s in observe_spec(mc):
        if s[0] == "ps":
            bad.ps(s[1], s[2] + (0.0 if done else 1e-6))
            done = True
        elif s[0] == "bs":
            bad.bs(s[1], s[2], reflectivity=s[3])
    if not any(p.startswith("oracle: unitary") for p in oracle({}, circ, bad, IDEAL)):
        raise MachineryFault("self-test: the oracle does not notice a perturbed phase")
    # … and the correspondence comparison must notice a model answer that differs in one phase
    case = {"origin": {"U": u, "heralds": []}}
    m = run_model_map(ctx, case, IDEAL)
    if m["result"] != "ok" or not m["exact"] or not m["U_equal_input"] or not well_conditioned(m):
        raise MachineryFault("self-test: the exact model does not reproduce a 3-mode unitary")
    if compare_with_model(case, circ, mc, IDEAL, m, True):
        raise MachineryFault("self-test: model and implementation differ on the self-test unitary")
    k = next(i for i, sp in enumerate(m["spec"]) if sp[0] == "ps")
    wrong = json.loads(json.dumps(m))
    wrong["spec"][k][2] = "3/5,4/5,0,0" if wrong["spec"][k][2] != "3/5,4/5,0,0" else "1,0,0,0"
    if not compare_with_model(case, circ, mc, IDEAL, wrong, True):
        raise MachineryFault("self-test: the correspondence comparison does not notice a wrong model phase")
    ctx.count("self-test:passed")


def run(ctx: Ctx) -> None:
    ctx.rule = ("cases = (circuit, error model, seed); circuits: unitaries synthesised from exact Reck settings (dense, "
                "real, sparse, identity, tiny and below-threshold entries), exact Givens/permutation/block-diagonal "
                "unitaries, heralded unitaries, circuits from the C02 program generator (lossy ones must be rejected); "
                "error models: default, exact constant, random Gaussian/TopHat, malformed; non-trivial = at least one "
                "unit cell (n >= 2) or a rejected input; distinct = distinct case description; histories = step "
                "lists on long-lived Reck / ErrorModel / distribution / circuit / Parameter objects with an observation "
                "after every map (directed corpus first, then random: circuit-inplace, em-inplace, defaults, mixed), "
                "non-trivial = at least one map; processes = seeded maps repeated in a second interpreter")
    rng = ctx.rng
    pristine()  # forked before anything has been run on the implementation
    self_test(ctx)
    n_cases = ctx.n(500, 4000)
    max_n = 6 if not ctx.thorough else 8
    for i in range(n_cases):
        if ctx.out_of_time():
            break
        case = gen_case(ctx, rng, max_n)
        ctx.count("gen:" + case["kind"])
        full = materialise(ctx, case)
        probs = run_case(ctx, full, count=True)
        org = full["origin"]
        n = len(org["U"]) if "U" in org else None
        ctx.case(json.dumps({k: v for k, v in case.items() if k != "origin" or "prog" in v}, sort_keys=True, default=str),
                 (n is None or n >= 2), sample={"kind": case["kind"], "n": n, "em": case.get("em", "default")} if i < 3 else None)
        if probs:
            ctx.count("cases_with_problems")
            report(ctx, case, probs)
    dist_checks(ctx, rng, ctx.n(40, 400))
    history_stream(ctx)
    cross_process(ctx)


def replay(ctx: Ctx, path: str) -> None:
    data = json.load(open(path))["replay"]
    if "dist" in data:
        raise MachineryFault("distribution replays are re-run by the normal check")
    if "process" in data:
        here, other = data["pythonhashseeds"]
        process_jobs(ctx, data["process"], [other], here)
        return
    case = data["case"]
    if str(case.get("kind", "")).startswith("history"):
        probs = run_history(ctx, case, count=True)
        ctx.case("replay", True, sample={"kind": case.get("kind")})
        for line in history_script(case):
            print("replay:  ", line)
        for p in probs:
            print("replay:", p)
        oracle_p = [p for p in probs if p.startswith("oracle")]
        if oracle_p:
            ctx.violation(oracle_p[0], data, sig={"kind": kind_of(oracle_p[0])})
        elif probs:
            ctx.disagreement(probs[0], data)
        return
    probs = run_case(ctx, materialise(ctx, case), count=True)
    ctx.case("replay", True, sample={"kind": case.get("kind")})
    for p in probs:
        print("replay:", p)
    oracle_p = [p for p in probs if p.startswith("oracle")]
    if oracle_p:
        ctx.violation(oracle_p[0], data, sig={"kind": kind_of(oracle_p[0])})
    elif probs:
        ctx.disagreement(probs[0], data)
