"""
C05 — Simulator, Sampler, Analyzer and QuickSampler tell one consistent story.

Model: LW.Model.Analysis (psValidate, analyze, quickDist) on top of Dist/Fock.  For one generated
configuration (circuit with 0..k heralds of any photon number, loss, post-selection rules, a set of
equal-photon-number inputs) all four objects are built on the implementation and the relations the
property states are evaluated impl-vs-impl (oracle); the Analyzer and QuickSampler outputs are
also compared with the exact model (correspondence).
"""

from __future__ import annotations

import json
from fractions import Fraction

import numpy as np

import circgen as cg
import fockgen as fg
import lightworks as lw
from core import Ctx, ddmin, exc_class
from lightworks import emulator
from props.c04 import get_eps

TRUSTED = [
    "Lean 4.33 kernel; axioms subset of {propext, Classical.choice, Quot.sound} (audited on every run)",
    "hand-written model LW.Model.Analysis / Dist / Fock tied to the code by this correspondence check",
    "thewalrus.perm; float rounding (1e-9); numpy mean/sum",
]
ASSUMPTIONS = ["<= 4 user modes per level, total modes <= 9, <= 4 photons incl. heralds, <= 3 post-selection rules"]


def gen_rules(rng, modes: int, nph: int) -> list:
    rules = []
    used: set = set()
    for _ in range(rng.choice([0, 0, 1, 1, 2, 3])):
        free = [m for m in range(modes) if m not in used]
        if not free:
            break
        k = rng.randint(1, min(2, len(free)))
        ms = rng.sample(free, k)
        used.update(ms)
        cnt = sorted(set(rng.sample(range(nph + 2), rng.randint(1, 2))))
        rules.append([ms, cnt])
    return rules


def gen_case(ctx: Ctx, rng):
    prog = fg.gen_circuit(ctx, rng, max_depth=2, max_n=4)
    pool = fg.build_impl(prog)
    c = pool.get("c1")
    if c is None or c.input_modes == 0:
        return None
    if np.array(c.U_full).shape[0] > 8:
        return None
    hp = fg.herald_photons(c)
    cap = 4
    if hp > cap - 1:
        return None
    nph = max(0, min(rng.choice([0, 1, 1, 2, 2, 3]), cap - hp))
    im = c.input_modes
    ins = []
    for _ in range(rng.choice([1, 1, 2, 3])):
        s = fg.rand_state(rng, im, nph)
        if s not in ins:
            ins.append(s)
    rules = gen_rules(rng, im, nph)
    return {"prog": prog, "inputs": ins, "rules": rules, "pnr": rng.random() < 0.5, "with_expected": rng.random() < 0.6}


def make_ps(rules):
    if not rules:
        return None
    ps = lw.PostSelection()
    for ms, cnt in rules:
        ps.add(tuple(ms), tuple(cnt))
    return ps


def rule_ok(rules, s) -> bool:
    return all(sum(s[m] for m in ms) in cnt for ms, cnt in rules)


def run_case(ctx: Ctx, case: dict) -> list[str]:
    probs: list[str] = []
    pool = fg.build_impl(case["prog"])
    c = pool.get("c1")
    if c is None or c.input_modes == 0 or any(len(s) != c.input_modes for s in case["inputs"]):
        return probs
    if any(m >= c.input_modes for ms, _ in case["rules"] for m in ms):
        return probs
    eps = get_eps()
    rules = case["rules"]
    ins = case["inputs"]
    hin, hout = c.heralds["input"], c.heralds["output"]
    n = c.n_modes
    nl = np.array(c.U_full).shape[0] - n
    herald_modes = sorted(hout)
    # --- sampler distributions (reference for everything else)
    sdist = []
    for s in ins:
        try:
            d = emulator.Sampler(c, lw.State(s)).probability_distribution
        except Exception as e:  # noqa: BLE001
            return [f"oracle: Sampler raised {exc_class(e)} on a circuit/input that is well-formed"]
        sdist.append({tuple(k.s): float(v) for k, v in d.items()})
    # --- analyzer
    an = emulator.Analyzer(c)
    ps = make_ps(rules)
    if ps is not None:
        an.post_selection = ps
    expected = None
    try:
        res0 = None
        if case["with_expected"]:
            # expected = the most likely accepted output of each input according to the sampler
            expected = {}
            for s, d in zip(ins, sdist):
                best, bp = None, -1.0
                for k, p in d.items():
                    if all(k[m] == v for m, v in hout.items()):
                        u = [x for i, x in enumerate(k) if i not in hout]
                        if rule_ok(rules, u) and p > bp:
                            best, bp = u, p
                expected[lw.State(s)] = lw.State(best if best is not None else s)
        res = an.analyze([lw.State(s) for s in ins], expected)
        arr = np.array(res.array, dtype=float)
        aouts = [o.s for o in res.outputs]
        impl_an = {"outputs": aouts, "probs": arr, "performance": float(res.performance),
                   "error_rate": float(res.error_rate) if expected is not None else None}
    except Exception as e:  # noqa: BLE001
        impl_an = {"error": exc_class(e), "msg": str(e)[:100]}
    if "error" in impl_an:
        accepted_exists = any(rule_ok(rules, list(t)) for k in range(sum(ins[0]) + 1)
                              for t in fg.fock_all(c.input_modes, k) if (nl or k == sum(ins[0])))
        if accepted_exists:
            probs.append(f"oracle: Analyzer.analyze raised {impl_an['error']} ({impl_an['msg']}) on a circuit the "
                         f"Sampler accepts (heralds in={hin} out={hout})")
            return probs
    else:
        for i, s in enumerate(ins):
            row = impl_an["probs"][i]
            for j, o in enumerate(impl_an["outputs"]):
                full = tuple(fg.add_heralds(o, hout))
                want = sdist[i].get(full, 0.0)
                if abs(row[j] - want) > 1e-9 + 2 * float(eps) * max(1, 8 ** nl):
                    probs.append(f"oracle: analyzer P({s}->{o}) = {row[j]:.9g} but the sampler gives {want:.9g} for {list(full)}")
                    return probs
                if not rule_ok(rules, o):
                    probs.append(f"oracle: analyzer lists output {o} that fails the post-selection")
                    return probs
        perf = float(np.mean(impl_an["probs"].sum(axis=1)))
        if abs(perf - impl_an["performance"]) > 1e-9:
            probs.append(f"oracle: performance {impl_an['performance']} is not the mean accepted total {perf}")
        if expected is not None:
            errs = []
            for i, s in enumerate(ins):
                row = impl_an["probs"][i]
                e = expected[lw.State(s)].s
                acc = row[impl_an["outputs"].index(e)] if e in impl_an["outputs"] else 0.0
                errs.append(1 - acc / row.sum() if row.sum() > 1e-6 else float("nan"))
            want = float(np.mean(errs))
            if not np.isnan(want) and abs(want - impl_an["error_rate"]) > 1e-9:
                probs.append(f"oracle: error_rate {impl_an['error_rate']} != 1 - accepted-and-expected fraction {want}")
    # --- quick sampler vs conditioned sampler distribution
    s0 = ins[0]
    try:
        q = emulator.QuickSampler(c, lw.State(s0), photon_counting=case["pnr"], post_select=ps)
        qd = {tuple(k.s): float(v) for k, v in q.probability_distribution.items()}
        qerr = None
    except Exception as e:  # noqa: BLE001
        qd, qerr = None, exc_class(e)
    cond = {}
    tot_in = sum(s0) + sum(hin.values())
    for k, p in sdist[0].items():
        if sum(k) != tot_in:  # a photon was lost
            continue
        if any(k[m] != v for m, v in hout.items()):
            continue
        u = tuple(x for i, x in enumerate(k) if i not in hout)
        if not rule_ok(rules, list(u)):
            continue
        if not case["pnr"] and any(x > 1 for x in u):
            continue
        cond[u] = cond.get(u, 0.0) + p
    ctot = sum(cond.values())
    if qd is None:
        if ctot > 1e-6:
            probs.append(f"oracle: QuickSampler raised {qerr} although accepted outputs carry probability {ctot:.6g}")
    elif ctot > 1e-7:
        for u in set(cond) | set(qd):
            want = cond.get(u, 0.0) / ctot
            if abs(qd.get(u, 0.0) - want) > 1e-6:
                probs.append(f"oracle: quick sampler P{list(u)} = {qd.get(u, 0):.9g} but the conditioned, renormalised "
                             f"sampler distribution gives {want:.9g}")
                break
    # --- simulator vs sampler (lossless)
    if nl == 0 and not probs:
        try:
            sim = emulator.Simulator(c).simulate([lw.State(s) for s in ins])
            for i, s in enumerate(ins):
                for j, o in enumerate(sim.outputs):
                    full = tuple(fg.add_heralds(o.s, hout))
                    if abs(abs(sim.array[i, j]) ** 2 - sdist[i].get(full, 0.0)) > 1e-9 + 2 * float(eps):
                        probs.append(f"oracle: |simulator amplitude|^2 for {s}->{o.s} differs from the sampler probability")
                        break
        except Exception as e:  # noqa: BLE001
            probs.append(f"oracle: Simulator raised {exc_class(e)} on inputs the Sampler accepts")
    if probs:
        return probs
    # --- correspondence with the model
    m = ctx.model.call({"op": "fock", "what": "ana", "prog": case["prog"], "id": "c1", "rules": rules, "inputs": ins,
                        "expected": None if expected is None else [[expected[lw.State(s)].s] for s in ins]})
    if ("error" in impl_an) != ("error_class" in m):
        probs.append(f"corr: analyze impl={impl_an.get('error', 'ok')} model={m.get('error_class', 'ok')}")
    elif "error" not in impl_an:
        if impl_an["outputs"] != m["outputs"]:
            probs.append("corr: analyzer output list differs from the model")
        else:
            mp = np.array([[float(Fraction(x)) for x in r] for r in m["probs"]]).reshape(impl_an["probs"].shape)
            if np.max(np.abs(mp - impl_an["probs"]), initial=0) > 1e-9:
                probs.append("corr: analyzer probabilities differ from the model")
            if abs(float(Fraction(m["performance"])) - impl_an["performance"]) > 1e-9:
                probs.append("corr: performance differs from the model")
            if expected is not None and (np.isnan(impl_an["error_rate"]) or impl_an["probs"].sum(axis=1).min() < 1e-6):
                # an input with zero accepted probability: the code divides 0/0 (NaN); the model's
                # rational division is total, so the error rate is only compared when defined
                ctx.count("error_rate_undefined(0/0)")
            elif expected is not None and m["error_rate"] is not None and \
                    abs(float(Fraction(m["error_rate"])) - impl_an["error_rate"]) > 1e-9:
                probs.append("corr: error_rate differs from the model")
    mq = ctx.model.call({"op": "fock", "what": "quick", "prog": case["prog"], "id": "c1", "rules": rules,
                         "input": s0, "pnr": case["pnr"], "eps": f"{eps.numerator}/{eps.denominator}"})
    if (qd is None) != ("error_class" in mq):
        probs.append(f"corr: QuickSampler impl={'ok' if qd is not None else qerr} model={mq.get('error_class', 'ok')}")
    elif qd is not None:
        md = {tuple(s): float(Fraction(p)) for s, p in mq["pdist"]}
        for u in set(md) | set(qd):
            if abs(md.get(u, 0) - qd.get(u, 0)) > 1e-8:
                probs.append(f"corr: quick sampler P{list(u)} impl={qd.get(u, 0):.9g} model={md.get(u, 0):.9g}")
                break
    return probs


def run(ctx: Ctx) -> None:
    ctx.rule = ("one configuration (tree-generated circuit with heralds of 0-2 photons and loss, 0-3 post-selection "
                "rules, 1-3 equal-photon inputs, both detector modes), all four objects built; non-trivial = heralds "
                "or loss or a rule present and >= 1 photon; distinct = distinct configuration")
    N = ctx.n(140, 3000)
    rng = ctx.rng
    done = 0
    while done < N and not ctx.out_of_time():
        case = gen_case(ctx, rng)
        if case is None:
            ctx.count("skipped")
            continue
        done += 1
        probs = run_case(ctx, case)
        prog = case["prog"]
        lossy = any(fg.is_lossy(op) for op in prog)
        her = [op for op in prog if op[0] == "herald"]
        ctx.count("lossy" if lossy else "lossless")
        ctx.count("herald_photons>0" if any(h[2] > 0 for h in her) else "no_herald_photons")
        ctx.count(f"rules:{len(case['rules'])}")
        ctx.count("pnr" if case["pnr"] else "threshold")
        ctx.case(json.dumps(case), sum(case["inputs"][0]) >= 1 and (lossy or bool(her) or bool(case["rules"])),
                 sample=case if done <= 2 else None)
        if probs:
            ctx.count("cases_with_problems")

            def still(sub):
                return cg.well_formed(sub) and bool(run_case(ctx, {**case, "prog": sub}))

            small = ddmin(prog, still, max_tests=120)
            scase = {**case, "prog": small}
            sprobs = run_case(ctx, scase) or probs
            oracle = [p for p in sprobs if p.startswith("oracle")]
            if oracle:
                ctx.violation(oracle[0], {"case": scase, "problems": sprobs}, sig={"kind": oracle[0][8:48]})
            else:
                ctx.disagreement(sprobs[0], {"case": scase, "problems": sprobs})


def replay(ctx: Ctx, path: str) -> None:
    data = json.load(open(path))["replay"]
    probs = run_case(ctx, data["case"])
    ctx.case("replay", True, sample=data["case"])
    for p in probs:
        print("replay:", p)
        (ctx.violation(p, data, sig={"kind": "replay"}) if p.startswith("oracle") else ctx.disagreement(p, data))
