"""
C05 — Simulator, Sampler, Analyzer and QuickSampler tell one consistent story.

Model: LW.Model.Analysis (psValidate, analyze, quickDist) on top of Dist/Fock.  For one generated
configuration (circuit with 0..k heralds of any photon number, loss, post-selection rules, a set of
equal-photon-number inputs) all four objects are built on the implementation and the relations the
property states are evaluated impl-vs-impl (oracle); the Analyzer and QuickSampler outputs are
also compared with the exact model (correspondence).

Streams (in this order):
  1. expected-mapping corpus — fixed circuits x every shape of `expected` the Analyzer accepts (single
     State, list, tuple, empty list, duplicates, entries that are not accepted outputs — rejected by the
     post-selection, wrong photon number, given with the heralded modes, wrong length — placed first /
     middle / last, a different list per input, inputs without an entry, extra keys); error rate and
     performance are computed independently from the Sampler distribution.
  2. history corpus — the four objects live through one scripted history on one circuit family
     (variants with the same U_full but other herald photons / herald output mode / herald input mode,
     other n_modes, other size, lossy, a live Parameter, in-place growth of the circuit); for every class,
     every reconfiguration and every ordered pair (A, B) of its public reads: read B, reconfigure,
     read A, read B.
  3. generated configurations (as before, now with generated `expected` shapes), model correspondence.
  4. generated histories on generated circuit families (oracle-only: the model has no object state).
Every read of a history is compared with (a) a fresh object of the same class built for the current
configuration and (b) the story a fresh Sampler tells for it (conditioned distribution, accepted
totals, squared amplitudes); sampling reads: support exactly, frequencies statistically.
"""

from __future__ import annotations

import json
import math
import os
import random as pyrandom
from fractions import Fraction

import numpy as np

import circgen as cg
import fockgen as fg
import lightworks as lw
from core import GQ, Ctx, ddmin, exc_class
from lightworks import emulator
from props.c04 import get_eps

TRUSTED = [
    "Lean 4.33 kernel; axioms subset of {propext, Classical.choice, Quot.sound} (audited on every run)",
    "hand-written model LW.Model.Analysis / Dist / Fock tied to the code by this correspondence check",
    "thewalrus.perm; float rounding (1e-9); numpy mean/sum",
    "histories: stdlib / numpy PRNG; frequency tests at 5.5 sigma (deterministic per seed)",
]
ASSUMPTIONS = ["<= 4 user modes per level, total modes <= 9, <= 4 photons incl. heralds, <= 3 post-selection rules",
               "histories: 4-70 steps, <= 2 user photons, object state is not modelled (oracle-only)"]

K_SAMPLE = 300  # draws of sample() per sampling read
N_SAMPLE = 2000  # N of sample_N_outputs / sample_N_inputs per sampling read


def rules_overlap(rules) -> bool:
    seen: set = set()
    for ms, _cnt in rules:
        if seen & set(ms):
            return True
        seen |= set(ms)
    return False


def new_ps(rules):
    """an empty PostSelection able to hold `rules` (rules sharing a mode need multi_rules=True)"""
    return lw.PostSelection(multi_rules=True) if rules_overlap(rules) else lw.PostSelection()


def gen_rules(rng, modes: int, nph: int) -> list:
    rules = []
    used: set = set()
    # a quarter of the rule sets may put several rules on one mode (PostSelection(multi_rules=True))
    share = rng.random() < 0.25
    for _ in range(rng.choice([0, 0, 1, 1, 2, 3])):
        free = [m for m in range(modes) if share or m not in used]
        if not free:
            break
        k = rng.randint(1, min(2, len(free)))
        ms = rng.sample(free, k)
        used.update(ms)
        cnt = sorted(set(rng.sample(range(nph + 2), rng.randint(1, 2))))
        rules.append([ms, cnt])
    return rules


def gen_live_rules(rng, modes: int, nph: int) -> list:
    """rules that leave at least two outputs of the given photon number (histories: few dead configurations)"""
    for _ in range(5):
        rules = gen_rules(rng, modes, nph)
        if sum(rule_ok(rules, t) for t in fg.fock_all(modes, nph)) >= min(2, modes):
            return rules
    return []


def make_ps(rules, form: str = "rules"):
    """post-selection value in one of the accepted forms: None, a PostSelection, a predicate"""
    if form == "fn":
        rr = [[list(ms), list(cnt)] for ms, cnt in rules]
        return lambda s, rr=rr: all(sum(s[m] for m in ms) in cnt for ms, cnt in rr)
    if not rules:
        return None
    ps = new_ps(rules)
    for ms, cnt in rules:
        ps.add(tuple(ms), tuple(cnt))
    return ps


def rule_ok(rules, s) -> bool:
    return all(sum(s[m] for m in ms) in cnt for ms, cnt in rules)


# --------------------------------------------------------------------------- the Sampler's story


def sampler_dist(c, s) -> dict:
    d = emulator.Sampler(c, lw.State(s)).probability_distribution
    return {tuple(k.s): float(v) for k, v in d.items()}


def accepted(sd: dict, hout: dict, rules) -> dict:
    """heralded outputs that satisfy the heralds and the post-selection (any photon number), with the
    Sampler's probability"""
    acc: dict = {}
    for k, p in sd.items():
        if any(k[m] != v for m, v in hout.items()):
            continue
        u = tuple(x for i, x in enumerate(k) if i not in hout)
        if rule_ok(rules, u):
            acc[u] = acc.get(u, 0.0) + p
    return acc


def conditioned(sd: dict, hin: dict, hout: dict, rules, s0, pnr: bool) -> dict:
    """Sampler distribution conditioned on heralds, post-selection, no lost photon (and <= 1 photon per
    mode for threshold detection); not normalised"""
    cond: dict = {}
    tot_in = sum(s0) + sum(hin.values())
    for k, p in sd.items():
        if sum(k) != tot_in:  # a photon was lost
            continue
        if any(k[m] != v for m, v in hout.items()):
            continue
        u = tuple(x for i, x in enumerate(k) if i not in hout)
        if not rule_ok(rules, list(u)):
            continue
        if not pnr and any(x > 1 for x in u):
            continue
        cond[u] = cond.get(u, 0.0) + p
    return cond


# --------------------------------------------------------------------------- `expected` mappings

SHAPES = ["single", "single_non", "list1", "acc_list", "non_first", "non_middle", "non_last", "non_many_first",
          "all_non", "dup", "dup_non_first", "empty", "tuple_non_first", "missing"]


def expected_pools(c, s, rules, sd, lossless: bool):
    """(accepted outputs by decreasing Sampler probability, kinds of states that are NOT accepted outputs)"""
    hout = c.heralds["output"]
    im, n = c.input_modes, sum(s)
    acc = accepted(sd, hout, rules)
    good = [list(u) for u, p in sorted(acc.items(), key=lambda kv: (-kv[1], kv[0])) if p > 1e-6]
    non: dict = {}
    rej = [t for k in ([n] if lossless else range(n + 1)) for t in fg.fock_all(im, k) if not rule_ok(rules, t)]
    if rej:
        non["rejected_by_post_selection"] = rej[:6]
    non["more_photons"] = list(fg.fock_all(im, n + 1))[:4]
    if n >= 1 and lossless:
        non["fewer_photons"] = list(fg.fock_all(im, n - 1))[:4]
    if hout and good:
        non["with_herald_modes"] = [fg.add_heralds(good[0], hout)]
    non["wrong_length"] = [[*(good[0] if good else list(s)), 0]]
    return good, non


def make_entry(ctx: Ctx, rng, shape: str, good: list, non: dict) -> dict:
    def x():
        kind = rng.choice(sorted(non))
        ctx.count(f"expected:non_accepted:{kind}")
        return list(rng.choice(non[kind]))

    if not good:
        good = [x()]
    g = list(rng.choice(good[:3]))
    others = [t for t in good[:6] if t != g]
    g2 = list(rng.choice(others)) if others else g
    form = "list"
    if shape == "single":
        form, sts = "state", [g]
    elif shape == "single_non":
        form, sts = "state", [x()]
    elif shape == "list1":
        sts = [g]
    elif shape == "acc_list":
        sts = [list(t) for t in rng.sample(good[:6], min(len(good[:6]), rng.randint(2, 3)))]
    elif shape == "non_first":
        sts = [x(), g] + ([g2] if rng.random() < 0.5 else [])
    elif shape == "non_middle":
        sts = [g, x(), g2]
    elif shape == "non_last":
        sts = [g] + ([g2] if rng.random() < 0.5 else []) + [x()]
    elif shape == "non_many_first":
        sts = [x(), x(), g]
    elif shape == "all_non":
        sts = [x(), x()]
    elif shape == "dup":
        sts = [g, g] if rng.random() < 0.5 else [g, g2, g]
    elif shape == "dup_non_first":
        y = x()
        sts = [y, g, y, g2]
    elif shape == "empty":
        sts = []
    elif shape == "tuple_non_first":
        form, sts = "tuple", [x(), g]
    elif shape == "missing":
        form, sts = "missing", []
    else:
        raise AssertionError(shape)
    return {"form": form, "shape": shape, "states": sts}


def gen_expected_spec(ctx: Ctx, rng, c, ins, rules, sdist, lossless: bool, shapes=None) -> dict:
    per = []
    for i, (s, sd) in enumerate(zip(ins, sdist)):
        good, non = expected_pools(c, s, rules, sd, lossless)
        if shapes is not None:
            shape = shapes[i % len(shapes)]
        else:
            shape = rng.choice(SHAPES[:-1]) if rng.random() < 0.94 else "missing"
        per.append(make_entry(ctx, rng, shape, good, non))
    extra = []
    if rng.random() < 0.2:  # keys that are not inputs of this call are allowed and ignored
        t = fg.rand_state(rng, c.input_modes, sum(ins[0]) + rng.choice([0, 1]))
        if t not in ins:
            extra.append(t)
    return {"per_input": per, "extra": extra}


def build_expected(spec: dict, ins) -> dict:
    d: dict = {}
    for s, e in zip(ins, spec["per_input"]):
        if e["form"] == "missing":
            continue
        sts = [lw.State(t) for t in e["states"]]
        d[lw.State(s)] = sts[0] if e["form"] == "state" else (tuple(sts) if e["form"] == "tuple" else sts)
    for t in spec.get("extra", []):
        d.setdefault(lw.State(t), lw.State(t))
    return d


def resolved_lists(spec: dict, ins) -> list:
    """per input the list of expected states the dictionary holds for it (equal inputs share one entry,
    the last assigned), None when the dictionary has no entry for the input"""
    d: dict = {}
    for s, e in zip(ins, spec["per_input"]):
        if e["form"] != "missing":
            d[tuple(s)] = [list(t) for t in e["states"]]
    for t in spec.get("extra", []):
        d.setdefault(tuple(t), [list(t)])
    return [d.get(tuple(s)) for s in ins]


def best_spec(c, ins, rules, sdist) -> dict:
    """expected = the most likely accepted output of each input according to the sampler"""
    hout = c.heralds["output"]
    per = []
    for s, d in zip(ins, sdist):
        acc = accepted(d, hout, rules)
        best, bp = None, -1.0
        for u, p in acc.items():
            if p > bp:
                best, bp = list(u), p
        per.append({"form": "state", "shape": "single", "states": [best if best is not None else list(s)]})
    return {"per_input": per, "extra": []}


# --------------------------------------------------------------------------- one analysis against the story


def run_analyze(an, ins, expected, single_state: bool = False) -> dict:
    try:
        arg = lw.State(ins[0]) if single_state and len(ins) == 1 else [lw.State(s) for s in ins]
        res = an.analyze(arg, expected)
        er = None
        if expected is not None:
            er = float(res.error_rate)
        return {"outputs": [list(o.s) for o in res.outputs], "probs": np.array(res.array, dtype=float),
                "performance": float(res.performance), "error_rate": er,
                "has_error_rate": hasattr(res, "error_rate")}
    except Exception as e:  # noqa: BLE001
        return {"error": exc_class(e), "msg": str(e)[:100]}


def analyzer_problems(ctx: Ctx, c, ins, rules, sdist, impl_an: dict, exp_lists, eps) -> list[str]:
    """the property's Analyzer clauses evaluated against the Sampler's distributions `sdist`"""
    probs: list[str] = []
    hin, hout = c.heralds["input"], c.heralds["output"]
    nl = np.array(c.U_full).shape[0] - c.n_modes
    missing = exp_lists is not None and any(e is None for e in exp_lists)
    if missing:
        ctx.count("expected:missing_input:oracle-only")
        if "error" not in impl_an:
            s = ins[[e is None for e in exp_lists].index(True)]
            return [f"oracle: analyze reported error_rate {impl_an['error_rate']} although the expected mapping has no "
                    f"entry for input {s}"]
        if impl_an["error"] == "KeyError":
            return []
    if "error" in impl_an:
        accepted_exists = any(rule_ok(rules, list(t)) for k in range(sum(ins[0]) + 1)
                              for t in fg.fock_all(c.input_modes, k) if (nl or k == sum(ins[0])))
        if accepted_exists:
            probs.append(f"oracle: Analyzer.analyze raised {impl_an['error']} ({impl_an['msg']}) on a circuit the "
                         f"Sampler accepts (heralds in={hin} out={hout})")
        return probs
    tol_p = 1e-9 + 2 * float(eps) * max(1, 8 ** nl)
    outs = impl_an["outputs"]
    if impl_an["probs"].shape != (len(ins), len(outs)):
        return [f"oracle: analyzer array has shape {impl_an['probs'].shape} for {len(ins)} inputs and {len(outs)} outputs"]
    for i, s in enumerate(ins):
        row = impl_an["probs"][i]
        for j, o in enumerate(outs):
            full = tuple(fg.add_heralds(o, hout))
            want = sdist[i].get(full, 0.0)
            if abs(row[j] - want) > tol_p:
                return [f"oracle: analyzer P({s}->{o}) = {row[j]:.9g} but the sampler gives {want:.9g} for {list(full)}"]
            if not rule_ok(rules, o):
                return [f"oracle: analyzer lists output {o} that fails the post-selection"]
    # every accepted output the Sampler knows must be listed
    acc = [accepted(sd, hout, rules) for sd in sdist]
    listed = {tuple(o) for o in outs}
    for i, a in enumerate(acc):
        for u, p in a.items():
            if u not in listed and p > 1e-7:
                return [f"oracle: accepted output {list(u)} (sampler probability {p:.6g} for input {ins[i]}) is missing "
                        f"from the analyzer's outputs"]
    perf = float(np.mean(impl_an["probs"].sum(axis=1)))
    if abs(perf - impl_an["performance"]) > 1e-9:
        probs.append(f"oracle: performance {impl_an['performance']} is not the mean accepted total {perf}")
    tots = [sum(a.values()) for a in acc]
    if abs(float(np.mean(tots)) - impl_an["performance"]) > tol_p * (len(outs) + 1):
        probs.append(f"oracle: performance {impl_an['performance']} is not the mean accepted total "
                     f"{float(np.mean(tots))} of the Sampler distributions")
    if exp_lists is None:
        if impl_an.get("has_error_rate"):
            probs.append("oracle: analyze without `expected` reports an error rate")
        return probs
    if impl_an["error_rate"] is None or missing:
        return probs
    # error rate: (1) from the analyzer's own rows, (2) independently from the Sampler distributions
    errs, errs_s, tol_s = [], [], 1e-9
    for i in range(len(ins)):
        row = impl_an["probs"][i]
        lst = exp_lists[i]
        if len({tuple(t) for t in lst}) < len(lst):  # the expected outputs are a SET (F31)
            ctx.count("expected:duplicates(counted once)")
            lst = [list(t) for t in dict.fromkeys(tuple(t) for t in lst)]
        if row.sum() <= 1e-6 or tots[i] <= 1e-6:
            errs.append(float("nan"))
            continue
        errs.append(1 - sum(row[outs.index(e)] for e in lst if e in outs) / row.sum())
        errs_s.append(1 - sum(acc[i].get(tuple(e), 0.0) for e in lst) / tots[i])
        tol_s += (len(lst) + 1) * tol_p * (len(outs) + 1) / tots[i]
    if any(np.isnan(e) for e in errs):
        ctx.count("error_rate_undefined(0/0):oracle")
        return probs
    want, want_s = float(np.mean(errs)), float(np.mean(errs_s))
    if abs(want - impl_an["error_rate"]) > 1e-9:
        probs.append(f"oracle: error_rate {impl_an['error_rate']} != 1 - accepted-and-expected fraction {want} "
                     f"(expected lists {exp_lists})")
    elif abs(want_s - impl_an["error_rate"]) > tol_s / len(ins):
        probs.append(f"oracle: error_rate {impl_an['error_rate']} != 1 - accepted-and-expected fraction {want_s} computed "
                     f"from the Sampler distributions (expected lists {exp_lists})")
    return probs


def quick_problems(qd, qerr, cond: dict) -> list[str]:
    ctot = sum(cond.values())
    if qd is None:
        if ctot > 1e-6:
            return [f"oracle: QuickSampler raised {qerr} although accepted outputs carry probability {ctot:.6g}"]
    elif ctot > 1e-7:
        for u in sorted(set(cond) | set(qd)):
            want = cond.get(u, 0.0) / ctot
            if abs(qd.get(u, 0.0) - want) > 1e-6:
                return [f"oracle: quick sampler P{list(u)} = {qd.get(u, 0):.9g} but the conditioned, renormalised "
                        f"sampler distribution gives {want:.9g}"]
    return []


# --------------------------------------------------------------------------- generated configurations


def gen_case(ctx: Ctx, rng):
    prog = fg.gen_circuit(ctx, rng, max_depth=2, max_n=4)
    pool = fg.build_impl(prog)
    c = pool.get("c1")
    if c is None or c.input_modes == 0:
        return None
    if np.array(c.U_full).shape[0] > 8:
        return None
    hp = fg.herald_photons(c)
    cap = 4
    if hp > cap - 1:
        return None
    nph = max(0, min(rng.choice([0, 1, 1, 2, 2, 3]), cap - hp))
    im = c.input_modes
    ins = []
    for _ in range(rng.choice([1, 1, 2, 3])):
        s = fg.rand_state(rng, im, nph)
        if s not in ins or rng.random() < 0.15:  # the same input may be listed twice
            ins.append(s)
    rules = gen_rules(rng, im, nph)
    case = {"prog": prog, "inputs": ins, "rules": rules, "pnr": rng.random() < 0.5, "with_expected": rng.random() < 0.7,
            "ps_form": "fn" if rng.random() < 0.2 else "rules"}  # the rule set as a PostSelection or as a predicate
    if case["with_expected"]:
        try:
            sdist = [sampler_dist(c, s) for s in ins]
        except Exception:  # noqa: BLE001
            return case  # run_case reports it
        lossless = np.array(c.U_full).shape[0] == c.n_modes
        case["expected_spec"] = gen_expected_spec(ctx, rng, c, ins, rules, sdist, lossless)
    return case


def run_case(ctx: Ctx, case: dict) -> list[str]:
    probs: list[str] = []
    pool = fg.build_impl(case["prog"])
    c = pool.get("c1")
    if c is None or c.input_modes == 0 or any(len(s) != c.input_modes for s in case["inputs"]):
        return probs
    if any(m >= c.input_modes for ms, _ in case["rules"] for m in ms):
        return probs
    eps = get_eps()
    rules = case["rules"]
    ins = case["inputs"]
    hin, hout = c.heralds["input"], c.heralds["output"]
    n = c.n_modes
    nl = np.array(c.U_full).shape[0] - n
    # --- sampler distributions (reference for everything else)
    sdist = []
    for s in ins:
        try:
            sdist.append(sampler_dist(c, s))
        except Exception as e:  # noqa: BLE001
            return [f"oracle: Sampler raised {exc_class(e)} on a circuit/input that is well-formed"]
    # --- analyzer
    an = emulator.Analyzer(c)
    ps = make_ps(rules, case.get("ps_form", "rules"))
    if ps is not None:
        an.post_selection = ps
    spec = exp_lists = expected = None
    if case["with_expected"]:
        spec = case.get("expected_spec") or best_spec(c, ins, rules, sdist)
        if len(spec["per_input"]) != len(ins):
            return probs
        expected = build_expected(spec, ins)
        exp_lists = resolved_lists(spec, ins)
        for e in spec["per_input"]:
            ctx.count(f"expected:shape:{e.get('shape', e['form'])}")
    impl_an = run_analyze(an, ins, expected)
    probs += analyzer_problems(ctx, c, ins, rules, sdist, impl_an, exp_lists, eps)
    if probs and "error" in impl_an:
        return probs
    missing = exp_lists is not None and any(e is None for e in exp_lists)
    only_an = case.get("only") == "analyzer"
    # --- quick sampler vs conditioned sampler distribution
    s0 = ins[0]
    qd = qerr = None
    if not only_an:
        try:
            q = emulator.QuickSampler(c, lw.State(s0), photon_counting=case["pnr"], post_select=ps)
            qd = {tuple(k.s): float(v) for k, v in q.probability_distribution.items()}
        except Exception as e:  # noqa: BLE001
            qd, qerr = None, exc_class(e)
        probs += quick_problems(qd, qerr, conditioned(sdist[0], hin, hout, rules, s0, case["pnr"]))
    # --- simulator vs sampler (lossless)
    if nl == 0 and not probs and not only_an:
        try:
            sim = emulator.Simulator(c).simulate([lw.State(s) for s in ins])
            for i, s in enumerate(ins):
                for j, o in enumerate(sim.outputs):
                    full = tuple(fg.add_heralds(o.s, hout))
                    if abs(abs(sim.array[i, j]) ** 2 - sdist[i].get(full, 0.0)) > 1e-9 + 2 * float(eps):
                        probs.append(f"oracle: |simulator amplitude|^2 for {s}->{o.s} differs from the sampler probability")
                        break
        except Exception as e:  # noqa: BLE001
            probs.append(f"oracle: Simulator raised {exc_class(e)} on inputs the Sampler accepts")
    if probs:
        return probs
    # --- correspondence with the model
    if not missing:
        m = ctx.model.call({"op": "fock", "what": "ana", "prog": case["prog"], "id": "c1", "rules": rules, "inputs": ins,
                            "expected": exp_lists})
        if ("error" in impl_an) != ("error_class" in m):
            probs.append(f"corr: analyze impl={impl_an.get('error', 'ok')} model={m.get('error_class', 'ok')}")
        elif "error" not in impl_an:
            if impl_an["outputs"] != m["outputs"]:
                probs.append("corr: analyzer output list differs from the model")
            else:
                mp = np.array([[float(Fraction(x)) for x in r] for r in m["probs"]]).reshape(impl_an["probs"].shape)
                if np.max(np.abs(mp - impl_an["probs"]), initial=0) > 1e-9:
                    probs.append("corr: analyzer probabilities differ from the model")
                if abs(float(Fraction(m["performance"])) - impl_an["performance"]) > 1e-9:
                    probs.append("corr: performance differs from the model")
                if expected is not None and (np.isnan(impl_an["error_rate"]) or impl_an["probs"].sum(axis=1).min() < 1e-6):
                    # an input with zero accepted probability: the code divides 0/0 (NaN); the model's
                    # rational division is total, so the error rate is only compared when defined
                    ctx.count("error_rate_undefined(0/0)")
                elif expected is not None and m["error_rate"] is not None and \
                        abs(float(Fraction(m["error_rate"])) - impl_an["error_rate"]) > 1e-9:
                    probs.append("corr: error_rate differs from the model")
    if only_an:
        return probs
    mq = ctx.model.call({"op": "fock", "what": "quick", "prog": case["prog"], "id": "c1", "rules": rules,
                         "input": s0, "pnr": case["pnr"], "eps": f"{eps.numerator}/{eps.denominator}"})
    if (qd is None) != ("error_class" in mq):
        probs.append(f"corr: QuickSampler impl={'ok' if qd is not None else qerr} model={mq.get('error_class', 'ok')}")
    elif qd is not None:
        md = {tuple(s): float(Fraction(p)) for s, p in mq["pdist"]}
        for u in set(md) | set(qd):
            if abs(md.get(u, 0) - qd.get(u, 0)) > 1e-8:
                probs.append(f"corr: quick sampler P{list(u)} impl={qd.get(u, 0):.9g} model={md.get(u, 0):.9g}")
                break
    return probs


# --------------------------------------------------------------------------- fixed circuits (corpora)

_I = GQ(0, 1)


def _bs(m1, m2, a, b, conv="Rx", loss=None):
    return cg.op_bs("c1", m1, m2, Fraction(a[0], a[1]), Fraction(b[0], b[1]), conv, loss)


def _base4() -> list:
    return [["new", "c1", 4], ["pbs", "c1", 0, 1, "p"], _bs(1, 2, (3, 5), (4, 5)), _bs(2, 3, (4, 5), (3, 5), "H"),
            cg.op_ps("c1", 1, _I), _bs(0, 1, (5, 13), (12, 13)), _bs(1, 3, (3, 5), (4, 5))]


def corpus_family() -> dict:
    """variants that share the 4-mode network: same U_full, other herald photons (B) / herald output
    mode (C) / herald input mode (F); no herald (D); lossy (E); other n_modes with the same input length
    (G); other size (H); two heralds, one with photon (J) and the same with the photon on the other (K)"""
    b = _base4()
    loss = cg.op_loss("c1", 1, Fraction(4, 5), Fraction(3, 5))
    return {
        "circuits": {
            "A": [*b, ["herald", "c1", 1, 3, 3]],
            "B": [*b, ["herald", "c1", 0, 3, 3]],
            "C": [*b, ["herald", "c1", 1, 3, 0]],
            "F": [*b, ["herald", "c1", 1, 0, 3]],
            "D": list(b),
            "E": [*b, loss, ["herald", "c1", 1, 3, 3]],
            "G": [["new", "c1", 3], ["pbs", "c1", 1, 2, "p"], _bs(0, 1, (3, 5), (4, 5)), _bs(1, 2, (5, 13), (12, 13))],
            "H": [["new", "c1", 2], _bs(0, 1, (4, 5), (3, 5))],
            "J": [*b, ["herald", "c1", 1, 3, 3], ["herald", "c1", 0, 0, 0]],
            "K": [*b, ["herald", "c1", 0, 3, 3], ["herald", "c1", 1, 0, 0]],
        },
        "params": {"p": 0.3},
    }


def expected_corpus(ctx: Ctx) -> list:
    """fixed circuits x every expected shape (first input) and a different shape on the second input"""
    rng = pyrandom.Random("C05-expected-corpus")
    b = [op for op in _base4() if op[0] != "pbs"]
    loss = cg.op_loss("c1", 1, Fraction(4, 5), Fraction(3, 5))
    confs = [
        ([*b, ["herald", "c1", 1, 3, 3]], [[1, 1, 0], [0, 1, 1]], [[[0], [0, 1]]]),
        ([*b, ["herald", "c1", 1, 3, 0]], [[1, 0, 0], [0, 0, 1], [0, 1, 0]], [[[2], [0]]]),
        ([*b, loss, ["herald", "c1", 0, 2, 2]], [[1, 1, 0], [2, 0, 0]], [[[0, 1], [1, 2]]]),
        (b, [[1, 0, 1, 0], [0, 1, 1, 0]], []),
    ]
    cases = []
    for prog, ins, rules in confs:
        c = fg.build_impl(prog)["c1"]
        sdist = [sampler_dist(c, s) for s in ins]
        lossless = np.array(c.U_full).shape[0] == c.n_modes
        for k, shape in enumerate(SHAPES):
            for first in (True, False):
                other = SHAPES[(k + 3) % (len(SHAPES) - 1)]
                shapes = [shape, other, "single"] if first else [other, shape, "acc_list"]
                spec = gen_expected_spec(ctx, rng, c, ins, rules, sdist, lossless, shapes=shapes)
                cases.append({"prog": prog, "inputs": ins, "rules": rules, "pnr": True, "with_expected": True,
                              "expected_spec": spec, "only": "analyzer", "ps_form": "fn" if k % 4 == 3 else "rules"})
    return cases


# --------------------------------------------------------------------------- histories

READS = {
    "sim": ["simulate", "simulate_outs"],
    "smp": ["pd", "sample", "sno", "sni"],
    "an": ["analyze", "analyze_exp"],
    "qs": ["pd", "sample", "sno"],
}
CLASS = {"sim": "Simulator", "smp": "Sampler", "an": "Analyzer", "qs": "QuickSampler"}


def build_circ(prog: list, params: dict):
    pool: dict = {}
    for op in prog:
        if op[0] == "pbs":
            try:
                pool[op[1]].bs(op[2], op[3], reflectivity=params[op[4]])
            except Exception:  # noqa: BLE001, S110
                pass
        else:
            cg.apply_op(pool, op)
    return pool.get("c1")


def config_ok(c, cur: dict) -> bool:
    if c is None:
        return False
    im, ins = c.input_modes, cur["inputs"]
    if im < 1 or not ins or any(len(s) != im for s in ins) or len({sum(s) for s in ins}) != 1:
        return False
    if any(m >= im for ms, _ in cur["rules"] for m in ms):
        return False
    if np.array(c.U_full).shape[0] > 8:
        return False
    return sum(ins[0]) + fg.herald_photons(c) <= 4


def freq_problem(counts: dict, total: int, dist: dict, what: str) -> str | None:
    """support exactly, frequencies at 5.5 sigma"""
    for u, k in sorted(counts.items()):
        if dist.get(u, 0.0) <= 1e-9:
            return (f"{what} returned {list(u)} ({k} of {total} draws), an output of probability 0 in the distribution "
                    f"the Sampler gives for the current configuration")
    for u, p in sorted(dist.items()):
        f = counts.get(u, 0) / total
        if abs(f - p) > 5.5 * math.sqrt(max(p * (1 - p), 0.0) / total) + 1.5 / total:
            return (f"{what}: frequency of {list(u)} is {f:.4f} over {total} draws, the distribution the Sampler gives "
                    f"for the current configuration has {p:.4f}")
    return None


def _close_dict(a: dict, b: dict, tol: float) -> bool:
    return all(abs(a.get(k, 0.0) - b.get(k, 0.0)) <= tol for k in set(a) | set(b))


def same_obs(a, b) -> bool:
    """two observations of a deterministic read"""
    if a[0] != b[0]:
        return False
    if a[0] == "err":
        return a[1] == b[1]
    x, y = a[1], b[1]
    if isinstance(x, dict) and "probs" in x:
        return (x["outputs"] == y["outputs"] and x["probs"].shape == y["probs"].shape
                and bool(np.all(np.abs(x["probs"] - y["probs"]) <= 1e-9))
                and abs(x["performance"] - y["performance"]) <= 1e-9
                and (x["error_rate"] is None) == (y["error_rate"] is None)
                and (x["error_rate"] is None or abs(x["error_rate"] - y["error_rate"]) <= 1e-9
                     or (np.isnan(x["error_rate"]) and np.isnan(y["error_rate"]))))
    if isinstance(x, dict) and "amps" in x:
        return x["outputs"] == y["outputs"] and x["amps"].shape == y["amps"].shape and \
            bool(np.all(np.abs(x["amps"] - y["amps"]) <= 1e-9))
    if isinstance(x, dict):
        return _close_dict(x, y, 1e-9)
    return x == y


class History:
    """four long-lived objects driven through one history; every read is judged on the spot"""

    def __init__(self, ctx: Ctx, case: dict) -> None:
        self.ctx = ctx
        fam = case["family"]
        self.progs = {k: list(v) for k, v in fam["circuits"].items()}
        self.pvals = dict(fam.get("params", {}))
        self.live_params = {k: lw.Parameter(v) for k, v in self.pvals.items()}
        self.live = {k: build_circ(p, self.live_params) for k, p in self.progs.items()}
        self.cur = {k: (json.loads(json.dumps(v)) if isinstance(v, list) else v) for k, v in case["init"].items()}
        self.eps = get_eps()
        self.refs: dict = {}
        self.changed = False
        self.useful = 0

    # -- the current configuration, told by fresh objects
    def fresh_circuit(self, name: str):
        return build_circ(self.progs[name], {k: lw.Parameter(v) for k, v in self.pvals.items()})

    def ref(self) -> dict | None:
        cur = self.cur
        key = json.dumps([cur["circuit"], len(self.progs[cur["circuit"]]), sorted(self.pvals.items()), cur["inputs"]])
        if key not in self.refs:
            c = self.fresh_circuit(cur["circuit"])
            try:
                r = {"c": c, "sd": [sampler_dist(c, s) for s in cur["inputs"]],
                     "hin": c.heralds["input"], "hout": c.heralds["output"],
                     "nl": np.array(c.U_full).shape[0] - c.n_modes, "im": c.input_modes}
            except Exception:  # noqa: BLE001
                r = None
            self.refs[key] = r
        return self.refs[key]

    def ps(self):
        return make_ps(self.cur["rules"], self.cur.get("ps_form", "rules"))

    def hand_ps(self, who: str):
        """the post-selection value handed to the long-lived object `who`; the harness keeps ITS OWN reference, so that
        a rule can later be added in place to the very object that was handed over (kind "ps_grow")"""
        v = self.ps()
        if not hasattr(self, "handed"):
            self.handed = {}
        self.handed[who] = v
        return v

    def make_objects(self, c) -> dict:
        cur = self.cur
        s0 = lw.State(cur["inputs"][0])
        an = emulator.Analyzer(c)
        if cur["rules"] or cur.get("ps_form") == "fn":
            an.post_selection = self.hand_ps("an")
        return {"sim": emulator.Simulator(c), "smp": emulator.Sampler(c, s0), "an": an,
                "qs": emulator.QuickSampler(c, s0, photon_counting=cur["pnr"], post_select=self.hand_ps("qs"))}

    def make_one(self, c, obj: str):
        cur = self.cur
        s0 = lw.State(cur["inputs"][0])
        if obj == "sim":
            return emulator.Simulator(c)
        if obj == "smp":
            return emulator.Sampler(c, s0)
        if obj == "an":
            an = emulator.Analyzer(c)
            if cur["rules"] or cur.get("ps_form") == "fn":
                an.post_selection = self.ps()
            return an
        return emulator.QuickSampler(c, s0, photon_counting=cur["pnr"], post_select=self.ps())

    # -- reconfigurations
    def apply(self, st: list) -> bool:
        """apply one reconfiguration to the long-lived objects; False = step not applicable (ignored)"""
        cur, o = self.cur, self.objs
        kind = st[0]
        if kind == "circuit":
            _, name, inputs, rules, order = st
            if name not in self.live:
                return False
            new = dict(cur, circuit=name, inputs=inputs if inputs is not None else cur["inputs"],
                       rules=rules if rules is not None else cur["rules"])
            if not config_ok(self.fresh_circuit(name), new):
                return False
            old_im = self.live[cur["circuit"]].input_modes
            c = self.live[name]
            s0 = new["inputs"][0]
            input_changes = s0 != cur["inputs"][0]
            o["sim"].circuit = c
            o["an"].circuit = c
            for k in ("smp", "qs"):
                if input_changes and order == "input_first" and len(s0) == old_im:
                    o[k].input_state = lw.State(s0)
                    o[k].circuit = c
                else:
                    o[k].circuit = c
                    if input_changes:
                        o[k].input_state = lw.State(s0)
            self.cur = new
            if rules is not None:
                o["an"].post_selection = self.hand_ps("an")
                o["qs"].post_select = self.hand_ps("qs")
        elif kind == "inputs":
            new = dict(cur, inputs=st[1])
            if not config_ok(self.fresh_circuit(cur["circuit"]), new):
                return False
            self.cur = new
            for k in ("smp", "qs"):
                o[k].input_state = lw.State(st[1][0])
        elif kind == "ps":
            new = dict(cur, rules=st[1], ps_form=st[2])
            if not config_ok(self.fresh_circuit(cur["circuit"]), new):
                return False
            self.cur = new
            o["an"].post_selection = self.hand_ps("an")
            o["qs"].post_select = self.hand_ps("qs")
        elif kind == "ps_grow":
            # one more rule added IN PLACE to the PostSelection objects that were handed to the Analyzer and the
            # QuickSampler (through the harness's own references): the rule set they apply is the object's current one
            handed = getattr(self, "handed", {})
            if cur.get("ps_form", "rules") != "rules" or not cur["rules"]:
                return False
            if not all(isinstance(handed.get(k), lw.PostSelection) for k in ("an", "qs")):
                return False
            new = dict(cur, rules=[*cur["rules"], st[1]])
            if rules_overlap(new["rules"]) and not rules_overlap(cur["rules"]):
                return False  # the objects handed over were created without multi_rules
            if not config_ok(self.fresh_circuit(cur["circuit"]), new):
                return False
            for k in ("an", "qs"):
                handed[k].add(tuple(st[1][0]), tuple(st[1][1]))
            self.cur = new
        elif kind == "pnr":
            self.cur = dict(cur, pnr=bool(st[1]))
            o["qs"].photon_counting = bool(st[1])
        elif kind == "param":
            if st[1] not in self.live_params:
                return False
            self.pvals[st[1]] = st[2]
            self.live_params[st[1]].set(st[2])
        elif kind == "mutate":
            op = st[1]
            if op[0] not in ("bs", "ps", "loss", "swaps", "barrier") or op[1] != "c1":
                return False
            trial = [*self.progs[cur["circuit"]], op]
            if not config_ok(build_circ(trial, {k: lw.Parameter(v) for k, v in self.pvals.items()}), cur):
                return False
            self.progs[cur["circuit"]] = trial
            cg.apply_op({"c1": self.live[cur["circuit"]]}, op)
        else:
            raise AssertionError(kind)
        self.ctx.count(f"history:reconf:{kind}")
        return True

    # -- reads
    def read_args(self, obj: str, method: str, seed: int, ref: dict) -> dict:
        cur = self.cur
        r = pyrandom.Random(f"args-{seed}")
        args: dict = {}
        if obj == "sim" and method == "simulate_outs":
            allo = list(fg.fock_all(ref["im"], sum(cur["inputs"][0])))
            args["outs"] = [list(r.choice(allo)) for _ in range(r.randint(1, 3))]
        if obj == "an":
            args["single"] = seed % 3 == 0
            if method == "analyze_exp":
                spec = gen_expected_spec(self.ctx, r, ref["c"], cur["inputs"], cur["rules"], ref["sd"], ref["nl"] == 0)
                for e in spec["per_input"]:  # inputs without an entry belong to the first stream
                    if e["form"] == "missing":
                        e["form"], e["states"] = "list", []
                args["spec"] = spec
        return args

    def do_read(self, o, obj: str, method: str, seed: int, args: dict):
        cur = self.cur
        try:
            if obj == "sim":
                outs = None if method == "simulate" else [lw.State(t) for t in args["outs"]]
                res = o.simulate([lw.State(s) for s in cur["inputs"]], outs)
                return ("ok", {"outputs": [list(x.s) for x in res.outputs], "amps": np.array(res.array, dtype=complex)})
            if obj == "an":
                spec = args.get("spec")
                exp = None if spec is None else build_expected(spec, cur["inputs"])
                r = run_analyze(o, cur["inputs"], exp, single_state=args["single"])
                return ("err", r["error"]) if "error" in r else ("ok", r)
            if method == "pd":
                return ("ok", {tuple(k.s): float(v) for k, v in o.probability_distribution.items()})
            if method == "sample":
                pyrandom.seed(seed)
                cnt: dict = {}
                for _ in range(K_SAMPLE):
                    u = tuple(o.sample().s)
                    cnt[u] = cnt.get(u, 0) + 1
                return ("ok", cnt)
            if obj == "qs":
                res = o.sample_N_outputs(N_SAMPLE, seed=seed)
            elif method == "sno":
                res = o.sample_N_outputs(N_SAMPLE, post_select=self.ps(), seed=seed)
            else:
                res = o.sample_N_inputs(N_SAMPLE, post_select=self.ps(), seed=seed)
            return ("ok", {tuple(k.s): int(v) for k, v in res.items()})
        except Exception as e:  # noqa: BLE001
            return ("err", exc_class(e))

    def judge(self, obj: str, method: str, seed: int) -> list[str]:
        ctx = self.ctx
        ref = self.ref()
        if ref is None:
            ctx.count("history:reference_failed")
            return []
        what = f"{CLASS[obj]}.{method}"
        args = self.read_args(obj, method, seed, ref)
        got = self.do_read(self.objs[obj], obj, method, seed, args)
        ctx.count(f"history:read:{obj}.{method}" + (":after_change" if self.changed else ""))
        if self.changed:
            self.useful += 1
        # (b) the story of the other objects (through a fresh Sampler); (a) a fresh object of the same class
        probs = self.story(obj, method, got, ref, args, what)
        if not probs and (method != "sample" or got[0] == "err"):
            fresh = self.do_read(self.make_one(ref["c"], obj), obj, method, seed, args)
            if not same_obs(got, fresh):
                probs = [f"oracle: history: long-lived {what} gives {_short(got)} but a fresh {CLASS[obj]} built for the "
                         f"current configuration gives {_short(fresh)}"]
        return probs

    def story(self, obj: str, method: str, got, ref: dict, args: dict, what: str) -> list[str]:
        ctx, cur = self.ctx, self.cur
        sd0, hin, hout, rules = ref["sd"][0], ref["hin"], ref["hout"], cur["rules"]
        s0 = cur["inputs"][0]
        acc = accepted(sd0, hout, rules)
        tot = sum(acc.values())
        cond = conditioned(sd0, hin, hout, rules, s0, cur["pnr"])
        ctot = sum(cond.values())
        if got[0] == "err":
            justified = {
                "sim": False,
                "an": not any(rule_ok(rules, list(t)) for k in range(sum(s0) + 1)
                              for t in fg.fock_all(ref["im"], k) if (ref["nl"] or k == sum(s0))),
                "qs": ctot <= 1e-6,
                "smp": method in ("sno",) and tot <= 1e-6,
            }[obj]
            if not justified:
                return [f"oracle: history: {what} raised {got[1]} on a configuration the Sampler accepts "
                        f"(accepted probability {tot:.6g}, heralds in={hin} out={hout})"]
            ctx.count(f"history:read_refused_consistently:{obj}")
            return []
        val = got[1]
        if obj == "smp":
            if method == "pd":
                if not _close_dict(val, sd0, 1e-9):
                    return [f"oracle: history: {what} differs from the distribution of a fresh Sampler"]
            elif method == "sample":
                p = freq_problem(val, K_SAMPLE, sd0, f"history: {what}()")
                return [f"oracle: {p}"] if p else []
            elif method == "sno":
                if tot > 1e-4:
                    p = freq_problem(val, N_SAMPLE, {u: q / tot for u, q in acc.items()}, f"history: {what}")
                    return [f"oracle: {p}"] if p else []
            else:
                if sum(val.values()) > N_SAMPLE:
                    return [f"oracle: history: {what} returned more than N states"]
                p = freq_problem(val, N_SAMPLE, acc, f"history: {what}")
                return [f"oracle: {p}"] if p else []
        elif obj == "qs":
            if method == "pd":
                return [p.replace("oracle: ", "oracle: history: ") for p in quick_problems(val, None, cond)]
            if ctot > 1e-7:
                n = K_SAMPLE if method == "sample" else N_SAMPLE
                p = freq_problem(val, n, {u: q / ctot for u, q in cond.items()}, f"history: {what}")
                return [f"oracle: {p}"] if p else []
        elif obj == "an":
            spec = args.get("spec")
            exp_lists = None if spec is None else resolved_lists(spec, cur["inputs"])
            return [p.replace("oracle: ", "oracle: history: ")
                    for p in analyzer_problems(ctx, ref["c"], cur["inputs"], rules, ref["sd"], val, exp_lists, self.eps)]
        elif ref["nl"] == 0:
            for i, s in enumerate(cur["inputs"]):
                for j, t in enumerate(val["outputs"]):
                    full = tuple(fg.add_heralds(t, hout))
                    if abs(abs(val["amps"][i, j]) ** 2 - ref["sd"][i].get(full, 0.0)) > 1e-9 + 2 * float(self.eps):
                        return [f"oracle: history: |simulator amplitude|^2 for {s}->{t} differs from the sampler probability"]
        return []

    def run(self, steps: list) -> list[str]:
        c = self.live.get(self.cur["circuit"])
        if any(v is None for v in self.live.values()) or not config_ok(c, self.cur):
            return []
        try:
            self.objs = self.make_objects(c)
        except Exception as e:  # noqa: BLE001
            return [f"oracle: history: constructing the four objects raised {exc_class(e)} on a well-formed configuration"]
        for k, st in enumerate(steps):
            if st[0] == "read":
                if st[1] not in READS or st[2] not in READS[st[1]]:
                    continue
                probs = self.judge(st[1], st[2], int(st[3]))
                if probs:
                    return [f"{p} [step {k}: {st}; configuration {json.dumps(self.cur)}]" for p in probs]
            else:
                try:
                    if self.apply(st):
                        self.changed = True
                except Exception as e:  # noqa: BLE001
                    return [f"oracle: history: step {k} {st} raised {exc_class(e)} although the configuration it leads to "
                            f"is accepted by fresh objects"]
        return []


def _short(obs) -> str:
    if obs[0] == "err":
        return f"raises {obs[1]}"
    v = obs[1]
    if isinstance(v, dict) and "probs" in v:
        return (f"outputs {v['outputs'][:4]}.. row0 {np.round(v['probs'][0][:4], 6).tolist()}.. performance "
                f"{v['performance']:.6g} error_rate {v['error_rate']}")
    if isinstance(v, dict) and "amps" in v:
        return f"amplitudes {np.round(v['amps'][0][:4], 6).tolist()}.."
    if isinstance(v, dict):
        return "{" + ", ".join(f"{list(k)}: {x:.6g}" for k, x in sorted(v.items())[:5]) + ("..}" if len(v) > 5 else "}")
    return str(v)[:120]


def run_history(ctx: Ctx, case: dict) -> list[str]:
    h = History(ctx, case)
    probs = h.run(case["steps"])
    case["_useful_reads"] = h.useful
    return probs


def _pairs_history(obj: str, methods: list, reconf, seed0: int) -> list:
    """for every ordered pair (A, B) of reads: B, reconfigure, A, B"""
    steps = []
    k = seed0
    for a in methods:
        for b in methods:
            k += 1
            steps += [["read", obj, b, 3 * k], reconf(), ["read", obj, a, 3 * k + 1], ["read", obj, b, 3 * k + 2]]
    return steps


def history_corpus() -> list:
    fam = corpus_family()
    in3 = [[[1, 1, 0], [0, 1, 1]], [[1, 0, 1], [2, 0, 0]], [[0, 1, 0], [1, 0, 0], [0, 0, 1]], [[0, 2, 0]]]
    rules3 = [[[[0], [0, 1]]], [[[1], [1]]], [], [[[0, 2], [1]], [[1], [0, 1]]]]
    muts = [_bs(0, 1, (3, 5), (4, 5)), cg.op_ps("c1", 2, _I), _bs(1, 2, (4, 5), (3, 5), "H"), _bs(0, 2, (5, 13), (12, 13))]

    def toggler(kind: str):
        state = {"k": 0}

        def nxt():
            state["k"] += 1
            k = state["k"]
            if kind == "inputs":
                return ["inputs", in3[k % len(in3)]]
            if kind.startswith("circ:"):
                a, b = kind[5:].split("/")
                name = b if k % 2 else a
                if name == "H":
                    return ["circuit", "H", [[1, 1], [2, 0]], [], "circuit_first"]
                if name == "D":
                    return ["circuit", "D", [[1, 0, 1, 0], [0, 1, 1, 0]], [[[0], [0, 1]]], "circuit_first"]
                if name in ("J", "K"):
                    return ["circuit", name, [[1, 1], [2, 0]], [], "input_first" if k % 4 < 2 else "circuit_first"]
                if cur_len[0] != 3:
                    cur_len[0] = 3
                    return ["circuit", name, in3[0], rules3[0], "circuit_first"]
                return ["circuit", name, None if k % 3 else in3[k % len(in3)], None,
                        "input_first" if k % 2 else "circuit_first"]
            if kind == "ps":
                return ["ps", rules3[k % len(rules3)], "fn" if k % 5 == 0 else "rules"]
            if kind == "pnr":
                return ["pnr", k % 2 == 0]
            if kind == "param":
                return ["param", "p", [0.3, 0.8, 0.55, 1.0][k % 4]]
            return ["mutate", muts[k % len(muts)]]

        cur_len = [3]

        def wrapped():
            st = nxt()
            if st[0] == "circuit" and st[2] is not None:
                cur_len[0] = len(st[2][0])
            return st

        return wrapped

    kinds = ["inputs", "circ:A/B", "circ:A/C", "circ:A/F", "circ:A/G", "circ:A/H", "circ:A/E", "circ:A/D", "circ:J/K",
             "ps", "pnr", "param", "mutate"]
    skip = {"sim": {"ps", "pnr"}, "an": {"pnr"}, "smp": {"pnr"}, "qs": set()}
    cases = []
    seed0 = 0
    for obj in ("qs", "smp", "an", "sim"):
        for kind in kinds:
            if kind in skip[obj]:
                continue
            seed0 += 100
            start = kind[5:].split("/")[0] if kind.startswith("circ:") else "A"
            init = {"circuit": start, "inputs": in3[0] if start != "J" else [[1, 1], [0, 2]],
                    "rules": rules3[0] if start != "J" else [], "ps_form": "rules", "pnr": True}
            cases.append({"kind": "history", "name": f"{obj}:{kind}", "family": fam, "init": init,
                          "steps": _pairs_history(obj, READS[obj], toggler(kind), seed0)})
    return cases


def gen_family(ctx: Ctx, rng):
    """a generated network and herald re-declarations of it (same U_full), a lossy variant, an unrelated
    circuit; returns (family, {name: (input_modes, addressable modes)})"""
    for _ in range(8):
        base = fg.gen_circuit(ctx, rng, max_depth=rng.choice([0, 1, 1, 2]), max_n=4, max_herald_photons=1)
        p0 = [op for op in base if not (op[0] == "herald" and op[1] == "c1")]
        if not p0 or p0[0][0] != "new" or p0[0][1] != "c1":
            continue
        n = p0[0][2]
        if n < 2:
            continue
        m1, m2 = rng.sample(range(n), 2)
        p0 = [p0[0], ["pbs", "c1", m1, m2, "p"], *p0[1:]]
        c = build_circ(p0, {"p": lw.Parameter(0.5)})
        if c is None or np.array(c.U_full).shape[0] > 7:
            continue
        sub_h = fg.herald_photons(c)
        if sub_h > 1 or c.input_modes != n:
            continue
        break
    else:
        return None

    def heralds(k: int) -> list:
        ins_ = rng.sample(range(n), k)
        outs_: list = []
        for i in ins_:
            cands = [m for m in range(n) if m not in outs_]
            outs_.append(i if (i in cands and rng.random() < 0.5) else rng.choice(cands))
        hs, budget = [], 2 - sub_h
        for i, o in zip(ins_, outs_):
            ph = rng.choice([0, 1, 1, 2])
            ph = min(ph, budget)
            budget -= ph
            hs.append(["herald", "c1", ph, i, o])
        return hs

    def vary(hs: list) -> list:
        hs = [list(h) for h in hs]
        if not hs:
            return [["herald", "c1", rng.choice([0, 1]) if sub_h < 2 else 0, rng.randrange(n), rng.randrange(n)]]
        how = rng.choice(["photons", "out", "in", "swap_photons"] if len(hs) > 1 else ["photons", "out", "in"])
        h = rng.choice(hs)
        if how == "photons":
            tot = sum(x[2] for x in hs) + sub_h
            opts = [v for v in (0, 1, 2) if v != h[2] and tot - h[2] + v <= 2]
            h[2] = rng.choice(opts) if opts else h[2]
        elif how == "out":
            free = [m for m in range(n) if m not in [x[4] for x in hs]]
            if free:
                h[4] = rng.choice(free)
        elif how == "in":
            free = [m for m in range(n) if m not in [x[3] for x in hs]]
            if free:
                h[3] = rng.choice(free)
        else:
            a, b = rng.sample(range(len(hs)), 2)
            hs[a][2], hs[b][2] = hs[b][2], hs[a][2]
        ctx.count(f"history:herald_variant:{how}")
        return hs

    k = min(rng.choice([0, 1, 1, 1, 2]), n - 1)
    ha = heralds(k)
    hb = vary(ha)
    hc = vary(hb) if rng.random() < 0.5 else heralds(min(rng.choice([0, 1, 2]), n - 1))
    a, b = rng.choice([q for q in cg.PYTH if 0 < q[1] < 1])
    circuits = {"A": [*p0, *ha], "B": [*p0, *hb], "C": [*p0, *hc],
                "L": [*p0, cg.op_loss("c1", rng.randrange(n), a, b), *ha]}
    other = fg.gen_circuit(ctx, rng, max_depth=1, max_n=3, max_herald_photons=1)
    circuits["Z"] = other
    fam = {"circuits": circuits, "params": {"p": rng.choice([0.2, 0.5, 0.7])}}
    meta = {}
    for name, prog in list(circuits.items()):
        cc = build_circ(prog, {"p": lw.Parameter(fam["params"]["p"])})
        if cc is None or cc.input_modes < 1 or np.array(cc.U_full).shape[0] > 8 or fg.herald_photons(cc) > 2:
            del circuits[name]
            continue
        first = prog[0]
        meta[name] = (cc.input_modes, first[2] if first[0] == "new" else cc.input_modes)
    if "A" not in circuits:
        return None
    return fam, meta


def gen_history(ctx: Ctx, rng):
    got = gen_family(ctx, rng)
    if got is None:
        return None
    fam, meta = got

    def inputs_for(im: int, nph=None) -> list:
        if nph is None or rng.random() < 0.4:
            nph = rng.choice([0, 1, 1, 2, 2])
        ins = []
        for _ in range(rng.choice([1, 1, 2, 3])):
            s = fg.rand_state(rng, im, nph)
            if s not in ins:
                ins.append(s)
        return ins

    sh = {"circuit": "A", "inputs": inputs_for(meta["A"][0]), "rules": [], "ps_form": "rules", "pnr": rng.random() < 0.6}
    sh["rules"] = gen_live_rules(rng, meta["A"][0], sum(sh["inputs"][0]))
    init = json.loads(json.dumps(sh))

    def reconf() -> list:
        kind = rng.choice(["circuit", "circuit", "circuit", "inputs", "inputs", "ps", "ps", "ps_grow", "ps_grow", "pnr", "param",
                           "mutate"])
        im = meta[sh["circuit"]][0]
        if kind == "ps_grow":
            nph = sum(sh["inputs"][0])
            used = {m for ms, _ in sh["rules"] for m in ms}
            free = [m for m in range(im) if m not in used] or list(range(im))
            rule = [[rng.choice(free)], sorted({rng.randint(0, nph), rng.randint(0, nph)})]
            if sh["rules"] and sh.get("ps_form", "rules") == "rules":
                sh["rules"] = [*sh["rules"], rule]
            return ["ps_grow", rule]
        if kind == "circuit":
            # re-declarations of the heralds on the same network (same U_full) are the likeliest targets
            cands = [x for x in meta if x != sh["circuit"]] or list(meta)
            name = rng.choice([x for x in cands for _ in range(3 if x in "ABC" else 1)])
            nim = meta[name][0]
            keep = nim == im and rng.random() < 0.75
            ins = None if keep else inputs_for(nim, sum(sh["inputs"][0]))
            nph = sum((ins or sh["inputs"])[0])
            rules = None if (nim == im and rng.random() < 0.7) else gen_live_rules(rng, nim, nph)
            sh["circuit"] = name
            if ins is not None:
                sh["inputs"] = ins
            if rules is not None:
                sh["rules"] = rules
            return ["circuit", name, ins, rules, rng.choice(["circuit_first", "input_first"])]
        if kind == "inputs":
            sh["inputs"] = inputs_for(im, sum(sh["inputs"][0]))
            return ["inputs", sh["inputs"]]
        if kind == "ps":
            sh["rules"] = gen_live_rules(rng, im, sum(sh["inputs"][0])) if rng.random() < 0.85 else \
                gen_rules(rng, im, sum(sh["inputs"][0]))
            return ["ps", sh["rules"], rng.choice(["rules", "rules", "fn"])]
        if kind == "pnr":
            sh["pnr"] = not sh["pnr"]
            return ["pnr", sh["pnr"]]
        if kind == "param":
            return ["param", "p", rng.choice([0.0, 0.1, 0.35, 0.5, 0.9, 1.0])]
        return ["mutate", cg.rand_prim_op(rng, "c1", meta[sh["circuit"]][1], p_invalid=0.0)]

    def read(obj=None, method=None) -> list:
        obj = obj or rng.choice(["qs", "qs", "smp", "smp", "an", "sim"])
        return ["read", obj, method or rng.choice(READS[obj]), rng.randrange(10**6)]

    steps: list = []
    for _ in range(rng.randint(2, 5)):
        if rng.random() < 0.55:  # patterned: read B, change, read A, read B on one object
            obj = rng.choice(["qs", "qs", "smp", "smp", "an", "sim"])
            a, b = rng.choice(READS[obj]), rng.choice(READS[obj])
            steps += [read(obj, b), reconf()]
            if rng.random() < 0.3:
                steps.append(reconf())
            steps += [read(obj, a), read(obj, b)]
        else:
            for _ in range(rng.randint(2, 6)):
                steps.append(reconf() if rng.random() < 0.35 else read())
    return {"kind": "history", "family": fam, "init": init, "steps": steps}


# --------------------------------------------------------------------------- driver


def _report(ctx: Ctx, case: dict, probs: list, shrink) -> None:
    ctx.count("cases_with_problems")
    scase = shrink(case)
    runner = run_history if scase.get("kind") == "history" else run_case
    sprobs = runner(ctx, scase) or probs
    scase = {k: v for k, v in scase.items() if not k.startswith("_")}
    oracle = [p for p in sprobs if p.startswith("oracle")]
    if oracle:
        ctx.violation(oracle[0], {"case": scase, "problems": sprobs}, sig={"kind": oracle[0][8:48]})
    else:
        ctx.disagreement(sprobs[0], {"case": scase, "problems": sprobs})


def _shrink_prog(ctx: Ctx, case: dict) -> dict:
    def still(sub):
        return cg.well_formed(sub) and bool(run_case(ctx, {**case, "prog": sub}))

    return {**case, "prog": ddmin(case["prog"], still, max_tests=120)}


def _shrink_steps(ctx: Ctx, case: dict) -> dict:
    def still(sub):
        return bool(run_history(ctx, {**case, "steps": sub}))

    return {**case, "steps": ddmin(case["steps"], still, max_tests=150)}


def run(ctx: Ctx) -> None:
    ctx.rule = ("one configuration (tree-generated circuit with heralds of 0-2 photons and loss, 0-3 post-selection "
                "rules, 1-3 equal-photon inputs, both detector modes, generated `expected` shapes), all four objects "
                "built; or one history of reconfigurations and reads on four long-lived objects; non-trivial = heralds "
                "or loss or a rule present and >= 1 photon (history: >= 1 read after a reconfiguration); distinct = "
                "distinct configuration / history")
    rng = ctx.rng
    import postsel

    postsel.run_stream(ctx, pyrandom.Random(f"C05-postsel-{ctx.seed}"), ctx.n(200, 3000))
    threshold_stream(ctx, pyrandom.Random(f"C05-threshold-{ctx.seed}"))
    streams = set((os.environ.get("C05_STREAMS") or "1,2,3,4").split(","))  # experiments only
    if streams != {"1", "2", "3", "4"}:
        ctx.notes.append(f"only streams {sorted(streams)} were run (C05_STREAMS)")
    # 1. expected-mapping corpus
    for case in expected_corpus(ctx) if "1" in streams else []:
        probs = run_case(ctx, case)
        ctx.count("corpus:expected")
        ctx.case(json.dumps(case), True)
        if probs:
            _report(ctx, case, probs, lambda cs: _shrink_prog(ctx, cs))
    # 2. history corpus
    for case in history_corpus() if "2" in streams else []:
        probs = run_history(ctx, case)
        ctx.count("corpus:history")
        ctx.case(json.dumps({k: v for k, v in case.items() if not k.startswith("_")}), case.get("_useful_reads", 0) > 0)
        if probs:
            _report(ctx, case, probs, lambda cs: _shrink_steps(ctx, cs))
    # 3. generated configurations and 4. generated histories (oracle-only), interleaved in proportion so that a
    # time budget cuts both alike; the histories draw from their own stream
    N = ctx.n(140, 3000) if "3" in streams else 0
    H = ctx.n(120, 1500) if "4" in streams else 0
    hrng = pyrandom.Random(f"C05-histories-{ctx.seed}")
    done = hdone = 0
    while (done < N or hdone < H) and not ctx.out_of_time():
        if done < N and (hdone >= H or done * H <= hdone * N):
            case = gen_case(ctx, rng)
            if case is None:
                ctx.count("skipped")
                continue
            done += 1
            probs = run_case(ctx, case)
            prog = case["prog"]
            lossy = any(fg.is_lossy(op) for op in prog)
            her = [op for op in prog if op[0] == "herald"]
            ctx.count("lossy" if lossy else "lossless")
            ctx.count("herald_photons>0" if any(h[2] > 0 for h in her) else "no_herald_photons")
            ctx.count(f"rules:{len(case['rules'])}")
            ctx.count("pnr" if case["pnr"] else "threshold")
            ctx.count(f"post_selection_form:{case.get('ps_form', 'rules')}")
            ctx.case(json.dumps(case), sum(case["inputs"][0]) >= 1 and (lossy or bool(her) or bool(case["rules"])),
                     sample=case if done <= 2 else None)
            if probs:
                _report(ctx, case, probs, lambda cs: _shrink_prog(ctx, cs))
            continue
        case = gen_history(ctx, hrng)
        if case is None:
            ctx.count("history:skipped")
            continue
        hdone += 1
        probs = run_history(ctx, case)
        ctx.count("history:oracle-only")
        ctx.case(json.dumps({k: v for k, v in case.items() if not k.startswith("_")}), case.get("_useful_reads", 0) > 0,
                 sample={k: v for k, v in case.items() if not k.startswith("_")} if hdone <= 1 else None)
        if probs:
            _report(ctx, case, probs, lambda cs: _shrink_steps(ctx, cs))


def threshold_stream(ctx: Ctx, rng) -> None:
    """the global `sampler_probability_threshold` raised (always restored): the Sampler drops every state whose ABSOLUTE
    probability is below it, and the other objects must describe the same truncated distribution (the QuickSampler
    conditions and renormalises what is left) - relations that are invisible at the default 1e-9"""
    from lightworks.__settings import settings as lw_settings

    default = lw_settings.sampler_probability_threshold
    try:
        for _ in range(ctx.n(30, 400)):
            if ctx.out_of_time():
                break
            case = gen_case(ctx, rng)
            if case is None:
                continue
            thr = rng.choice([1e-6, 1e-4, 1e-3, 3e-3, 1e-2, 3e-2])
            lw_settings.sampler_probability_threshold = thr
            case = {**case, "threshold": thr}
            probs = run_case(ctx, case)
            lw_settings.sampler_probability_threshold = default
            ctx.count(f"global_threshold:{thr:g}")
            ctx.case(json.dumps(case), True)
            if probs:
                probs = [p + f" [settings.sampler_probability_threshold = {thr:g}]" for p in probs]
                oracle = [p for p in probs if p.startswith("oracle")]
                rp = {"case": case, "problems": probs}
                if oracle:
                    ctx.violation(oracle[0], rp, sig={"kind": "global-threshold"})
                else:
                    ctx.disagreement(probs[0], rp)
    finally:
        lw_settings.sampler_probability_threshold = default


def replay(ctx: Ctx, path: str) -> None:
    data = json.load(open(path))["replay"]
    if "postsel" in data and "postsel_model" not in data:
        print("replay: a PostSelection history recorded before replays carried the model form; rerun the check with the seed")
        return
    if "postsel_model" in data:
        import postsel

        for pr in postsel.replay_case(ctx, data):
            print("replay:", pr)
            (ctx.violation(pr, data, sig={"kind": "replay"}) if pr.startswith("oracle") else ctx.disagreement(pr, data))
        ctx.case("replay", True)
        return
    case = data["case"]
    if "threshold" in case:
        from lightworks.__settings import settings as lw_settings

        lw_settings.sampler_probability_threshold = case["threshold"]
    probs = run_history(ctx, case) if case.get("kind") == "history" else run_case(ctx, case)
    ctx.case("replay", True, sample={k: v for k, v in case.items() if not k.startswith("_")})
    for p in probs:
        print("replay:", p)
        (ctx.violation(p, data, sig={"kind": "replay"}) if p.startswith("oracle") else ctx.disagreement(p, data))
