"""
C11 — results depend only on the current configuration, not on history.

Model: LW.Model.Cache (read through a snapshot-keyed cache; refinement theorem: every read of any
history returns compute(current configuration) when compute factors through the snapshot — which
the repaired snapshot guarantees).  `compute` of the implementation is "what a freshly created
object with the same settings returns", so the check drives long-lived Sampler / QuickSampler /
Analyzer objects through random histories of reconfigurations, reads and sampling calls and
compares every observation with a fresh object built from the current settings.

Streams:
  1. shared components (run first: a directed corpus, then randomised histories): ONE Backend / Source / Detector /
     PostSelection object and the circuit objects are used by several long-lived Samplers, QuickSamplers and
     Analyzers at the same time; holders are created, reconfigured (assignment, in-place change of the shared
     component, in-place change THROUGH one holder, circuit extended in place incl. a heralded gate) and observed
     in interleaved order, on circuits related as lossy circuit / Unitary of its U_full / same matrix with other
     heralds / herald on another mode; every observation of every holder is compared with a fresh object that is
     given fresh components with the same values (oracle only: the cache model has one cache per object);
     the circuit edits include those that change the NUMBER OF LOSS ELEMENTS (loss element, lossy beam splitter /
     phase shifter, lossy sub-circuit appended in place; circuits of the same modes with 0 / 1 / 2 loss modes
     assigned): U_full changes its size while modes, heralds and input stay; a rule added in place to the shared
     PostSelection object is a step as well;
     DEFAULT COMPONENTS ARE PER OBJECT: holders are also created WITHOUT a source / detector / backend / post-selection
     (argument left out, None by keyword, None by position) or put back on a default (`holder.source = None` ...); one
     holder tunes its own default in place through its accessor, others exist before and are created afterwards (a
     directed corpus for every component and call form, `gen_defaults` worlds, and mixed into the shared histories).
     The harness keeps its OWN record of what every holder was given (passed / assigned / changed through which holder
     or shared component); the fresh object of every comparison is built from that record with explicit new
     components (never from attributes read back from the object under test), and after every step the public
     attributes of EVERY holder are cross-checked against the record: a difference is "settings of an object changed
     without being assigned".  Every history first undoes, through public accessors on new default objects, what
     earlier histories of the process may have done to shared defaults, so that a shrunk history replays on its own;
  2. one long-lived Sampler or QuickSampler under a random history (as before, plus in-place extension by a
     heralded gate, in-place edits that add loss elements, a rule added in place to the QuickSampler's
     PostSelection object; directed: an observation, a change of the loss count, an observation); the long-lived object
     may be created on default components (["ctor", form]), put back on a default (source_none / detector_none /
     backend_none), and OTHER objects on default components are created and tuned in place in between (["decoy", ...]);
     the same cross-check of reported against recorded settings at every observation;
  3. Analyzer probes and histories.

Two dimensions run through all three streams:
  THE SIZE OF A CHANGE.  Next to the usual large reconfigurations every kind of reconfiguration also comes SMALL (1e-3 ...
     1e-12): Parameter steps (["param_step", which, delta]: a generic reflectivity p, a reflectivity q next to the Hong-Ou-
     Mandel dip, a phase r next to the dark port of an interferometer), a circuit assigned that differs from the last one
     in ONE reflectivity / phase / loss value (["circuit_near", base, eps], Fam 'near:<base>:<eps>'), one source value /
     the probability threshold / detector efficiency / dark-count probability moved in place (["source_nudge"],
     ["detector_nudge"], nudged values of shared components).  The snapshot is compared EXACTLY, so every one of them
     is a reconfiguration: the correspondence layer abstracts U_full and the source values by their exact bits and names
     a skipped recomputation even when the distributions differ by less than any tolerance; the long-lived-vs-fresh
     oracle compares every entry RELATIVELY (REL_TOL; on the unchanged library the two are bit-identical), the circuits
     next to a dip have entries of 1e-9 ... 1e-8 (around the library's cut-off) that change by a large factor under a
     step of 1e-6, and post-selected sample counts (N = 2000, fixed seed) are taken on them.
  POST-SELECTION GIVEN AS FUNCTIONS that look alike ({"fn": [style, pred, a, b]}, see mk_fn): closures of one factory with
     different captured values, lambdas made in a loop with default arguments, keyword-only defaults, nested closures,
     one code object bound to different globals, separately written lambdas, functools.partial objects / bound methods of
     two instances / callable objects (raw: the setter may refuse them, then nothing may change; and wrapped by one
     adapter), the SAME function object assigned again, another function object with the same values - assigned to
     QuickSamplers and Analyzers (one object shared by several holders in stream 1) and passed as the `post_select`
     argument of a Sampler's sampling calls (same N and seed, only the function differs).  Results follow the CURRENT
     function.

Correspondence layer (harness/c11corr.py, driver op "cache"): in streams 1 and 2 every long-lived Sampler /
QuickSampler is ALSO run on the cache model.  At every observation the object's configuration is abstracted to
the model's SamplerCfg / QuickCfg (public attributes only; values interned with the code's own equality), and
whether the implementation really recomputed is observed through counting wrappers around
`sampler.pdist_calc` / `Backend.probability` and the `probability_distribution` getters.  Per read:
model.recomputed == implementation.recomputed, otherwise
    corr:missed-recomputation (the model recomputes, the code did not: a field is missing from the code's
                               `_gen_calculation_values`; the field is named), or
    corr:over-invalidation    (the code recomputed although no model field changed).
Several QuickSamplers sharing PostSelection objects are run on the world model (`CWorld.step`: new / set / mutate
/ read), Samplers of stream 1 one by one.  Directed histories change exactly ONE snapshot field between two reads
(every field of both snapshots), change nothing, or assign an equal value through a different object.  Self-test
on every run: the pinned snapshots (code before the repairs of F10 / F30) must disagree with the implementation
on the F10 and F30 witnesses.
"""

from __future__ import annotations

import functools
import json
import random as pyrandom
import types

import numpy as np

import lightworks as lw
from c11corr import SEAMS, Abstractor, Tracker, WorldTracker, changed_fields, seams_selftest
from core import Ctx, MachineryFault, ddmin, exc_class
from lightworks import emulator

TRUSTED = [
    "Lean 4.33 kernel; axioms subset of {propext, Classical.choice, Quot.sound} (audited on every run)",
    "the cache model LW.Model.Cache abstracts U_full/source values to identifiers with decidable equality; the harness "
    "interns the values with the code's own equality (arrays: shape and element-wise == on the exact bits, numbers: ==, "
    "PostSelection objects and the wrappers of post-selection functions: identity)",
    "the implementation 'recomputed' iff sampler.pdist_calc / Backend.probability was entered or the "
    "probability_distribution getter raised while the long-lived object was observed (counting wrappers installed by "
    "the harness for the duration of the run; self-tested on every run)",
    "`compute` of the model is abstract (the name of the configuration); that the distribution is a function of the "
    "snapshot fields is what the long-lived-vs-fresh oracle searches counterexamples to",
    "numpy / stdlib PRNG determinism for equal seeds",
]
ASSUMPTIONS = ["histories of 4-14 steps on circuits with <= 4 modes (<= 7 after in-place extension), <= 3 user photons",
               "small reconfigurations: sizes 1e-3 ... 1e-12 (a step below the spacing of floats changes nothing and is not a "
               "reconfiguration); functions given as post-selection are pure (what a function captured is never changed after it "
               "was handed over: a sampler cannot see inside a function)",
               "shared-component histories: <= 5 holders, two Backend / Source / Detector objects each",
               "default components: <= 5 holders (<= 6 in the directed corpus) created on defaults per world, every call form; the "
               "default post-selection of QuickSampler / Analyzer is tuned in place only if it accepts rules (the library's does not)"]


TINY = [1e-3, 1e-5, 4e-6, 1e-6, 1e-7, 1e-9, 1e-12]   # sizes of the SMALL reconfigurations (steps, offsets, nudges)
HOM_R, MZI_PHI, HOM_LEAK = 0.50002, float(np.pi) + 1e-4, 6e-5


def near_circuit(base: str, eps: float):
    """a NEW circuit object that differs from its eps = 0 sibling in ONE value by eps: a generic circuit (one
    reflectivity / one loss value), and two circuits that sit next to an interference dip, where the small
    probabilities (1e-9 ... 1e-8, around the library's cut-off) react to eps with a large RELATIVE change"""
    c = lw.Circuit(3)
    if base == "generic":
        c.bs(0, 1, reflectivity=0.4 + eps)
        c.bs(1, 2, reflectivity=0.3)
        c.ps(0, 0.7)
    elif base == "lossy":
        c.bs(0, 1, reflectivity=0.4)
        c.bs(1, 2, reflectivity=0.3, loss=0.2 + eps)
    elif base == "hom":
        c.bs(0, 1, reflectivity=HOM_R + eps)
        c.bs(1, 2, reflectivity=1 - HOM_LEAK)
    elif base == "mzi":
        c.bs(0, 1)
        c.ps(0, MZI_PHI + eps)
        c.bs(0, 1)
        c.bs(1, 2, reflectivity=0.4)
    else:
        raise KeyError(base)
    return c


def near_name(base: str, eps: float) -> str:
    return f"near:{base}:{float(eps)!r}"


class Fam(dict):
    """the circuits of one history by name; 'near:<base>:<eps>' is built on first use (and then stays the same object);
    `params`: the Parameter objects the circuits are built from"""

    params: dict

    def __missing__(self, key):
        if isinstance(key, str) and key.startswith("near:"):
            _, base, eps = key.split(":")
            self[key] = near_circuit(base, float(eps))
            return self[key]
        raise KeyError(key)


def circuits(rng):
    """a family of circuits on 3 visible modes; several share U_full but differ in heralds / modes"""
    fam = Fam()
    p = lw.Parameter(0.3)
    # two circuits next to an interference dip, on Parameters of their own: a Hong-Ou-Mandel dip (reflectivity q next to
    # 1/2: the coincidence probability is (1 - 2q)^2) and the dark port of a Mach-Zehnder interferometer (phase r next to pi)
    q, r = lw.Parameter(HOM_R), lw.Parameter(MZI_PHI)
    fam.params = {"p": p, "q": q, "r": r}
    c = lw.Circuit(3)
    c.bs(0, 1, reflectivity=q)
    c.bs(1, 2, reflectivity=1 - HOM_LEAK)
    fam["dip_hom"] = c
    c = lw.Circuit(3)
    c.bs(0, 1)
    c.ps(0, r)
    c.bs(0, 1)
    c.bs(1, 2, reflectivity=0.4)
    fam["dip_mzi"] = c
    for hp in (0, 1):
        c = lw.Circuit(4)
        c.bs(0, 1, reflectivity=0.4)
        c.bs(1, 2, reflectivity=p)
        c.ps(0, 0.7)
        c.herald(hp, 3)  # idle heralded mode: same U_full, different herald photons
        fam[f"idleherald{hp}"] = c
    for hp in (0, 1):
        # the same, but the idle heralded mode lives inside an ADDED sub-circuit (a private ancilla of the host):
        # same U_full, same n_modes, same user modes, different herald photons - and no herald declared on the host itself
        c = lw.Circuit(3)
        c.bs(0, 1, reflectivity=0.4)
        c.bs(1, 2, reflectivity=p)
        c.ps(0, 0.7)
        sub = lw.Circuit(2)
        sub.bs(0, 1, reflectivity=0.3)  # the ancilla is coupled to user mode 2: its photon number changes the distribution
        sub.herald(hp, 1)
        c.add(sub, 2)  # three user modes + one private ancilla, like idleherald*
        fam[f"subherald{hp}"] = c
    c = lw.Circuit(3)
    c.bs(0, 1, reflectivity=0.4)
    c.bs(1, 2, reflectivity=p)
    c.ps(0, 0.7)
    fam["plain"] = c
    c = lw.Circuit(3)
    c.bs(0, 1, reflectivity=0.4)
    c.bs(1, 2, reflectivity=p, loss=0.2)
    fam["lossy"] = c
    # the plain circuit with ONE loss element: same modes, same heralds, U_full one row / column larger
    c = lw.Circuit(3)
    c.bs(0, 1, reflectivity=0.4)
    c.bs(1, 2, reflectivity=p)
    c.loss(1, 0.3)
    c.ps(0, 0.7)
    fam["lossy1"] = c
    c = lw.Circuit(3)
    sub = lw.Circuit(3)
    sub.bs(0, 1)
    sub.bs(1, 2, reflectivity=0.25)
    sub.herald(1, 2, 0)
    c.add(sub, 1)
    c.bs(0, 1, reflectivity=p)
    fam["heralded_sub"] = c
    c = lw.Circuit(3)
    c.mode_swaps({0: 1, 1: 2, 2: 0})
    fam["swap"] = c
    # same mode count and number of heralds, but the output herald sits on different modes
    for tag, (hi, ho) in {"herald_out0": (3, 0), "herald_out2": (3, 2), "herald_in0": (0, 3)}.items():
        c = lw.Circuit(4)
        c.bs(0, 1, reflectivity=0.4)
        c.bs(1, 2, reflectivity=0.7)
        c.bs(2, 3, reflectivity=0.45)
        c.bs(0, 3, reflectivity=0.6)
        c.herald(1, hi, ho)
        fam[tag] = c
    # the lossy circuit's full matrix as an ordinary 5-mode circuit: the same array, the loss modes are measured
    fam["lossy_dil"] = lw.Unitary(np.array(fam["lossy"].U_full))
    return fam, p


EDITS = ["bs", "ps", "gate", "loss", "bs_loss", "ps_loss", "lossy_sub", "loss"]
LOSS_EDITS = ["loss", "bs_loss", "ps_loss", "lossy_sub"]


def edit_circuit(c, what: str, m: int) -> None:
    """in-place edits of a circuit object.  'loss', 'bs_loss', 'ps_loss' and 'lossy_sub' add loss elements: U_full grows
    while n_modes, heralds and input_modes stay the same; 'gate' adds a mode and a herald, input_modes stay the same"""
    if what == "bs":
        c.bs(m, m + 1, reflectivity=0.35)
    elif what == "ps":
        c.ps(m, 0.4)
    elif what == "gate":
        if c.n_modes <= 6:
            c.add(heralded_gate(), m)
    elif np.array(c.U_full).shape[0] > 9:
        return
    elif what == "loss":
        c.loss(m, 0.3)
    elif what == "bs_loss":
        c.bs(m, m + 1, reflectivity=0.6, loss=0.25)
    elif what == "ps_loss":
        c.ps(m, 0.3, loss=0.2)
    else:
        sub = lw.Circuit(2)
        sub.bs(0, 1, reflectivity=0.45, loss=0.15)
        sub.ps(1, 0.2)
        c.add(sub, m)


def heralded_gate():
    """a block that carries its own ancilla photon: Circuit.add of it leaves input_modes unchanged"""
    g = lw.Unitary(lw.random_unitary(2, seed=7))
    g.herald(1, 1)
    return g


LOSS_COUNT = [("plain", "lossy1"), ("lossy1", "plain"), ("lossy1", "lossy"), ("lossy", "lossy1"), ("plain", "lossy"),
              ("lossy", "plain"), ("swap", "lossy1")]
SAME_UFULL = [("idleherald0", "idleherald1"), ("idleherald1", "idleherald0")]
MOVED_HERALD = [("herald_out0", "herald_out2"), ("herald_out2", "herald_out0"), ("herald_out0", "herald_in0"),
                ("herald_in0", "herald_out2")]


def gen_history(ctx: Ctx, rng, kind: str) -> list:
    steps = []
    names = ["idleherald0", "idleherald1", "subherald0", "subherald1", "plain", "lossy", "heralded_sub", "swap", "herald_out0", "herald_out2",
             "herald_in0", "lossy1", "dip_hom", "dip_mzi"]
    inputs = [[1, 0, 0], [1, 1, 0], [0, 1, 1], [2, 0, 0], [0, 0, 0], [1, 1, 1], [1, 0, 1]]
    directed = _gen_small_or_fn(ctx, rng, kind) if rng.random() < 0.3 else []
    if rng.random() < 0.3:
        # the long-lived object runs on DEFAULT components (arguments left out / None / None by position)
        steps.append(["ctor", rng.choice(FORMS)])
        ctx.count(f"defaults:{kind}:long_lived_object_on_default_components")
    if directed:
        steps += directed
    elif rng.random() < 0.14:
        # directed: the long-lived object and ANOTHER object are both created on default components; the other one's
        # defaults are tuned in place between two observations of the long-lived object (which must not follow);
        # then the long-lived object's own defaults are tuned in place / reset by assigning None
        if not steps:
            steps.append(["ctor", rng.choice(FORMS)])
        sd = rng.randrange(1000)
        obs = [["read"], ["sample", sd], ["sample_N_outputs", 20, sd]] + ([["sample_N_inputs", 20, sd]] if kind == "sampler" else [])
        steps += [["input", rng.choice([[1, 1, 0], [0, 1, 1], [1, 0, 1]])]] + ([rng.choice(obs)] if rng.random() < 0.6 else [])
        steps += [_gen_decoy(rng, kind, steps), rng.choice(obs)]
        if kind == "sampler":
            steps += [rng.choice([["source", rng.choice(SH_SRC[1:]), False], ["source_one", rng.randrange(3), 0.8]]), rng.choice(obs),
                      _gen_decoy(rng, kind, steps), rng.choice([["source_none"], ["detector_none"], ["backend_none"], ["read"]]), rng.choice(obs)]
        ctx.count("directed:other_object_on_default_components_tuned_in_place")
    elif rng.random() < 0.35:
        # directed: two circuits with element-wise equal U_full but different herald photons, with an
        # observation in between — only a configuration snapshot that includes the heralds tells them apart
        a, b = rng.choice(SAME_UFULL)
        obs = rng.choice([["read"], ["sample", rng.randrange(1000)], ["sample_N_outputs", 20, rng.randrange(1000)]])
        steps += [["input", rng.choice([[1, 0, 0], [1, 1, 0], [0, 1, 1]])], ["circuit", a], ["read"], ["circuit", b], obs]
        ctx.count("directed:same_U_full_different_heralds")
    elif rng.random() < 0.35:
        # directed: same unitary, same mode count and herald count, herald on another mode, with SAMPLING
        # before and after (tables derived from the heralds must be rebuilt, not only the distribution)
        a, b = rng.choice(MOVED_HERALD)
        sd = rng.randrange(1000)
        first = rng.choice([["sample_N_outputs", 20, sd], ["sample_N_inputs", 20, sd], ["read"]])
        second = rng.choice([["sample_N_outputs", 20, sd + 1], ["sample_N_inputs", 20, sd + 1], ["read"], ["sample", sd]])
        if kind != "sampler":
            first = ["sample_N_outputs", 20, sd] if first[0] == "sample_N_inputs" else first
            second = ["sample_N_outputs", 20, sd + 1] if second[0] == "sample_N_inputs" else second
        steps += [["input", rng.choice([[1, 0, 0], [1, 1, 0], [0, 1, 1]])], ["circuit", a], first, ["circuit", b], second]
        ctx.count("directed:herald_moved_between_sampling_calls")
    elif rng.random() < 0.4:
        # directed: the NUMBER OF LOSS ELEMENTS changes (U_full changes size) while modes, heralds and input stay:
        # a loss element / lossy component / lossy sub-circuit appended in place, or a circuit of the same modes
        # with another loss count assigned - between two observations
        sd = rng.randrange(1000)
        obs = [["read"], ["sample", sd], ["sample_N_outputs", 20, sd]]
        start = rng.choice(["plain", "lossy1", "lossy", "swap", "idleherald1", "heralded_sub", "herald_out0"])
        steps += [["input", rng.choice([[1, 0, 0], [1, 1, 0], [0, 1, 1], [2, 0, 0]])], ["circuit", start], rng.choice(obs)]
        if rng.random() < 0.7:
            steps.append(["mutate_circuit", rng.choice(LOSS_EDITS), rng.randrange(2)])
            ctx.count("directed:loss_element_added_in_place")
        else:
            a, b = rng.choice(LOSS_COUNT)
            steps[1] = ["circuit", a]
            steps.append(["circuit", b])
            ctx.count("directed:same_modes_other_loss_count")
        steps.append(rng.choice(obs))
    for _ in range(rng.randint(4, ctx.n(10, 14))):
        if rng.random() < 0.22:
            # steps that change exactly one field of the snapshot, nothing at all, or assign an equal value through
            # a different object (the cache must NOT be invalidated by the last two - the correspondence checks it)
            common = [["param_same"], ["circuit_same"], ["circuit_copy"], ["input_same"]]
            if kind == "sampler":
                steps.append(rng.choice(common + [
                    ["source_none"], ["detector_none"], ["backend_none"],
                    ["source_same"], ["backend_same"], ["detector", rng.choice(SH_DET)],
                    ["source_one", rng.randrange(3), rng.choice([1, 0.9, 0.8])], ["source_thr", rng.choice([0, 1e-3, 0.2])]]))
            else:
                steps.append(rng.choice(common + [["ps_same_object"], ["ps_equal_new"], ["pnr_same"]]))
            continue
        if rng.random() < 0.05:
            steps.append(_gen_decoy(rng, kind, steps))
            continue
        r = rng.random()
        small = rng.random() < 0.4   # the SIZE of a change is a dimension: 1e-3 ... 1e-12 next to the usual large ones
        if r < 0.22:
            if small and rng.random() < 0.5:
                base = rng.choice(NEAR_BASES)
                steps.append(["circuit_near", base, _small(rng) if any(s[:2] == ["circuit_near", base] for s in steps) else 0.0])
                ctx.count(f"{kind}:small:circuit_assigned_that_differs_in_one_value")
            else:
                steps.append(["circuit", rng.choice(names)])
        elif r < 0.3:
            steps.append(["mutate_circuit", rng.choice(EDITS), rng.randrange(2)])
        elif r < 0.38:
            if small:
                steps.append(["param_step", rng.choice(["p", "p", "q", "r"]), _small(rng)])
                ctx.count(f"{kind}:small:param_step")
            else:
                steps.append(["param", rng.choice([0.1, 0.5, 0.9])])
        elif r < 0.5:
            steps.append(["input", rng.choice(inputs)])
        elif kind == "sampler" and r < 0.58:
            if small:
                steps.append(rng.choice([["source_nudge", rng.randrange(4), _small(rng)], ["source_nudge", rng.randrange(3), _small(rng)],
                                         ["detector_nudge", rng.randrange(2), _small(rng)]]))
                ctx.count(f"sampler:small:{steps[-1][0]}")
            else:
                steps.append(["source", rng.choice([[1, 1, 1], [0.8, 1, 1], [1, 0.9, 1], [1, 1, 0.7], [0.9, 0.95, 0.8]]),
                              rng.random() < 0.5])
        elif kind == "sampler" and r < 0.63:
            steps.append(["backend", rng.choice(["permanent", "slos"])])
        elif kind == "quick" and r < 0.58:
            if rng.random() < 0.45:
                # post-selection given as a FUNCTION: mostly one that differs from the last one in nothing but the
                # values it captured; a callable that is no plain function; the same function object once more
                last = next((s[1] for s in reversed(steps) if s[0] == "post_select_fn"), None)
                steps.append(["ps_fn_same"] if last and rng.random() < 0.15 else
                             ["post_select_fn", gen_fn(rng, FN_STYLES if rng.random() < 0.25 else FN_PLAIN + FN_WRAPPED, like=last)])
                ctx.count(f"quick:fn:{steps[-1][0]}")
            else:
                steps.append(["post_select", rng.choice([None, [[0], [1]], [[0, 1], [1, 2]], [[2], [0]]])])
        elif kind == "quick" and r < 0.61:
            steps.append(["pnr", rng.random() < 0.5])
        elif kind == "quick" and r < 0.66:
            # a further rule added IN PLACE to the PostSelection object that the QuickSampler holds
            steps.append(["ps_add", rng.choice([[[0], [1]], [[1], [0, 1]], [[2], [0]], [[2], [0, 1]], [[1, 2], [1]]])])
        elif r < 0.8:
            steps.append(["read"])
        elif r < 0.87:
            steps.append(["sample", rng.randrange(1000)])
        elif r < 0.94:
            steps.append(["sample_N_outputs", rng.choice([5, 20]), rng.randrange(1000)])
        elif kind == "sampler":
            steps.append(["sample_N_inputs", rng.choice([5, 20]), rng.randrange(1000)])
        else:
            steps.append(["read"])
        if kind == "sampler" and steps[-1][0] in ("sample_N_outputs", "sample_N_inputs") and rng.random() < 0.4:
            # the post-selection of the call: rules or a function (mostly like the one of the last call, same seed)
            last = next((s for s in reversed(steps[:-1]) if s[0] in ("sample_N_outputs", "sample_N_inputs") and len(s) > 3 and is_fn(s[3])), None)
            if last and rng.random() < 0.6:
                steps[-1] = [steps[-1][0], last[1], last[2], gen_fn(rng, like=last[3])]
            else:
                steps[-1].append(rng.choice([gen_fn(rng, FN_STYLES), gen_fn(rng), [[0], [1]], [[2], [0]]]))
            ctx.count("sampler:call_argument:post_select:" + ("function" if is_fn(steps[-1][3]) else "rules"))
    return steps


NEAR_BASES = ["generic", "lossy", "hom", "mzi"]
DIP_RULE = {"dip_hom": ["coinc", 0, 1], "hom": ["coinc", 0, 1], "dip_mzi": ["has", 0, 0], "mzi": ["has", 0, 0]}


def _small(rng) -> float:
    return rng.choice(TINY) * rng.choice([1, -1])


def _gen_small_or_fn(ctx: Ctx, rng, kind: str) -> list:
    """directed openings.  (1) the SIZE of a reconfiguration: between two observations ONE thing changes by 1e-3 ... 1e-12 -
    a Parameter step (generic circuits and circuits next to an interference dip, where probabilities of 1e-9 ... 1e-8
    change by a large factor), a circuit assigned that differs from the last one in one value, one source / detector
    value moved in place; observed by reads and by (post-selected) sample counts under a fixed seed.  (2) post-selection
    given as FUNCTIONS that look alike: assigned to a QuickSampler, passed as the argument of a Sampler's sampling calls."""
    sd = rng.randrange(1000)
    r = rng.random()
    if r < 0.55 or (r < 0.75 and kind == "quick"):
        # (1) circuits
        if rng.random() < 0.6:
            which, cname, inp = rng.choice([("q", "dip_hom", [1, 1, 0]), ("q", "dip_hom", [1, 1, 0]), ("r", "dip_mzi", [1, 0, 0]),
                                            ("r", "dip_mzi", [0, 1, 0]), ("r", "dip_mzi", [1, 1, 0]), ("p", "plain", [1, 1, 0]),
                                            ("p", "lossy", [1, 1, 0]), ("p", "heralded_sub", [1, 0, 1]), ("p", "idleherald1", [0, 1, 1])])
            change = [["param_step", which, _small(rng)]]
            start = [["input", inp], ["circuit", cname]]
            ctx.count(f"directed:small:param_step:{cname}")
        else:
            base = rng.choice(NEAR_BASES)
            cname, inp = base, {"hom": [1, 1, 0], "mzi": rng.choice([[1, 0, 0], [1, 1, 0]])}.get(base, rng.choice([[1, 1, 0], [1, 0, 1]]))
            change = [["circuit_near", base, _small(rng)]]
            start = [["input", inp], ["circuit_near", base, 0.0]]
            ctx.count(f"directed:small:circuit_near:{base}")
        obs = [["read"], ["read"], ["sample", sd], ["sample_N_outputs", 2000, sd]]
        if kind == "sampler":
            rule = {"fn": [rng.choice(FN_PLAIN), *DIP_RULE.get(cname, rng.choice(FN_PREDS))]}
            obs += [["sample_N_outputs", 2000, sd, rule], ["sample_N_outputs", 2000, sd, rule], ["sample_N_inputs", 300, sd]]
        steps = start + [rng.choice(obs)] + change + [rng.choice(obs)]
        if rng.random() < 0.5:
            steps += [[*change[0][:2], _small(rng)], rng.choice(obs)]
        return steps
    if r < 0.75:
        # (1) one source / detector value of a Sampler
        base = rng.choice(SH_SRC)
        start = [["input", rng.choice([[1, 1, 0], [1, 0, 1], [2, 0, 0]])], ["circuit", rng.choice(["plain", "lossy", "dip_hom", "herald_out0"])],
                 ["source", base, rng.random() < 0.5]]
        if rng.random() < 0.65:
            obs = [["read"], ["read"], ["sample", sd], ["sample_N_outputs", 500, sd], ["sample_N_inputs", 300, sd]]
            change = ["source_nudge", rng.randrange(4), _small(rng)]
        else:
            obs = [["sample_N_inputs", 300, sd], ["sample_N_outputs", 300, sd], ["sample", sd]]
            change = ["detector_nudge", rng.randrange(2), _small(rng)]
            if rng.random() < 0.5:
                start.append(["detector", rng.choice(SH_DET)])
        ctx.count(f"directed:small:{change[0]}:{change[1]}")
        return start + [rng.choice(obs), change, rng.choice(obs)] + ([[*change[:2], _small(rng)], rng.choice(obs)] if rng.random() < 0.4 else [])
    inp = rng.choice([[1, 1, 0], [1, 0, 1], [0, 1, 1], [2, 0, 0], [1, 1, 1]])
    start = [["input", inp], ["circuit", rng.choice(["plain", "plain", "lossy", "swap", "herald_out0", "heralded_sub"])]]
    a = gen_fn(rng, FN_STYLES if rng.random() < 0.3 else FN_PLAIN + FN_WRAPPED)
    if kind == "quick":
        # (2) functions assigned to the QuickSampler: A, then B that differs from A in the captured values only, the same
        # object again, an equal function through a new object, a third one
        obs = [["read"], ["read"], ["sample", sd], ["sample_N_outputs", 200, sd]]
        b = gen_fn(rng, like=a)
        steps = start + [["post_select_fn", a], rng.choice(obs), ["post_select_fn", b], rng.choice(obs)]
        for _ in range(rng.randint(0, 3)):
            steps += [rng.choice([["ps_fn_same"], ["ps_equal_new"], ["post_select_fn", gen_fn(rng, like=b)], ["post_select_fn", gen_fn(rng, FN_STYLES)],
                                  ["post_select", rng.choice([None, [[0], [1]]])]]), rng.choice(obs)]
        ctx.count("directed:fn:assigned_to_quick_sampler:" + a["fn"][0])
        return steps
    # (2) functions as the argument of the Sampler's sampling calls (same N, same seed: only the function differs)
    n = rng.choice([50, 200])
    steps = start + ([["read"]] if rng.random() < 0.5 else [])
    f = a
    for _ in range(rng.randint(2, 4)):
        steps.append([rng.choice(["sample_N_outputs", "sample_N_outputs", "sample_N_inputs"]), n, sd, f])
        f = gen_fn(rng, like=f) if rng.random() < 0.8 else rng.choice([f, None, [[0], [1]]])
    ctx.count("directed:fn:argument_of_sampler_calls:" + a["fn"][0])
    return steps


def _gen_decoy(rng, kind: str, steps: list = ()) -> list:
    """["decoy", form, what, value]: another object of this kind on default components, tuned in place; mostly created
    in the same call form as the long-lived object (a default shared per call form shows only between such objects)"""
    own = next((s[1] for s in steps if s[0] == "ctor"), None)
    if own is not None and rng.random() < 0.65:
        d = _gen_decoy(rng, kind)
        return [d[0], own, *d[2:]]
    if kind == "sampler":
        what = rng.choice(["source", "source", "source", "detector", "detector", "backend", "source_thr"])
        v = (rng.choice(SH_SRC[1:]) if what == "source" else rng.choice(SH_DET[1:]) if what == "detector" else "slos" if what == "backend"
             else rng.choice([0.2, 0.9]))
        return ["decoy", rng.choice(FORMS), what, v]
    return ["decoy", rng.choice(FORMS), "ps_add", rng.choice([[[0], [1]], [[1], [0, 1]], [[2], [0]]])]


# ------------------------------------------------------------------------------------------------
# POST-SELECTION GIVEN AS A FUNCTION.  {"fn": [style, pred, a, b]} stands for a callable with the meaning
#     pred = "has":   mode a holds exactly b photons          pred = "coinc": modes a and b hold equally many photons
# made in one of the ways in which Python produces EQUAL-LOOKING BUT DISTINCT functions (`style`).  Every call of `mk_fn`
# returns a NEW object; two objects of one style and pred share their code object (same source line) and differ only in
# what they captured: closure cells ("factory", "nested"), default arguments ("loop": lambdas made in a loop), keyword-only
# defaults ("kwonly"), the globals they are bound to ("globals"); "distinct": separately written lambdas (all named
# "<lambda>", different code).  "partial" / "method" / "callable": functools.partial objects, bound methods of two
# instances, callable objects - these are not plain functions (the library's setter may refuse them: then the settings
# stay as they were, for the long-lived object as for a fresh one); "<style>_w": the same wrapped into a plain function
# by ONE adapter (`lambda s: inner(s)`), as a user would do to get them accepted.

FN_PLAIN = ("factory", "loop", "kwonly", "nested", "globals", "distinct")
FN_OBJECTS = ("partial", "method", "callable")
FN_WRAPPED = tuple(x + "_w" for x in FN_OBJECTS)
FN_STYLES = FN_PLAIN + FN_OBJECTS + FN_WRAPPED
_G_HAS = lambda s: s[X] == Y  # noqa: E731, F821  (bound to new globals {"X": a, "Y": b} by mk_fn)
_G_COINC = lambda s: s[X] == s[Y]  # noqa: E731, F821


def _pred_ab(pred, a, b, s):
    return s[a] == b if pred == "has" else s[a] == s[b]


class _ModeRule:
    def __init__(self, pred, a, b) -> None:
        self.pred, self.a, self.b = pred, a, b

    def check(self, s):
        return _pred_ab(self.pred, self.a, self.b, s)

    __call__ = check


def _fn_factory(pred, a, b):
    if pred == "has":
        return lambda s: s[a] == b
    return lambda s: s[a] == s[b]


def _fn_nested(pred, a, b):
    def outer(x):
        def mid(y):
            if pred == "has":
                return lambda s: s[x] == y
            return lambda s: s[x] == s[y]
        return mid
    return outer(a)(b)


def _fn_adapt(inner):
    return lambda s: inner(s)


def mk_fn(spec):
    """a NEW callable for {"fn": spec}["fn"] = [style, pred, a, b]"""
    style, pred, a, b = spec
    if style == "factory":
        return _fn_factory(pred, a, b)
    if style == "nested":
        return _fn_nested(pred, a, b)
    if style == "loop":
        made = {}
        for x in range(4):
            for y in range(4):
                made[x, y] = (lambda s, x=x, y=y: s[x] == y) if pred == "has" else (lambda s, x=x, y=y: s[x] == s[y])
        return made[a, b]
    if style == "kwonly":
        return (lambda s, *, x=a, y=b: s[x] == y) if pred == "has" else (lambda s, *, x=a, y=b: s[x] == s[y])
    if style == "globals":
        return types.FunctionType((_G_HAS if pred == "has" else _G_COINC).__code__, {"X": a, "Y": b})
    if style == "distinct":
        written = {("has", 0, 0): lambda s: s[0] == 0, ("has", 1, 0): lambda s: s[1] == 0, ("has", 2, 0): lambda s: s[2] == 0,
                   ("has", 0, 1): lambda s: s[0] == 1, ("has", 1, 1): lambda s: s[1] == 1, ("has", 2, 1): lambda s: s[2] == 1,
                   ("has", 0, 2): lambda s: s[0] == 2, ("has", 1, 2): lambda s: s[1] == 2, ("has", 2, 2): lambda s: s[2] == 2,
                   ("coinc", 0, 1): lambda s: s[0] == s[1], ("coinc", 1, 2): lambda s: s[1] == s[2],
                   ("coinc", 0, 2): lambda s: s[0] == s[2]}
        return written.get((pred, a, b)) or _fn_factory(pred, a, b)
    base = style.split("_")[0]
    inner = (functools.partial(_pred_ab, pred, a, b) if base == "partial" else _ModeRule(pred, a, b).check if base == "method"
             else _ModeRule(pred, a, b))
    return _fn_adapt(inner) if style.endswith("_w") else inner


FN_PREDS = [["has", 0, 0], ["has", 1, 0], ["has", 2, 0], ["has", 0, 1], ["has", 1, 1], ["has", 2, 1], ["has", 0, 2],
            ["coinc", 0, 1], ["coinc", 1, 2], ["coinc", 0, 2]]


def gen_fn(rng, styles=FN_PLAIN + FN_WRAPPED, like=None) -> dict:
    """a function post-selection; `like`: (mostly) the style and pred of an earlier one with OTHER captured values - the
    pair that differs in nothing but what the functions captured"""
    if isinstance(like, dict) and rng.random() < 0.75:
        style, pred = like["fn"][0], like["fn"][1]
        if style not in styles:
            style = rng.choice(styles)
        other = [x for x in FN_PREDS if x[0] == pred and x != like["fn"][1:]]
        return {"fn": [style, *rng.choice(other)]}
    return {"fn": [rng.choice(styles), *rng.choice(FN_PREDS)]}


def is_fn(r) -> bool:
    return isinstance(r, dict)


def mk_ps(r):
    if r is None:
        return None
    if is_fn(r):
        return mk_fn(r["fn"])
    ps = lw.PostSelection()
    ps.add(tuple(r[0]), tuple(r[1]))
    return ps


def norm_dist(d):
    return sorted((tuple(k.s), float(v)) for k, v in d.items())


# the long-lived and the fresh object run the same computation on the same numbers: their results agree to rounding
# (REL_TOL relative on every entry, so that a probability of 2e-9 next to an interference dip that should have become
# 3e-9 is a difference; measured on the unchanged library: they are bit-identical)
REL_TOL = 1e-12


def close(p, q) -> bool:
    return abs(p - q) <= REL_TOL * max(abs(p), abs(q)) + 1e-15 or (p != p and q != q)


def same_val(x, y) -> bool:
    """numbers to rounding (REL_TOL), everything else (states, counts, exception classes) exactly"""
    if isinstance(x, float) and isinstance(y, float):
        return close(x, y)
    if isinstance(x, dict) and isinstance(y, dict):
        return x.keys() == y.keys() and all(same_val(x[k], y[k]) for k in x)
    if isinstance(x, (list, tuple)) and isinstance(y, (list, tuple)):
        return len(x) == len(y) and all(same_val(p, q) for p, q in zip(x, y))
    return x == y


def observe(fn):
    try:
        return ("ok", fn())
    except Exception as e:  # noqa: BLE001
        return ("raise", exc_class(e))


def _refused_before_read(a, w) -> bool:
    """the call raised before it asked for the distribution at all (an argument was refused, e.g. a post_select callable that
    is no function): not a read of the cache"""
    return a[0] == "raise" and w.gets == 0 and not w.recomputed


def same_obs(a, b) -> bool:
    if a[0] != b[0]:
        return False
    if a[0] == "raise":
        return a[1] == b[1]
    return same_val(a[1], b[1])


# ------------------------------------------------------------------------------------------------
# DEFAULT COMPONENTS ARE PER OBJECT.  An object that is created without a source / detector / backend / post-selection
# (argument left out, None by keyword, None by position, or `obj.<component> = None` later) runs on components that the
# library makes for it.  These belong to that object alone: tuning them in place through the accessor of ONE object
# (a.source.brightness = 0.5) must not show on any other object, existing or created later.  The harness therefore
# keeps its OWN record of what every object was given (what was passed / assigned / changed through which holder) and
# builds the fresh object of the comparison from that record with EXPLICIT new components; what an object reports
# through its public attributes is cross-checked against the record (never used to build the fresh object).

FORMS = ("omit", "none", "pos")
FORM_TEXT = {"kw": "with every component given explicitly", "omit": "with the optional arguments left out",
             "none": "with the optional arguments given as None", "pos": "with the optional arguments given as None by position"}


SH_FORM_TEXT = {**FORM_TEXT, "kw": "with the components it was not given passed as None"}


def _always(state) -> bool:
    return True


def _explicit_ps(ps):
    """the post-selection handed to a fresh object: never the library's default object"""
    return _always if ps is None else ps


def _default_object(kind: str, c, inp: list, form: str):
    """an object of `kind` on default components only"""
    s = lw.State(inp)
    if kind == "sampler":
        return (emulator.Sampler(c, s) if form == "omit" else emulator.Sampler(c, s, None, None, None) if form == "pos" else
                emulator.Sampler(c, s, source=None, detector=None, backend=None))
    if kind == "quick":
        return (emulator.QuickSampler(c, s) if form == "omit" else emulator.QuickSampler(c, s, True, None) if form == "pos" else
                emulator.QuickSampler(c, s, post_select=None))
    a = emulator.Analyzer(c)
    if form != "omit":
        a.post_selection = None
    return a


def _pristine_start() -> None:
    """every history is an experiment of its own (and every shrunk history replays in a new process): whatever an earlier
    history of this process did to default components is undone through the same public accessors, on newly created
    default objects of every call form.  On a library whose defaults are per object this touches throw-away objects only."""
    c = lw.Circuit(2)
    for form in FORMS:
        o = _default_object("sampler", c, [1, 0], form)
        _set_source(o.source, [1, 1, 1])
        o.source.probability_threshold = 0
        _set_detector(o.detector, [1, 0, True])
        o.backend.backend = "permanent"


def _tune_in_place(ctx: Ctx, obj, kind: str, what: str, v) -> bool:
    """change a component of `obj` IN PLACE through the accessor (never replaces the component)"""
    if kind == "sampler":
        if what == "source":
            _set_source(obj.source, v)
        elif what == "source_thr":
            obj.source.probability_threshold = v
        elif what == "detector":
            _set_detector(obj.detector, v)
        elif what == "backend":
            obj.backend.backend = v
        else:
            return False
        return True
    if what != "ps_add":
        return False
    ps = obj.post_select if kind == "quick" else obj.post_selection
    if not hasattr(ps, "add"):
        # (the library's default post-selection has no rules to add: nothing to tune in place)
        ctx.count("defaults:default_post_selection_cannot_be_tuned")
        return False
    ps.add(tuple(v[0]), tuple(v[1]))
    return True


def _reported(kind: str, obj) -> dict:
    """what the object reports through its public attributes"""
    if kind == "sampler":
        s, d = obj.source, obj.detector
        return {"source.brightness": s.brightness, "source.purity": s.purity, "source.indistinguishability": s.indistinguishability,
                "source.probability_threshold": s.probability_threshold, "detector.efficiency": d.efficiency,
                "detector.p_dark": d.p_dark, "detector.photon_counting": d.photon_counting, "backend.backend": obj.backend.backend,
                "input_state": list(obj.input_state.s)}
    if kind == "quick":
        return {"photon_counting": obj.photon_counting, "post_select.rules": sorted(Abstractor.rules_of(obj.post_select)),
                "input_state": list(obj.input_state.s)}
    return {"post_selection.rules": sorted(Abstractor.rules_of(obj.post_selection))}


def _intended(kind: str, *, src=None, thr=0, det=None, backend=None, pnr=None, rules=(), inp=None) -> dict:
    if kind == "sampler":
        return {"source.brightness": src[0], "source.purity": src[1], "source.indistinguishability": src[2],
                "source.probability_threshold": thr, "detector.efficiency": det[0], "detector.p_dark": det[1],
                "detector.photon_counting": det[2], "backend.backend": backend, "input_state": list(inp)}
    rl = sorted([[int(m) for m in r[0]], [int(n) for n in r[1]]] for r in rules)
    if kind == "quick":
        return {"photon_counting": pnr, "post_select.rules": rl, "input_state": list(inp)}
    return {"post_selection.rules": rl}


def _intended_single(kind: str, cur: dict) -> dict:
    rules = [] if cur["ps"] is None or is_fn(cur["ps"]) else [cur["ps"], *cur["ps_extra"]]
    return _intended(kind, src=cur["source"], thr=cur["thr"], det=cur["det"], backend=cur["backend"], pnr=cur["pnr"],
                     rules=rules, inp=cur["input"])


def _reported_vs_intended(kind: str, obj, want: dict):
    """first public attribute whose value is not the one the harness recorded for this object: (name, reported, intended)"""
    got = _reported(kind, obj)
    for name, w in want.items():
        if got[name] != w:
            return (name, got[name], w)
    return None


OBS = ("read", "sample", "sample_N_outputs", "sample_N_inputs")
NEW_OBJECT_SAME_VALUE =("circuit_copy", "input_same", "source_same", "backend_same", "input", "source", "backend", "circuit")


def run_history(ctx: Ctx, kind: str, steps: list, count: bool = False, snap: str | None = None,
                corr: bool = True) -> list[str]:
    """oracle (long-lived vs fresh) and correspondence (cache model vs implementation, per read) on one history"""
    return run_history_tr(ctx, kind, steps, count, snap, corr)[0]


def run_history_tr(ctx: Ctx, kind: str, steps: list, count: bool = False, snap: str | None = None,
                   corr: bool = True) -> tuple[list[str], Tracker]:
    tr = Tracker(kind)
    probs = _run_history(ctx, kind, steps, tr, count)
    if corr:
        probs += tr.compare(ctx, snap)
    if count:
        for r in tr.reads:
            ctx.count(f"corr:{kind}:read:" + ("raised" if r["raised"] else "recomputed" if r["recomputed"] else "stored"))
    return probs, tr


def _run_history(ctx: Ctx, kind: str, steps: list, tr: Tracker, count: bool) -> list[str]:
    probs: list[str] = []
    _pristine_start()
    fam, p = circuits(None)
    cur = {"circuit": "plain", "input": [1, 0, 0], "source": [1, 1, 1], "backend": "permanent", "ps": None, "pnr": True,
           "ps_extra": [], "thr": 0, "det": [1, 0, True]}

    def fresh_ps():
        ps = mk_ps(cur["ps"])  # (a function: a NEW function object made in the same way from the same values)
        if is_fn(cur["ps"]):
            return ps
        for x in cur["ps_extra"]:
            ps.add(tuple(x[0]), tuple(x[1]))
        return ps

    def fresh():
        c = fam[cur["circuit"]]
        if kind == "sampler":
            b, pu, ind = cur["source"]
            return emulator.Sampler(c, lw.State(cur["input"]),
                                    source=emulator.Source(brightness=b, purity=pu, indistinguishability=ind,
                                                           probability_threshold=cur["thr"]),
                                    detector=_mk_detector(cur["det"]), backend=emulator.Backend(cur["backend"]))
        return emulator.QuickSampler(c, lw.State(cur["input"]), photon_counting=cur["pnr"], post_select=_explicit_ps(fresh_ps()))

    # how the long-lived object is created: every component given explicitly ("kw", as a fresh object is), or with the
    # optional arguments left out ("omit"), given as None by keyword ("none") or by position ("pos"): the object then
    # runs on the DEFAULT components that the library makes for it
    form = next((s[1] for s in steps if s[0] == "ctor"), "kw")
    decoys: list = []
    last_fn: list = [None]   # the function object that was assigned to post_select last
    try:
        obj = fresh() if form == "kw" else _default_object(kind, fam[cur["circuit"]], cur["input"], form)
    except Exception:  # noqa: BLE001
        return probs
    prev = tr.snapshot(obj)
    for k, st in enumerate(steps):
        op = st[0]
        try:
            if op == "ctor":
                continue
            if op == "decoy":
                # ANOTHER object of the same kind is created with default components (before / after this step other
                # such objects exist) and its own defaults are tuned in place through its accessors; the record `cur`
                # of the long-lived object does not change
                d = _default_object(kind, fam["plain"], [1, 0, 0], st[1])
                decoys.append(d)
                _tune_in_place(ctx, d, kind, st[2], st[3])
            elif op == "source_none":
                if kind == "sampler":
                    obj.source = None
                    cur["source"], cur["thr"] = [1, 1, 1], 0
            elif op == "detector_none":
                if kind == "sampler":
                    obj.detector = None
                    cur["det"] = [1, 0, True]
            elif op == "backend_none":
                if kind == "sampler":
                    obj.backend = None
                    cur["backend"] = "permanent"
            elif op == "circuit":
                obj.circuit = fam[st[1]]
                cur["circuit"] = st[1]
            elif op == "circuit_near":
                # a NEW circuit object that differs from its sibling in one value by st[2] (1e-3 ... 1e-12, or 0)
                obj.circuit = fam[near_name(st[1], st[2])]
                cur["circuit"] = near_name(st[1], st[2])
            elif op == "circuit_same":
                obj.circuit = fam[cur["circuit"]]
            elif op == "circuit_copy":
                # an equal circuit through a different object (it keeps the shared Parameter)
                new = cur["circuit"] + "'"
                fam[new] = fam[cur["circuit"]].copy()
                obj.circuit = fam[new]
                cur["circuit"] = new
            elif op == "mutate_circuit":
                c = fam[cur["circuit"]]
                edit_circuit(c, st[1], st[2])
            elif op == "param":
                p.set(st[1])
            elif op == "param_step":
                # a SMALL step of one of the Parameters (p: generic reflectivity, q: reflectivity next to the HOM dip,
                # r: phase next to the dark port), as an optimiser / calibration loop takes them
                par = fam.params[st[1]]
                par.set(par.get() + st[2])
            elif op == "param_same":
                p.set(p.get())
            elif op == "input":
                try:
                    obj.input_state = lw.State(st[1])
                    cur["input"] = st[1]
                except Exception:  # noqa: BLE001  (rejected assignment: settings unchanged)
                    pass
            elif op == "input_same":
                obj.input_state = lw.State(list(cur["input"]))
            elif op == "source":
                b, pu, ind = st[1]
                if st[2]:
                    obj.source = emulator.Source(brightness=b, purity=pu, indistinguishability=ind)
                    cur["thr"] = 0
                else:
                    obj.source.brightness = b
                    obj.source.purity = pu
                    obj.source.indistinguishability = ind
                cur["source"] = st[1]
            elif op == "source_one":
                if kind == "sampler":
                    setattr(obj.source, ["brightness", "purity", "indistinguishability"][st[1]], st[2])
                    cur["source"] = [st[2] if i == st[1] else x for i, x in enumerate(cur["source"])]
            elif op == "source_thr":
                if kind == "sampler":
                    obj.source.probability_threshold = st[1]
                    cur["thr"] = st[1]
            elif op == "source_nudge":
                # ONE value of the source moved IN PLACE by a small amount (st[1]: 0-2 brightness / purity /
                # indistinguishability towards 0, 3: the probability threshold upwards)
                if kind == "sampler":
                    if st[1] == 3:
                        cur["thr"] = cur["thr"] + abs(st[2])
                        obj.source.probability_threshold = cur["thr"]
                    else:
                        v = cur["source"][st[1]] - abs(st[2])
                        setattr(obj.source, ["brightness", "purity", "indistinguishability"][st[1]], v)
                        cur["source"] = [v if i == st[1] else x for i, x in enumerate(cur["source"])]
            elif op == "detector_nudge":
                # efficiency moved down / dark-count probability moved up by a small amount, in place
                if kind == "sampler":
                    e, pd, pc = cur["det"]
                    cur["det"] = [e - abs(st[2]), pd, pc] if st[1] == 0 else [e, pd + abs(st[2]), pc]
                    if st[1] == 0:
                        obj.detector.efficiency = cur["det"][0]
                    else:
                        obj.detector.p_dark = cur["det"][1]
            elif op == "source_same":
                if kind == "sampler":
                    b, pu, ind = cur["source"]
                    obj.source = emulator.Source(brightness=b, purity=pu, indistinguishability=ind,
                                                 probability_threshold=cur["thr"])
            elif op == "detector":
                if kind == "sampler":
                    obj.detector = _mk_detector(st[1])
                    cur["det"] = st[1]
            elif op == "backend":
                obj.backend = st[1]
                cur["backend"] = st[1]
            elif op == "backend_same":
                if kind == "sampler":
                    obj.backend = emulator.Backend(cur["backend"])
            elif op == "post_select":
                obj.post_select = mk_ps(st[1])
                cur["ps"], cur["ps_extra"] = st[1], []
            elif op == "post_select_fn":
                # post-selection given as a function (or another callable: the setter may refuse it, then nothing changes)
                if kind == "quick":
                    f = mk_fn(st[1]["fn"])
                    try:
                        obj.post_select = f
                    except TypeError:
                        if st[1]["fn"][0] not in FN_OBJECTS:
                            raise
                        ctx.count("fn:callable_that_is_no_function_refused:" + st[1]["fn"][0])
                    else:
                        cur["ps"], cur["ps_extra"], last_fn[0] = st[1], [], f
            elif op == "ps_fn_same":
                # the SAME function object assigned again: no change
                if kind == "quick" and is_fn(cur["ps"]) and last_fn[0] is not None:
                    obj.post_select = last_fn[0]
            elif op == "ps_same_object":
                if kind == "quick":
                    obj.post_select = obj.post_select
            elif op == "ps_equal_new":
                if kind == "quick":
                    obj.post_select = fresh_ps()
            elif op == "ps_add":
                if kind == "quick" and cur["ps"] is not None and not is_fn(cur["ps"]) and st[1] not in [cur["ps"], *cur["ps_extra"]]:
                    try:
                        obj.post_select.add(tuple(st[1][0]), tuple(st[1][1]))
                    except ValueError:  # (one rule per mode: refused, the object stays as it is)
                        ctx.count("quick:ps_add_refused")
                    else:
                        cur["ps_extra"] = [*cur["ps_extra"], st[1]]
            elif op == "pnr":
                obj.photon_counting = st[1]
                cur["pnr"] = st[1]
            elif op == "pnr_same":
                if kind == "quick":
                    obj.photon_counting = cur["pnr"]
            else:
                if op == "read":
                    def act(o):
                        return norm_dist(o.probability_distribution)
                elif op == "sample":
                    def act(o):
                        pyrandom.seed(st[1])
                        return tuple(o.sample().s)
                else:
                    # (a Sampler takes the post-selection of a sampling call as an ARGUMENT: st[3], rules or a function;
                    # each call is given an object of its own)
                    def act(o):
                        kw = {"post_select": mk_ps(st[3])} if kind == "sampler" and len(st) > 3 and st[3] is not None else {}
                        f = o.sample_N_outputs if op == "sample_N_outputs" else o.sample_N_inputs
                        return sorted((tuple(s.s), n) for s, n in f(st[1], seed=st[2], **kw).items())
                bad = _reported_vs_intended(kind, obj, _intended_single(kind, cur))
                note = ""
                if bad:
                    note = (f"settings of an object changed without being assigned: the long-lived {kind} (created "
                            f"{FORM_TEXT[form]}) reports {bad[0]} = {bad[1]!r}, the last value given to THIS object is {bad[2]!r}")
                cfg = tr.snapshot(obj)
                with SEAMS.window() as w:
                    a = observe(lambda: act(obj))
                if _refused_before_read(a, w):
                    ctx.count("corr:call_refused_before_the_distribution_was_read")
                else:
                    tr.observed(k, obj, cfg, w)
                try:
                    fobj = fresh()
                except Exception as e:  # noqa: BLE001
                    # the current settings cannot even be given to a new object (e.g. the input does not fit the
                    # circuit): the long-lived object must refuse too (its exception comes from the read)
                    if a[0] == "raise":
                        ctx.count(f"{kind}:both_refuse")
                        if note:
                            probs.append(f"oracle: step #{k} {st}: {note} (what was assigned to it: {cur})")
                            return probs
                        continue
                    fo = ("raise", exc_class(e))
                else:
                    fo = observe(lambda: act(fobj))
                if not same_obs(a, fo):
                    probs.append(f"oracle: step #{k} {st}: long-lived {kind} gives {str(a)[:140]} but a fresh object with the "
                                 f"same settings ({cur}) gives {str(fo)[:140]}" + (f"; {note}" if note else ""))
                    return probs
                if note:
                    probs.append(f"oracle: step #{k} {st}: {note} (what was assigned to it: {cur})")
                    return probs
                continue
            # a reconfiguration step: which fields of the snapshot did it change?
            now = tr.snapshot(obj) if count else None
            if count and now is not None and prev is not None:
                ch = changed_fields(now, prev)
                ctx.count(f"corr:{kind}:change:" + ("+".join(ch) if ch else "none"))
                if not ch:
                    ctx.count(f"corr:{kind}:" + ("equal_value_new_object:" if op in NEW_OBJECT_SAME_VALUE else "nochange:") + op)
            prev = now
        except Exception as e:  # noqa: BLE001
            probs.append(f"oracle: step #{k} {st} raised {exc_class(e)}: {str(e)[:80]}")
            return probs
    return probs


def field_corpus(kind: str) -> list:
    """directed histories: between two observations exactly ONE field of the snapshot changes (every field of the
    snapshot of this kind in turn), then a step that changes nothing and one that assigns an equal value through a
    different object, each followed by an observation"""
    rd = ["read"]
    same = [["param_same"], ["circuit_same"], ["input_same"], ["circuit_copy"]]
    if kind == "sampler":
        same += [["source_same"], ["backend_same"], ["detector", [0.9, 0, False]]]
        changes = [
            ("U_full", [], [["param", 0.5]]),
            ("U_full(in place)", [], [["mutate_circuit", "ps", 0]]),
            ("U_full(shape)", [], [["mutate_circuit", "loss", 1]]),
            ("heralds", [["circuit", "idleherald0"]], [["circuit", "idleherald1"]]),
            ("heralds", [["circuit", "subherald0"]], [["circuit", "subherald1"]]),
            ("heralds[output]", [["circuit", "herald_out0"]], [["circuit", "herald_out2"]]),
            ("heralds(moved)", [["circuit", "herald_out0"]], [["circuit", "herald_in0"]]),
            ("n_modes+heralds(gate)", [], [["mutate_circuit", "gate", 0]]),
            ("input_state", [], [["input", [1, 1, 0]]]),
            ("backend", [], [["backend", "slos"]]),
            ("source.brightness", [], [["source_one", 0, 0.8]]),
            ("source.purity", [], [["source_one", 1, 0.9]]),
            ("source.indistinguishability", [], [["source_one", 2, 0.7]]),
            ("source.probability_threshold", [["source_one", 0, 0.8]], [["source_thr", 0.5]]),
            ("source.probability_threshold(all removed)", [["input", [1, 1, 0]], ["source_one", 0, 0.8]], [["source_thr", 0.9]]),
            # the same fields changed by a SMALL amount (the snapshot is compared exactly)
            ("source.brightness(by 1e-7)", [["input", [1, 1, 0]]], [["source_nudge", 0, 1e-7]]),
            ("source.purity(by 1e-9)", [["input", [1, 1, 0]]], [["source_nudge", 1, 1e-9]]),
            ("source.indistinguishability(by 1e-12)", [["input", [1, 1, 0]]], [["source_nudge", 2, 1e-12]]),
            ("source.indistinguishability(by 1e-7)", [["input", [1, 1, 0]], ["source_one", 2, 0.7]], [["source_nudge", 2, 1e-7]]),
            ("source.probability_threshold(by 1e-12)", [["source_one", 0, 0.8]], [["source_nudge", 3, 1e-12]]),
            *_small_circuit_changes(),
        ]
    else:
        same += [["ps_same_object"], ["pnr_same"]]
        changes = [
            ("U_full", [], [["param", 0.5]]),
            ("U_full(in place)", [], [["mutate_circuit", "ps", 0]]),
            ("U_full(shape)", [], [["mutate_circuit", "loss", 1]]),
            ("heralds", [["circuit", "idleherald0"]], [["circuit", "idleherald1"]]),
            ("heralds", [["circuit", "subherald0"]], [["circuit", "subherald1"]]),
            ("heralds[output]", [["circuit", "herald_out0"]], [["circuit", "herald_out2"]]),
            ("n_modes+heralds(gate)", [], [["mutate_circuit", "gate", 0]]),
            ("input_state", [], [["input", [1, 1, 0]]]),
            ("post_select(object)", [["post_select", [[0], [1]]]], [["ps_equal_new"]]),
            ("post_select(object,none)", [], [["post_select", None]]),
            ("post_select.rules", [["post_select", [[0], [1]]]], [["ps_add", [[2], [0]]]]),
            ("post_select.rules(all removed)", [["post_select", [[0], [1]]]], [["ps_add", [[1], [3]]]]),
            ("photon_counting", [["input", [1, 1, 0]]], [["pnr", False]]),
            *_small_circuit_changes(),
            # functions that differ in nothing but the values they captured, in every way of making them
            *[(f"post_select(function:{style}, other captured value)", [["input", [1, 1, 0]], ["post_select_fn", {"fn": [style, pred, a, b]}]],
               [["post_select_fn", {"fn": [style, pred, a2, b2]}]])
              for i, style in enumerate(FN_PLAIN + FN_WRAPPED)
              for pred, a, b, a2, b2 in [[("has", 0, 0, 1, 0), ("has", 1, 1, 1, 0), ("coinc", 0, 1, 1, 2)][i % 3]]],
            ("post_select(function -> rules)", [["post_select_fn", {"fn": ["factory", "has", 1, 0]}]], [["post_select", [[1], [0]]]]),
            ("post_select(callable that is no function)", [["post_select_fn", {"fn": ["loop", "has", 1, 0]}]],
             [["post_select_fn", {"fn": ["partial", "has", 0, 0]}], ["post_select_fn", {"fn": ["method", "has", 0, 0]}],
              ["post_select_fn", {"fn": ["callable", "has", 0, 0]}]]),
        ]
        same += [["ps_fn_same"], ["ps_equal_new"]]
    out = []
    for i, (label, pre, change) in enumerate(changes):
        s1, s2 = same[i % len(same)], same[(i + 3) % len(same)]
        obs2 = [["sample", 11], ["sample_N_outputs", 20, 12], rd][i % 3]
        out.append((label, [["input", [1, 0, 0]], *pre, rd, *change, rd, s1, obs2, s2, rd, *change, ["sample", 5]]))
    # the mode count changes while U_full and the heralds stay (the lossy circuit and the Unitary of its full matrix):
    # the input no longer fits, the read raises and stores nothing; the old circuit comes back: nothing to recompute
    out.append(("n_modes(read raises)", [["input", [1, 1, 0]], ["circuit", "lossy"], rd, ["circuit", "lossy_dil"], rd, rd,
                                         ["circuit", "lossy"], rd, ["circuit", "lossy_dil"], ["input", [1, 1, 0, 0, 0]], rd, rd]))
    return out


def _small_circuit_changes() -> list:
    """(label, pre, change): U_full changes by a SMALL amount - Parameter steps of a generic circuit and of circuits next
    to an interference dip, a circuit assigned that differs from the last one in one value"""
    out = []
    for d in (1e-6, -1e-9, 1e-12):
        out.append((f"U_full(Parameter step {d})", [["input", [1, 1, 0]]], [["param_step", "p", d]]))
        out.append((f"U_full(assigned circuit differs by {d})", [["input", [1, 1, 0]], ["circuit_near", "generic", 0.0]],
                    [["circuit_near", "generic", d]]))
    for d in (4e-6, -1e-7, 1e-9):
        out.append((f"U_full(HOM dip, Parameter step {d})", [["input", [1, 1, 0]], ["circuit", "dip_hom"]], [["param_step", "q", d]]))
        out.append((f"U_full(dark port, Parameter step {d})", [["circuit", "dip_mzi"]], [["param_step", "r", d]]))
    out.append(("U_full(HOM dip, assigned circuit differs by 4e-6)", [["input", [1, 1, 0]], ["circuit_near", "hom", 0.0]], [["circuit_near", "hom", 4e-6]]))
    out.append(("U_full(loss value differs by 1e-9)", [["input", [1, 1, 0]], ["circuit_near", "lossy", 0.0]], [["circuit_near", "lossy", 1e-9]]))
    return out


def defaults_corpus(kind: str) -> list:
    """directed histories: the long-lived object is created on DEFAULT components (every call form); another object on
    default components is created and tuned in place between two observations; then the long-lived object's own default
    is tuned in place, another default object is tuned again, and the long-lived object is put back on a default (None)"""
    rd = ["read"]
    out = []
    if kind == "sampler":
        tunes = [("source", [0.8, 1, 1], [1, 1, 0.7]), ("source", [1, 0.9, 1], [0.9, 0.95, 0.8]), ("detector", [0.9, 0, False], [1, 0.05, True]),
                 ("backend", "slos", "slos"), ("source_thr", 0.9, 0.2)]
        for i, (what, v1, v2) in enumerate(tunes):
            for j, form in enumerate(FORMS):
                f2 = FORMS[(i + j + 1) % 3]
                back = {"source": ["source_none"], "source_thr": ["source_none"], "detector": ["detector_none"], "backend": ["backend_none"]}[what]
                out.append((f"defaults:{what}:{form}", [["ctor", form], ["input", [1, 1, 0]], rd, ["decoy", form, what, v1], rd,
                                                        ["sample_N_inputs", 20, 3], ["source_one", 0, 0.8], rd, ["decoy", f2, what, v2],
                                                        ["sample", 5], rd, back, ["decoy", form, what, v2], rd, ["sample_N_outputs", 20, 4]]))
    else:
        for form in FORMS:
            out.append((f"defaults:post_select:{form}", [["ctor", form], ["input", [1, 1, 0]], rd, ["decoy", form, "ps_add", [[0], [1]]], rd,
                                                         ["pnr", False], ["decoy", "omit", "ps_add", [[2], [0]]], rd, ["post_select", None], rd]))
    return out


def analyzer_probe(ctx: Ctx, rng) -> None:
    fam, _ = circuits(None)
    for name in ("plain", "lossy"):
        an = emulator.Analyzer(fam[name])
        s = lw.State([1, 0, 0])
        r1 = an.analyze(s, {s: lw.State([0, 1, 0])})
        r2 = an.analyze(lw.State([0, 1, 0]))
        ctx.case(("analyzer", name), True)
        ctx.count("analyzer_probe")
        if hasattr(r2, "error_rate"):
            ctx.violation("oracle: an analysis without an expected mapping carries the error_rate of the previous call",
                          {"circuit": name, "first_error_rate": float(r1.error_rate), "second": float(r2.error_rate)},
                          sig={"kind": "analyzer-stale-error-rate"})


def analyzer_histories(ctx: Ctx, rng) -> None:
    """a long-lived Analyzer under circuit / post-selection reassignment vs a fresh Analyzer per call"""
    names = ["idleherald0", "idleherald1", "subherald0", "subherald1", "plain", "lossy", "heralded_sub", "herald_out0", "herald_out2", "herald_in0", "lossy1",
             "dip_hom", "dip_mzi", near_name("lossy", 0.0), near_name("lossy", 1e-6), near_name("hom", 0.0), near_name("hom", 4e-6)]
    rulesets = [None, [[0], [0, 1]], [[1], [1]], [[0, 1], [1, 2]]]
    for _ in range(ctx.n(25, 400)):
        if ctx.out_of_time():
            break
        fam, p = circuits(None)
        an = None
        cur = {"circuit": rng.choice(names), "ps": None}
        hist = []
        psobjs = {}

        def ps_for(r):
            if is_fn(r):   # (a function: every assignment gets a function object of its own)
                return mk_ps(r)
            key = json.dumps(r)
            if key not in psobjs:
                psobjs[key] = mk_ps(r)
            return psobjs[key]

        an = emulator.Analyzer(fam[cur["circuit"]])
        bad = None
        for k in range(rng.randint(2, 6)):
            r = rng.random()
            if r < 0.45:
                cur["circuit"] = rng.choice(names)
                an.circuit = fam[cur["circuit"]]
                hist.append(["circuit", cur["circuit"]])
            elif r < 0.6:
                # rules, or a function that (mostly) differs from the last one in the captured values only
                cur["ps"] = rng.choice(rulesets) if rng.random() < 0.6 else gen_fn(rng, like=cur["ps"])
                an.post_selection = ps_for(cur["ps"])
                hist.append(["post_selection", cur["ps"]])
                ctx.count("analyzer:post_selection:" + ("function" if is_fn(cur["ps"]) else "rules"))
            elif r < 0.68:
                if rng.random() < 0.5:
                    which, d = rng.choice(["p", "q", "r"]), _small(rng)
                    fam.params[which].set(fam.params[which].get() + d)
                    hist.append(["param_step", which, d])
                    ctx.count("analyzer:small:param_step")
                else:
                    v = rng.choice([0.1, 0.5, 0.9])
                    p.set(v)
                    hist.append(["param", v])
            elif r < 0.78:
                what, m = rng.choice(EDITS), rng.randrange(2)
                edit_circuit(fam[cur["circuit"]], what, m)
                hist.append(["mutate_circuit", what, m])
            ins = rng.choice([[[1, 0, 0]], [[1, 1, 0]], [[0, 1, 1], [1, 0, 1]], [[1, 0, 0], [0, 0, 1]]])
            withexp = rng.random() < 0.4
            hist.append(["analyze", ins, withexp])

            def do(a):
                states = [lw.State(s) for s in ins]
                exp = {st: st for st in states} if withexp else None
                res = a.analyze(states, exp)
                out = {"outputs": [o.s for o in res.outputs], "array": np.array(res.array, dtype=float).tolist(),
                       "performance": float(res.performance), "has_error_rate": hasattr(res, "error_rate")}
                if withexp:
                    er = float(res.error_rate)
                    out["error_rate"] = None if np.isnan(er) else er
                return out

            fresh = emulator.Analyzer(fam[cur["circuit"]])
            if cur["ps"] is not None:
                fresh.post_selection = ps_for(cur["ps"])
            a, b = observe(lambda: do(an)), observe(lambda: do(fresh))
            if not same_obs(a, b):
                bad = (k, a, b)
                break
        ctx.case(("analyzer", json.dumps(hist)), len([h for h in hist if h[0] == "analyze"]) >= 2)
        ctx.count("analyzer_histories")
        if bad is not None:
            k, a, b = bad
            ctx.violation(f"oracle: long-lived Analyzer, call #{k}: {str(a)[:150]} but a fresh Analyzer with the same circuit and "
                          f"post-selection gives {str(b)[:150]}", {"object": "analyzer", "history": hist},
                          sig={"kind": "analyzer-history"})
            return


# ------------------------------------------------------------------------------------------------
# shared components: one Backend / Source / Detector / PostSelection object (and the circuit objects and their
# Parameter) used by SEVERAL long-lived Samplers, QuickSamplers and Analyzers in interleaved order.  Each
# observation of each object is compared with a fresh object that is given fresh components with the same values.
#
#   ["new", name, kind, circuit, base_input, cfg]   kind: sampler | quick | analyzer
#         cfg (sampler): {"b": "B0"|"B1"|"str:permanent"|"str:slos"|"own", "s": "SRC0"|"SRC1"|"own", "d": "D0"|"D1"|"own"}
#         cfg (quick): {"pnr": bool, "ps": rules|None}     cfg (analyzer): {"ps": rules|None}
#         "own" / None = the component is NOT given: the holder runs on a default component of its own.  cfg["form"] says
#         how "not given" is written: "kw" (default) None by keyword, "omit" the argument is left out, "pos" everything by position
#   ["set", name, attr, value]        attr: circuit | input | backend | source | detector | post_select | pnr
#                                     (source / detector / backend / post_select = None: back to a default of its own)
#   ["mutate", ref, value]            in place on the shared component (Backend.backend, Source / Detector attributes)
#   ["mutate_own", name, what, value] the same through one holder: sampler.source.brightness = ... etc. (a holder that was
#                                     given no component tunes ITS OWN default: nobody else may follow); what = "ps_add":
#                                     a rule added to a QuickSampler's / Analyzer's own default post-selection, if it takes rules
#   The harness records what every holder was given (`cur`, `vals`, `psrules`): the fresh object of every comparison is
#   built from this record with explicit new components, and after every step the public attributes of EVERY holder are
#   cross-checked against it ("settings of an object changed without being assigned").
#   ["mutate_ps", rules, extra]       a further rule added IN PLACE to the shared PostSelection object made from `rules`
#   ["param", v]  ["mutate_circuit", circuit, what, mode]     the shared Parameter / circuit objects
#   ["obs", name, what, ...]          read | sample seed | sample_N_outputs N seed rules | sample_N_inputs N seed rules
#                                     | analyze inputs with_expected
# Inputs are given on the three user modes of the family and padded with zeros to the circuit's input_modes.
# A step that does not apply is skipped, so every sub-list is a history.

SH_CIRCUITS = ["idleherald0", "idleherald1", "subherald0", "subherald1", "plain", "lossy", "lossy_dil", "heralded_sub", "swap", "herald_out0",
               "herald_out2", "herald_in0", "lossy1"]
SH_INPUTS = [[1, 0, 0], [1, 1, 0], [0, 1, 1], [2, 0, 0], [0, 0, 0], [1, 1, 1], [1, 0, 1]]
REJECTS = [["backend", "clifford"], ["backend", "bogus"], ["source", ["brightness", 1.5]], ["source", ["purity", -0.1]],
           ["source", ["indistinguishability", 2]], ["detector", ["efficiency", 1.5]], ["detector", ["p_dark", -0.2]]]


def _reject_step(rng, name: str) -> list:
    return ["reject_own", name, *rng.choice(REJECTS)]


SH_SRC = [[1, 1, 1], [0.8, 1, 1], [1, 0.9, 1], [1, 1, 0.7], [0.9, 0.95, 0.8]]
SH_DET = [[1, 0, True], [1, 0, False], [0.9, 0, True], [0.85, 0, False], [1, 0.05, True]]
SH_RULES = [None, [[0], [1]], [[0, 1], [1, 2]], [[2], [0]], [[1], [0, 1]]]
SH_BREFS = ["B0", "B0", "B1", "str:permanent", "str:slos"]
SH_INIT = {"B0": "permanent", "B1": "slos", "SRC0": [1, 1, 1], "SRC1": [0.9, 1, 1], "D0": [1, 0, True], "D1": [0.9, 0, False]}


def _mk_source(v):
    return emulator.Source(brightness=v[0], purity=v[1], indistinguishability=v[2])


def _mk_detector(v):
    return emulator.Detector(efficiency=v[0], p_dark=v[1], photon_counting=v[2])


def _set_source(src, v) -> None:
    src.brightness, src.purity, src.indistinguishability = v


def _set_detector(det, v) -> None:
    det.efficiency, det.p_dark, det.photon_counting = v


def run_shared(ctx: Ctx, steps: list, count: bool = False, corr: bool = True) -> list[str]:
    """oracle and correspondence on one shared-components history: every Sampler on the cache model of its own,
    all QuickSamplers together on the world model (they share PostSelection objects)"""
    tk = {"s": {}, "w": WorldTracker()}
    probs = _run_shared(ctx, steps, tk)
    if corr:
        cp = []
        for name, tr in tk["s"].items():
            cp += [q.replace("long-lived sampler", f"long-lived sampler {name}") for q in tr.compare(ctx)]
        cp += tk["w"].compare(ctx)
        probs += sorted(cp, key=lambda q: int(q.split("step #")[1].split(":")[0]))[:1]
    if count:
        for r in [r for tr in tk["s"].values() for r in tr.reads]:
            ctx.count("corr:shared:sampler:read:" + ("raised" if r["raised"] else "recomputed" if r["recomputed"] else "stored"))
        for r in tk["w"].reads:
            ctx.count("corr:shared:quick:read:" + ("raised" if r["raised"] else "recomputed" if r["recomputed"] else "stored"))
        for h in tk["w"].hist:
            ctx.count(f"corr:shared:world:{h[0]}")
    return probs


def _run_shared(ctx: Ctx, steps: list, tk: dict) -> list[str]:
    _pristine_start()
    fam, p = circuits(None)
    vals = json.loads(json.dumps(SH_INIT))
    comp = {"B0": emulator.Backend(vals["B0"]), "B1": emulator.Backend(vals["B1"]), "SRC0": _mk_source(vals["SRC0"]),
            "SRC1": _mk_source(vals["SRC1"]), "D0": _mk_detector(vals["D0"]), "D1": _mk_detector(vals["D1"])}
    psobjs: dict = {}
    psrules: dict = {}
    objs: dict = {}
    gates: dict = {}

    def ps_for(r):
        # (a function {"fn": spec, "k": i}: ONE function object per (spec, k), shared by everybody who is given it; another
        # k = another function object made in the same way from the same values)
        key = json.dumps(r)
        if key not in psobjs:
            psobjs[key] = mk_ps(r)
            psrules[key] = [] if is_fn(r) else [r]
        return psobjs[key]

    def fresh_ps(r):
        """a new PostSelection object holding the rules that the shared one made from `r` holds now (a function: a new
        function object made in the same way from the same values)"""
        if r is None:
            return None
        if is_fn(r):
            return mk_fn(r["fn"])
        ps = lw.PostSelection()
        for x in psrules.get(json.dumps(r), [r]):
            ps.add(tuple(x[0]), tuple(x[1]))
        return ps

    def pad(base, c):
        return (list(base) + [0] * 8)[: c.input_modes]

    def eff(o, what):
        """the value that the holder's component has now"""
        cur = o["cur"]
        ref = cur[what]
        if what == "b":
            return ref[4:] if ref.startswith("str:") else vals[ref]
        return cur["own_" + what] if ref == "own" else vals[ref]

    def fresh(o):
        cur = o["cur"]
        c = fam[cur["circuit"]]
        if o["kind"] == "sampler":
            return emulator.Sampler(c, lw.State(cur["input"]), source=_mk_source(eff(o, "s")),
                                    detector=_mk_detector(eff(o, "d")), backend=emulator.Backend(eff(o, "b")))
        if o["kind"] == "quick":
            return emulator.QuickSampler(c, lw.State(cur["input"]), photon_counting=cur["pnr"],
                                         post_select=_explicit_ps(own_ps(o)))
        a = emulator.Analyzer(c)
        a.post_selection = _explicit_ps(own_ps(o))
        return a

    def own_ps(o):
        """a new PostSelection object with the rules that the holder's post-selection is recorded to hold now"""
        cur = o["cur"]
        if cur["ps"] is not None:
            return fresh_ps(cur["ps"])
        if not cur.get("own_rules"):
            return None
        ps = lw.PostSelection()
        for x in cur["own_rules"]:
            ps.add(tuple(x[0]), tuple(x[1]))
        return ps

    def intended(o) -> dict:
        """the settings of a holder according to the harness's record of the history"""
        cur = o["cur"]
        if o["kind"] == "sampler":
            return _intended("sampler", src=eff(o, "s"), thr=0, det=eff(o, "d"), backend=eff(o, "b"), inp=cur["input"])
        rules = (cur.get("own_rules", []) if cur["ps"] is None else [] if is_fn(cur["ps"]) else
                 psrules.get(json.dumps(cur["ps"]), [cur["ps"]]))
        return _intended(o["kind"], pnr=cur.get("pnr"), rules=rules, inp=cur.get("input"))

    def unassigned_change(k, st) -> list[str]:
        """cross-check after every step: what EVERY holder reports through its public attributes is what the harness
        recorded for it"""
        for name, o in objs.items():
            bad = _reported_vs_intended(o["kind"], o["obj"], intended(o))
            if bad:
                return [f"oracle: step #{k} {st}: settings of an object changed without being assigned: {o['kind']} {name} "
                        f"(created {SH_FORM_TEXT[o['form']]}) reports {bad[0]} = {bad[1]!r} but the last value given to THIS object "
                        f"(passed / assigned / changed through it or through a component it was given) is {bad[2]!r}"]
        return []

    for k, st in enumerate(steps):
        op = st[0]
        try:
            if op == "new":
                _, name, kind, cname, base, cfg = st
                c = fam[cname]
                cur = {"circuit": cname, "input": pad(base, c)}
                # cfg["form"]: "kw" (default) a component that is not given is passed as None by keyword; "omit": its
                # argument is left out; "pos": all arguments by position.  A component "own" / backend "own" = not given.
                form = cfg.get("form", "kw")
                if kind == "sampler":
                    cur.update({"b": "str:permanent" if cfg["b"] == "own" else cfg["b"], "s": cfg["s"], "d": cfg["d"],
                                "own_s": [1, 1, 1], "own_d": [1, 0, True]})
                    b = None if cfg["b"] == "own" else cfg["b"][4:] if cfg["b"].startswith("str:") else comp[cfg["b"]]
                    given = {"source": comp.get(cfg["s"]), "detector": comp.get(cfg["d"]), "backend": b}
                    if form == "pos":
                        obj = emulator.Sampler(c, lw.State(cur["input"]), *given.values())
                    else:
                        obj = emulator.Sampler(c, lw.State(cur["input"]),
                                               **{a: x for a, x in given.items() if form != "omit" or x is not None})
                elif kind == "quick":
                    cur.update({"pnr": cfg["pnr"], "ps": cfg["ps"], "own_rules": []})
                    ps = None if cfg["ps"] is None else ps_for(cfg["ps"])
                    if form == "pos":
                        obj = emulator.QuickSampler(c, lw.State(cur["input"]), cfg["pnr"], ps)
                    elif form == "omit":
                        kw = ({} if cfg["pnr"] else {"photon_counting": False}) | ({} if ps is None else {"post_select": ps})
                        obj = emulator.QuickSampler(c, lw.State(cur["input"]), **kw)
                    else:
                        obj = emulator.QuickSampler(c, lw.State(cur["input"]), photon_counting=cfg["pnr"], post_select=ps)
                else:
                    cur.update({"ps": cfg["ps"], "own_rules": []})
                    obj = emulator.Analyzer(c)
                    if cfg["ps"] is not None:
                        obj.post_selection = ps_for(cfg["ps"])
                    elif form != "omit":
                        obj.post_selection = None
                objs[name] = {"kind": kind, "obj": obj, "cur": cur, "form": form}
                bad = unassigned_change(k, st)
                if bad:
                    return bad
                continue
            if op == "param":
                p.set(st[1])
                continue
            if op == "param_step":
                fam.params[st[1]].set(fam.params[st[1]].get() + st[2])
                continue
            if op == "mutate_ps":
                if st[1] is not None and st[2] is not None and not is_fn(st[1]) and st[2] not in psrules.get(json.dumps(st[1]), [st[1]]):
                    try:
                        ps_for(st[1]).add(tuple(st[2][0]), tuple(st[2][1]))
                    except ValueError:  # (a mode may carry one rule only: the object refuses and stays as it is)
                        ctx.count("shared:mutate_ps_refused")
                    else:
                        psrules[json.dumps(st[1])].append(st[2])
                    bad = unassigned_change(k, st)
                    if bad:
                        return bad
                continue
            if op == "mutate_circuit":
                if st[2] != "gate" or gates.get(st[1], 0) < 2:
                    gates[st[1]] = gates.get(st[1], 0) + (st[2] == "gate")
                    edit_circuit(fam[st[1]], st[2], st[3])
                continue
            if op == "mutate":
                ref, v = st[1], st[2]
                if ref.startswith("B"):
                    comp[ref].backend = v
                elif ref.startswith("SRC"):
                    _set_source(comp[ref], v)
                else:
                    _set_detector(comp[ref], v)
                vals[ref] = v
                bad = unassigned_change(k, st)
                if bad:
                    return bad
                continue
            o = objs.get(st[1])
            if o is None:
                continue
            obj, cur, kind = o["obj"], o["cur"], o["kind"]
            if op == "set":
                attr, v = st[2], st[3]
                if attr == "circuit":
                    obj.circuit = fam[v]
                    cur["circuit"] = v
                elif attr == "input" and kind != "analyzer":
                    new = pad(v, fam[cur["circuit"]])
                    obj.input_state = lw.State(new)
                    cur["input"] = new
                elif attr == "backend" and kind == "sampler":
                    if v is None:  # back to a default Backend of its own
                        obj.backend = None
                        cur["b"] = "str:permanent"
                    else:
                        obj.backend = v[4:] if v.startswith("str:") else comp[v]
                        cur["b"] = v
                elif attr in ("source", "detector") and kind == "sampler" and v is None:
                    # back to a default component of its own: pristine whatever was done to other objects' defaults
                    setattr(obj, attr, None)
                    cur[attr[0]], cur["own_" + attr[0]] = "own", ([1, 1, 1] if attr == "source" else [1, 0, True])
                elif attr == "source" and kind == "sampler":
                    if isinstance(v, list):  # a new private Source with these values
                        obj.source = _mk_source(v)
                        cur["s"], cur["own_s"] = "own", v
                    else:
                        obj.source = comp[v]
                        cur["s"] = v
                elif attr == "detector" and kind == "sampler":
                    if isinstance(v, list):
                        obj.detector = _mk_detector(v)
                        cur["d"], cur["own_d"] = "own", v
                    else:
                        obj.detector = comp[v]
                        cur["d"] = v
                elif attr == "post_select" and kind == "quick":
                    obj.post_select = None if v is None else ps_for(v)
                    cur["ps"], cur["own_rules"] = v, []
                elif attr == "post_select" and kind == "analyzer":
                    obj.post_selection = None if v is None else ps_for(v)
                    cur["ps"], cur["own_rules"] = v, []
                elif attr == "pnr" and kind == "quick":
                    obj.photon_counting = v
                    cur["pnr"] = v
                bad = unassigned_change(k, st)
                if bad:
                    return bad
                continue
            if op == "reject_own":
                # an assignment the component REFUSES, made in place through the holder (backend "clifford" / unknown,
                # brightness 1.5, efficiency -0.2 ...): the exception is caught (notebook use) and the holder keeps being
                # used; a refused assignment changes nothing, which the cross-check of every holder's public settings
                # against the harness's record verifies right away and every later read against a fresh object
                what, v = st[2], st[3]
                if kind != "sampler":
                    continue
                try:
                    if what == "backend":
                        obj.backend.backend = v
                    elif what == "source":
                        setattr(obj.source, v[0], v[1])
                    else:
                        setattr(obj.detector, v[0], v[1])
                except Exception:  # noqa: BLE001
                    ctx.count("shared:refused_in_place_assignment")
                bad = unassigned_change(k, st)
                if bad:
                    return bad
                continue
            if op == "mutate_own":
                what, v = st[2], st[3]
                if what == "ps_add":
                    # a rule added in place to the holder's OWN default post-selection (if that can take rules at all)
                    if kind != "sampler" and cur["ps"] is None and v not in cur["own_rules"] and _tune_in_place(ctx, obj, kind, what, v):
                        cur["own_rules"] = [*cur["own_rules"], v]
                        bad = unassigned_change(k, st)
                        if bad:
                            return bad
                    continue
                if kind != "sampler":
                    continue
                if what == "backend":
                    obj.backend.backend = v
                    if cur["b"].startswith("str:"):
                        cur["b"] = f"str:{v}"
                    else:
                        vals[cur["b"]] = v
                elif what == "source":
                    _set_source(obj.source, v)
                    if cur["s"] == "own":
                        cur["own_s"] = v
                    else:
                        vals[cur["s"]] = v
                else:
                    _set_detector(obj.detector, v)
                    if cur["d"] == "own":
                        cur["own_d"] = v
                    else:
                        vals[cur["d"]] = v
                bad = unassigned_change(k, st)
                if bad:
                    return bad
                continue
            if op != "obs":
                continue
            note = unassigned_change(k, st)
            c = fam[cur["circuit"]]
            what = st[2]
            if note and (what == "analyze") != (kind == "analyzer") or note and kind != "analyzer" and len(cur["input"]) != c.input_modes:
                return note  # (the observation does not apply to this holder: the cross-check alone)
            if kind == "analyzer":
                if what != "analyze":
                    continue
                ins, withexp = [pad(b, c) for b in st[3]], st[4]

                def do(a, ins=ins, withexp=withexp):
                    states = [lw.State(x) for x in ins]
                    exp = {x: x for x in states} if withexp else None
                    res = a.analyze(states, exp)
                    out = {"outputs": [x.s for x in res.outputs], "array": np.array(res.array, dtype=float).tolist(),
                           "performance": float(res.performance), "has_error_rate": hasattr(res, "error_rate")}
                    if withexp:
                        er = float(res.error_rate)
                        out["error_rate"] = None if np.isnan(er) else er
                    return out

                a, fo = observe(lambda: do(obj)), observe(lambda: do(fresh(o)))
            else:
                if len(cur["input"]) != c.input_modes or what == "analyze":
                    ctx.count("shared:obs_skipped_input_length")
                    continue
                if what == "sample_N_inputs" and kind != "sampler":
                    what = "sample_N_outputs"
                if what == "read":
                    def act(x, shared_ps):
                        return norm_dist(x.probability_distribution)
                elif what == "sample":
                    def act(x, shared_ps, seed=st[3]):
                        pyrandom.seed(seed)
                        return tuple(x.sample().s)
                else:
                    n, seed, rules = st[3], st[4], st[5]

                    def act(x, shared_ps, what=what, n=n, seed=seed, rules=rules):
                        kw = {}
                        if kind == "sampler" and rules is not None:
                            kw["post_select"] = ps_for(rules) if shared_ps else fresh_ps(rules)
                        f = x.sample_N_outputs if what == "sample_N_outputs" else x.sample_N_inputs
                        return sorted((tuple(t.s), m) for t, m in f(n, seed=seed, **kw).items())
                # the correspondence: abstract configuration now, and whether this observation recomputes
                if kind == "sampler":
                    tr = tk["s"].setdefault(st[1], Tracker("sampler"))
                    cfg = tr.snapshot(obj)
                else:
                    quick = {nm: x["obj"] for nm, x in objs.items() if x["kind"] == "quick"}
                    ready = tk["w"].prepare(quick)
                with SEAMS.window() as w:
                    a = observe(lambda: act(obj, True))
                if _refused_before_read(a, w):
                    ctx.count("corr:call_refused_before_the_distribution_was_read")
                elif kind == "sampler":
                    tr.observed(k, obj, cfg, w)
                elif ready:
                    tk["w"].observed(k, st[1], quick, w)
                fo = observe(lambda: act(fresh(o), False))
            if a[0] == "raise":
                ctx.count("shared:obs_raised:" + str(a[1]))
            if not same_obs(a, fo):
                shown = {x: (eff(o, x) if kind == "sampler" else None) for x in ("b", "s", "d")} if kind == "sampler" else {}
                return [f"oracle: step #{k} {st}: long-lived {kind} {st[1]} gives {str(a)[:140]} but a fresh object with the same "
                        f"settings ({ {**{x: y for x, y in cur.items() if not x.startswith('own_')}, **shown} }) gives {str(fo)[:140]}"
                        + ("; " + note[0].split(": ", 2)[2] if note else "")]
            if note:
                return note
        except Exception as e:  # noqa: BLE001
            return [f"oracle: step #{k} {st} raised {exc_class(e)}: {str(e)[:80]}"]
    return []


def _shared_corpus() -> list:
    out = []
    smp = lambda b, s="own", d="own": {"b": b, "s": s, "d": d}  # noqa: E731
    rd = lambda n: ["obs", n, "read"]  # noqa: E731
    # one Backend object, circuits related as lossy circuit / Unitary of its U_full (same photons, same columns),
    # same matrix with other herald photons, herald on another mode - in both orders, first holder read again
    pairs = [("lossy", "lossy_dil"), ("idleherald0", "idleherald1"), ("subherald0", "subherald1"), ("subherald1", "idleherald0"), ("herald_out0", "herald_out2"), ("plain", "swap"),
             ("herald_out0", "herald_in0")]
    for a, b in pairs + [(y, x) for x, y in pairs]:
        for ref in ("B0", "B1"):
            for base in ([1, 1, 0], [2, 0, 0]):
                out.append([["new", "S1", "sampler", a, base, smp(ref, "SRC0", "D0")], rd("S1"),
                            ["new", "S2", "sampler", b, base, smp(ref, "SRC0", "D0")], rd("S2"), rd("S1"),
                            ["obs", "S2", "sample_N_outputs", 20, 5, None], ["obs", "S1", "sample_N_inputs", 20, 6, None]])
    # one living Sampler moved between the related circuits while a second one holds the same Backend
    out.append([["new", "S1", "sampler", "lossy", [1, 1, 0], smp("B0")], rd("S1"), ["new", "S2", "sampler", "plain", [1, 1, 0], smp("B0")],
                rd("S2"), ["set", "S2", "circuit", "lossy_dil"], ["set", "S2", "input", [1, 1, 0]], rd("S2"), rd("S1")])
    # a Source shared by two Samplers is changed in place / through one holder; both follow, a third with its own does not
    for how in (["mutate", "SRC0", [0.8, 1, 1]], ["mutate_own", "S1", "source", [1, 1, 0.7]]):
        out.append([["new", "S1", "sampler", "plain", [1, 1, 0], smp("B0", "SRC0")], ["new", "S2", "sampler", "lossy", [1, 1, 0], smp("B0", "SRC0")],
                    ["new", "S3", "sampler", "plain", [1, 1, 0], smp("str:permanent")], rd("S1"), rd("S2"), rd("S3"), how,
                    rd("S2"), rd("S3"), rd("S1"), ["obs", "S2", "sample", 3]])
    # the Sampler's OWN default components changed in place: nobody else may follow
    out.append([["new", "S1", "sampler", "plain", [1, 1, 0], smp("str:permanent")], ["new", "S2", "sampler", "plain", [1, 1, 0], smp("str:permanent")],
                rd("S1"), rd("S2"), ["mutate_own", "S1", "source", [0.8, 1, 1]], ["mutate_own", "S1", "detector", [0.9, 0, False]],
                ["mutate_own", "S1", "backend", "slos"], rd("S2"), ["obs", "S2", "sample_N_inputs", 20, 3, None], rd("S1"),
                ["obs", "S1", "sample_N_inputs", 20, 3, None]])
    # assignments the components refuse, made in place through a holder: nothing changes, for the holder and for a second one
    for rej in REJECTS:
        out.append([["new", "S1", "sampler", "plain", [1, 1, 0], smp("B0", "SRC0", "D0")], rd("S1"),
                    ["new", "S2", "sampler", "lossy", [1, 1, 0], smp("B0", "SRC0", "D0")], ["reject_own", "S1", *rej], rd("S1"), rd("S2"),
                    ["obs", "S1", "sample_N_inputs", 20, 3, None], ["mutate_own", "S1", "backend", "slos"], ["reject_own", "S2", *rej],
                    rd("S2"), rd("S1")])
    # DEFAULT COMPONENTS ARE PER OBJECT: holders created without source / detector / backend (argument left out, None, None
    # by position), before and after ONE of them tunes its own default in place; a holder put back on a default (= None)
    dflt = lambda form: {"b": "own", "s": "own", "d": "own", "form": form}  # noqa: E731
    tunes = [("source", [0.8, 1, 1]), ("source", [1, 1, 0.7]), ("source", [1, 0.9, 1]), ("detector", [0.9, 0, False]),
             ("detector", [1, 0.05, True]), ("backend", "slos")]
    for i, (what, v) in enumerate(tunes):
        smp_obs = ["sample_N_inputs", 20, 3, None] if what == "detector" else ["sample_N_outputs", 20, 3, None]
        for j, form in enumerate(("kw", *FORMS)):
            # bystander created before, observed before and after; a third created afterwards.  All in the SAME call form
            # (a default that is shared per call form shows only between such objects), or (j == 0) in three different ones
            f1, f2, f3 = (FORMS[i % 3], FORMS[(i + 1) % 3], FORMS[(i + 2) % 3]) if j == 0 else (form, form, form)
            out.append([["new", "S1", "sampler", "plain", [1, 1, 0], dflt(f1)], ["new", "S2", "sampler", "lossy", [1, 1, 0], dflt(f2)], rd("S2"),
                        ["mutate_own", "S1", what, v], rd("S2"), ["obs", "S2", *smp_obs], ["new", "S3", "sampler", "plain", [1, 1, 0], dflt(f3)],
                        rd("S3"), ["obs", "S3", *smp_obs], rd("S1"), ["obs", "S1", *smp_obs]])
        # the first object ever made is tuned before anything was read; later objects of every call form are pristine
        f2 = FORMS[(i + 1) % 3]
        out.append([["new", "S1", "sampler", "plain", [1, 1, 0], dflt(f2)], ["mutate_own", "S1", what, v],
                    *[x for j, f in enumerate(("kw", *FORMS)) for x in (["new", f"T{j}", "sampler", "plain", [1, 1, 0], dflt(f)], rd(f"T{j}"))],
                    ["obs", "T1", *smp_obs], ["obs", "T2", *smp_obs], ["obs", "T3", *smp_obs], rd("S1")])
        # a holder of an explicit / shared component is put back on a default of its own after another default was tuned
        out.append([["new", "S1", "sampler", "plain", [1, 1, 0], dflt(FORMS[(i + 2) % 3])], ["new", "S2", "sampler", "plain", [1, 1, 0], smp("B1", "SRC1", "D1")],
                    rd("S2"), ["mutate_own", "S1", what, v], ["set", "S2", what, None], rd("S2"), ["obs", "S2", *smp_obs],
                    ["set", "S1", what, None], rd("S1"), ["obs", "S1", *smp_obs]])
    # only one of the three components is a default (the others shared / explicit), in every call form
    for i, form in enumerate(("kw", *FORMS)):
        out.append([["new", "S1", "sampler", "plain", [1, 1, 0], {"b": "B0", "s": "own", "d": "D0", "form": form}],
                    ["new", "S2", "sampler", "plain", [1, 1, 0], {"b": "str:permanent", "s": "own", "d": "own", "form": form}],
                    ["new", "S3", "sampler", "lossy", [1, 1, 0], {"b": "own", "s": "SRC0", "d": "own", "form": form}], rd("S2"), rd("S3"),
                    ["mutate_own", "S1", "source", SH_SRC[1 + i]], rd("S2"), rd("S3"), ["mutate_own", "S3", "detector", [0.85, 0, False]],
                    ["mutate_own", "S3", "backend", "slos"], ["obs", "S2", "sample_N_inputs", 20, 5, None], ["obs", "S1", "sample_N_inputs", 20, 5, None],
                    rd("S1"), rd("S3")])
    # QuickSamplers / Analyzers on default post-selection and photon counting, one of them re-configured
    for i, form in enumerate(FORMS):
        q = lambda pnr=True, ps=None: {"pnr": pnr, "ps": ps, "form": form}  # noqa: E731, B023
        out.append([["new", "Q1", "quick", "plain", [1, 1, 0], q()], ["new", "Q2", "quick", "plain", [1, 1, 0], q()], rd("Q2"),
                    ["mutate_own", "Q1", "ps_add", [[0], [1]]], ["set", "Q1", "pnr", False], rd("Q2"), ["obs", "Q2", "sample", 3],
                    ["new", "Q3", "quick", "lossy", [1, 1, 0], q()], rd("Q3"), ["new", "A1", "analyzer", "plain", [1, 1, 0], {"ps": None, "form": form}],
                    ["obs", "A1", "analyze", [[1, 1, 0]], False], ["mutate_own", "A1", "ps_add", [[1], [0, 1]]],
                    ["new", "A2", "analyzer", "plain", [1, 1, 0], {"ps": None, "form": form}], ["obs", "A2", "analyze", [[1, 1, 0]], True],
                    ["set", "Q1", "post_select", [[0], [1]]], ["set", "Q1", "post_select", None], rd("Q1"), rd("Q2")])
    # a Detector shared by two Samplers changed in place between sampling calls
    out.append([["new", "S1", "sampler", "herald_out0", [1, 1, 0], smp("B0", "own", "D0")],
                ["new", "S2", "sampler", "herald_out2", [1, 1, 0], smp("B1", "own", "D0")],
                ["obs", "S1", "sample_N_inputs", 20, 1, None], ["obs", "S2", "sample_N_inputs", 20, 1, None],
                ["mutate", "D0", [0.85, 0, False]], ["obs", "S2", "sample_N_inputs", 20, 2, None], ["obs", "S1", "sample", 4],
                ["obs", "S1", "sample_N_outputs", 20, 2, [[0], [1]]]])
    # a shared Backend object switched in place: every holder follows
    out.append([["new", "S1", "sampler", "lossy", [1, 1, 0], smp("B0")], ["new", "S2", "sampler", "idleherald1", [1, 0, 0], smp("B0")], rd("S1"),
                rd("S2"), ["mutate", "B0", "slos"], rd("S2"), rd("S1"), ["mutate_own", "S2", "backend", "permanent"], rd("S1"), rd("S2")])
    # one PostSelection object and one circuit object used by a Sampler, a QuickSampler and an Analyzer in turn;
    # the circuit is replaced / extended in place between the calls
    r = [[0], [1]]
    for second in ("herald_out2", "herald_in0", "idleherald1", "subherald1"):
        out.append([["new", "Q1", "quick", "herald_out0", [1, 1, 0], {"pnr": True, "ps": r}], ["new", "A1", "analyzer", "herald_out0", [1, 1, 0], {"ps": r}],
                    ["new", "S1", "sampler", "herald_out0", [1, 1, 0], smp("B0")], rd("Q1"), ["obs", "A1", "analyze", [[1, 1, 0]], False],
                    ["obs", "S1", "sample_N_outputs", 20, 7, r], ["set", "A1", "circuit", second], ["set", "Q1", "circuit", second],
                    ["set", "S1", "circuit", second], ["obs", "A1", "analyze", [[1, 1, 0]], True], ["obs", "Q1", "sample", 5], rd("Q1"),
                    ["obs", "S1", "sample_N_outputs", 20, 7, r], rd("S1")])
    # a rule added in place to the PostSelection object that a QuickSampler, an Analyzer and a Sampler's calls share
    for extra in ([[1], [0, 1]], [[2], [0]]):
        out.append([["new", "Q1", "quick", "plain", [1, 1, 0], {"pnr": True, "ps": r}], ["new", "A1", "analyzer", "plain", [1, 1, 0], {"ps": r}],
                    ["new", "S1", "sampler", "plain", [1, 1, 0], smp("B0")], ["obs", "Q1", "sample", 3], ["obs", "A1", "analyze", [[1, 1, 0]], False],
                    ["obs", "S1", "sample_N_outputs", 20, 7, r], ["mutate_ps", r, extra], ["obs", "Q1", "sample", 3], rd("Q1"),
                    ["obs", "A1", "analyze", [[1, 1, 0]], True], ["obs", "S1", "sample_N_outputs", 20, 7, r],
                    ["obs", "S1", "sample_N_inputs", 20, 7, r], ["obs", "Q1", "sample_N_outputs", 20, 1, None]])
    # the number of loss elements of the circuit that a Sampler, a QuickSampler and an Analyzer hold changes in place
    # (U_full grows, modes / heralds / input stay), or a circuit of the same modes with another loss count is assigned
    for cname, what in (("plain", "loss"), ("plain", "bs_loss"), ("lossy1", "loss"), ("lossy", "lossy_sub"), ("swap", "ps_loss"),
                        ("herald_out0", "loss"), ("idleherald1", "lossy_sub"), ("heralded_sub", "bs_loss")):
        base = [1, 1, 0]
        out.append([["new", "Q1", "quick", cname, base, {"pnr": True, "ps": None}], ["new", "S1", "sampler", cname, base, smp("B0")],
                    ["new", "A1", "analyzer", cname, base, {"ps": None}], rd("Q1"), ["obs", "S1", "sample", 3], ["obs", "A1", "analyze", [base], False],
                    ["mutate_circuit", cname, what, 0], ["obs", "Q1", "sample", 3], rd("Q1"), ["obs", "A1", "analyze", [base], False], rd("S1"),
                    ["mutate_circuit", cname, "loss", 1], ["obs", "Q1", "sample_N_outputs", 20, 4, None], ["obs", "S1", "sample_N_inputs", 20, 4, None],
                    ["obs", "A1", "analyze", [base], True]])
    for a, b in (("plain", "lossy1"), ("lossy1", "lossy"), ("lossy", "plain"), ("lossy1", "swap")):
        out.append([["new", "Q1", "quick", a, [1, 1, 0], {"pnr": True, "ps": None}], ["new", "S1", "sampler", a, [1, 1, 0], smp("B0")], rd("Q1"), rd("S1"),
                    ["set", "Q1", "circuit", b], ["set", "S1", "circuit", b], ["obs", "Q1", "sample", 9], rd("Q1"), rd("S1")])
    # THE SIZE OF A CHANGE: a Sampler, a second Sampler and a QuickSampler on one circuit next to an interference dip (and on
    # a generic one) share the Parameter, the Source and the Detector; the Parameter takes a small step, the shared Source /
    # Detector is moved by a little in place, a circuit that differs in one value by a little is assigned - everybody follows
    coinc = {"fn": ["factory", "coinc", 0, 1]}
    for cname, which, base, d1, d2 in (("dip_hom", "q", [1, 1, 0], 4e-6, -1e-9), ("dip_mzi", "r", [1, 0, 0], 4e-6, 1e-7),
                                       ("dip_mzi", "r", [1, 1, 0], -1e-6, 1e-12), ("plain", "p", [1, 1, 0], 1e-6, 1e-9),
                                       ("lossy", "p", [1, 1, 0], -1e-7, 1e-12)):
        out.append([["new", "S1", "sampler", cname, base, smp("B0", "SRC0", "D0")], ["new", "S2", "sampler", cname, base, smp("B1", "SRC0", "D0")],
                    ["new", "Q1", "quick", cname, base, {"pnr": True, "ps": None}], rd("S1"), rd("S2"), rd("Q1"), ["param_step", which, d1],
                    rd("S2"), rd("Q1"), ["obs", "S1", "sample_N_outputs", 2000, 3, coinc], rd("S1"), ["mutate", "SRC0", [1 - 1e-7, 1, 1]],
                    rd("S1"), ["obs", "S2", "sample_N_outputs", 2000, 3, coinc], ["param_step", which, d2], ["obs", "Q1", "sample_N_outputs", 2000, 4, None],
                    rd("Q1"), rd("S2"), ["mutate", "D0", [1 - 1e-9, 0, True]], ["obs", "S1", "sample_N_inputs", 200, 5, None],
                    ["mutate_own", "S2", "source", [1 - 1e-7, 1 - 1e-9, 1]], rd("S1"), rd("S2")])
    for base_c, inp, d in (("hom", [1, 1, 0], 4e-6), ("mzi", [1, 0, 0], -1e-6), ("generic", [1, 1, 0], 1e-9), ("lossy", [1, 1, 0], 1e-12)):
        a, b = near_name(base_c, 0.0), near_name(base_c, d)
        out.append([["new", "S1", "sampler", a, inp, smp("B0")], ["new", "Q1", "quick", a, inp, {"pnr": True, "ps": None}],
                    ["new", "A1", "analyzer", a, inp, {"ps": None}], rd("S1"), rd("Q1"), ["obs", "A1", "analyze", [inp], False],
                    ["set", "S1", "circuit", b], ["set", "Q1", "circuit", b], ["set", "A1", "circuit", b], rd("S1"), ["obs", "Q1", "sample_N_outputs", 2000, 1, None],
                    rd("Q1"), ["obs", "A1", "analyze", [inp], True], ["obs", "S1", "sample_N_outputs", 2000, 1, coinc],
                    ["set", "S1", "circuit", a], rd("S1")])
    # POST-SELECTION GIVEN AS FUNCTIONS that look alike: ONE function object F given to two QuickSamplers, an Analyzer and a
    # Sampler's calls; G differs from F in the captured value only; F' is another object with F's values; F assigned again
    for i, style in enumerate(FN_PLAIN + FN_WRAPPED):
        pred, a, b, a2, b2 = [("has", 0, 0, 1, 0), ("has", 1, 1, 1, 0), ("coinc", 0, 1, 1, 2)][i % 3]
        f, g, f2 = {"fn": [style, pred, a, b]}, {"fn": [style, pred, a2, b2]}, {"fn": [style, pred, a, b], "k": 1}
        cname = ["plain", "lossy", "herald_out0"][i % 3]
        out.append([["new", "Q1", "quick", cname, [1, 1, 0], {"pnr": True, "ps": f}], ["new", "Q2", "quick", cname, [1, 1, 0], {"pnr": True, "ps": f}],
                    ["new", "A1", "analyzer", cname, [1, 1, 0], {"ps": f}], ["new", "S1", "sampler", cname, [1, 1, 0], smp("B0")],
                    rd("Q1"), rd("Q2"), ["obs", "A1", "analyze", [[1, 1, 0]], False], ["obs", "S1", "sample_N_outputs", 50, 7, f],
                    ["set", "Q1", "post_select", g], rd("Q1"), rd("Q2"), ["obs", "Q1", "sample", 3], ["obs", "S1", "sample_N_outputs", 50, 7, g],
                    ["obs", "S1", "sample_N_inputs", 50, 7, g], ["obs", "S1", "sample_N_inputs", 50, 7, f],
                    ["set", "A1", "post_select", g], ["obs", "A1", "analyze", [[1, 1, 0]], True], ["set", "Q2", "post_select", f2], rd("Q2"),
                    ["set", "Q1", "post_select", f], rd("Q1"), ["obs", "Q1", "sample_N_outputs", 50, 2, None], ["set", "Q2", "post_select", g],
                    ["obs", "Q2", "sample_N_outputs", 50, 2, None], ["set", "A1", "post_select", f2], ["obs", "A1", "analyze", [[1, 1, 0]], False]])
    for cname in ("plain", "lossy", "herald_out0"):
        out.append([["new", "S1", "sampler", cname, [1, 0, 1], smp("B1")], ["new", "Q1", "quick", cname, [1, 0, 1], {"pnr": True, "ps": None}],
                    ["new", "A1", "analyzer", cname, [1, 0, 1], {"ps": None}], rd("S1"), ["obs", "Q1", "sample", 2],
                    ["obs", "A1", "analyze", [[1, 0, 1]], False], ["mutate_circuit", cname, "gate", 1], rd("S1"), ["obs", "Q1", "sample", 2],
                    ["obs", "A1", "analyze", [[1, 0, 1]], False], ["param", 0.9], ["obs", "Q1", "sample_N_outputs", 20, 1, None], rd("S1")])
    return out


SHARED_CORPUS = _shared_corpus()


def _nudged(rng, v: list) -> list:
    """source values [brightness, purity, indistinguishability] / detector values [efficiency, p_dark, photon_counting] with
    ONE of them moved by a small amount (1e-3 ... 1e-12)"""
    v, d = list(v), abs(_small(rng))
    if isinstance(v[2], bool):
        i = rng.randrange(2)
        v[i] = v[i] - d if i == 0 else v[i] + d
    else:
        i = rng.randrange(3)
        v[i] = v[i] - d
    return v


def _sh_ps(ctx: Ctx, rng, steps: list, p_fn: float = 0.3):
    """a post-selection for the shared histories: rules / None, or (p_fn) a FUNCTION - mostly one that differs from the
    last function of the history in the captured values only, or (k) another function object with the SAME values"""
    if rng.random() >= p_fn:
        return rng.choice(SH_RULES)
    last = next((x for st in reversed(steps) for x in (st[5]["ps"] if st[0] == "new" and "ps" in st[5] else st[3] if st[0] == "set" else
                                                        st[5] if st[0] == "obs" and len(st) > 5 else None,) if is_fn(x)), None)
    if last and rng.random() < 0.2:
        ctx.count("shared:fn:same_values_other_function_object")
        return {"fn": last["fn"], "k": last.get("k", 0) + 1}
    if last and rng.random() < 0.15:
        ctx.count("shared:fn:same_function_object_again")
        return last
    ctx.count("shared:fn:function")
    return gen_fn(rng, like=last)


def gen_shared(ctx: Ctx, rng) -> list:
    steps: list = []
    objs: dict = {}
    n_of = {"sampler": 0, "quick": 0, "analyzer": 0}
    # circuits are drawn from a small subset so that holders meet on the same / related circuit objects
    group = rng.choice([["lossy", "lossy_dil", "plain"], ["idleherald0", "idleherald1", "plain"], ["plain", "lossy1", "lossy"],
                        ["herald_out0", "herald_out2", "herald_in0"], ["lossy", "lossy_dil", "heralded_sub", "swap"], SH_CIRCUITS,
                        # circuits next to an interference dip / circuits that differ from each other in ONE value by a little
                        ["dip_hom", "dip_mzi", "plain"], ["dip_hom", near_name("hom", 0.0), near_name("hom", _small(rng))],
                        [near_name("generic", 0.0), near_name("generic", _small(rng)), near_name("generic", _small(rng))],
                        ["dip_mzi", near_name("mzi", 0.0), near_name("mzi", _small(rng)), near_name("lossy", 0.0), near_name("lossy", _small(rng))]])
    small_world = group[0].startswith(("dip", "near")) or rng.random() < 0.25   # (small steps / nudges are frequent)
    if group[0].startswith(("dip", "near")):
        ctx.count("shared:small:world_of_circuits_near_a_dip_or_near_each_other")
    base0 = rng.choice(SH_INPUTS[:4] if not group[0].startswith("dip") else [[1, 1, 0], [1, 1, 0], [1, 0, 0]])

    def new(kind: str) -> str:
        n_of[kind] += 1
        name = {"sampler": "S", "quick": "Q", "analyzer": "A"}[kind] + str(n_of[kind])
        if kind == "sampler":
            cfg = {"b": rng.choice([*SH_BREFS, "own"]), "s": rng.choice(["SRC0", "SRC0", "SRC1", "own", "own"]),
                   "d": rng.choice(["D0", "D0", "D1", "own", "own"])}
        elif kind == "quick":
            cfg = {"pnr": rng.random() < 0.6, "ps": _sh_ps(ctx, rng, steps)}
        else:
            cfg = {"ps": _sh_ps(ctx, rng, steps)}
        if rng.random() < 0.5:
            cfg["form"] = rng.choice(FORMS)
        ctx.count(f"shared:new:form:{cfg.get('form', 'kw')}")
        steps.append(["new", name, kind, rng.choice(group), base0 if rng.random() < 0.7 else rng.choice(SH_INPUTS), cfg])
        objs[name] = kind
        ctx.count(f"shared:new:{kind}")
        return name

    def obs(name: str) -> None:
        kind = objs[name]
        if kind == "analyzer":
            ins = rng.choice([[[1, 0, 0]], [[1, 1, 0]], [[0, 1, 1], [1, 0, 1]], [[1, 0, 0], [0, 0, 1]]])
            steps.append(["obs", name, "analyze", ins, rng.random() < 0.4])
            return
        r = rng.random()
        if r < 0.5:
            steps.append(["obs", name, "read"])
        elif r < 0.65:
            steps.append(["obs", name, "sample", rng.randrange(1000)])
        elif r < 0.85 or kind != "sampler":
            steps.append(["obs", name, "sample_N_outputs", rng.choice([5, 20, 500] if small_world else [5, 20]), rng.randrange(1000),
                          _sh_ps(ctx, rng, steps)])
        else:
            steps.append(["obs", name, "sample_N_inputs", rng.choice([5, 20, 200] if small_world else [5, 20]), rng.randrange(1000),
                          _sh_ps(ctx, rng, steps)])

    new("sampler")
    new(rng.choice(["sampler", "sampler", "quick", "analyzer"]))
    for n in list(objs):
        obs(n)
    for _ in range(rng.randint(4, ctx.n(9, 12))):
        r = rng.random()
        name = rng.choice(list(objs))
        kind = objs[name]
        if r < 0.15 and len(objs) < 5:
            obs(new(rng.choice(["sampler", "sampler", "quick", "analyzer"])))
        elif r < 0.32:
            steps.append(["set", name, "circuit", rng.choice(group)])
            if kind != "analyzer":
                steps.append(["set", name, "input", base0 if rng.random() < 0.6 else rng.choice(SH_INPUTS)])
        elif r < 0.4 and kind != "analyzer":
            steps.append(["set", name, "input", rng.choice(SH_INPUTS)])
        elif r < 0.5:
            ref = rng.choice(["B0", "B1", "SRC0", "SRC0", "SRC1", "D0", "D0", "D1"] if not small_world else ["SRC0", "SRC0", "SRC1", "D0", "B0"])
            v = rng.choice(["permanent", "slos"]) if ref[0] == "B" else rng.choice(SH_SRC) if ref[0] == "S" else rng.choice(SH_DET)
            if ref[0] != "B" and rng.random() < (0.7 if small_world else 0.2):
                # the values that the component has now (as far as this generator knows), one of them moved by a little
                now = next((st[2] for st in reversed(steps) if st[0] == "mutate" and st[1] == ref), SH_INIT[ref])
                v = _nudged(rng, now if rng.random() < 0.7 else v)
                ctx.count("shared:small:shared_component_nudged_in_place")
            steps.append(["mutate", ref, v])
        elif r < 0.6 and kind == "sampler":
            what = rng.choice(["backend", "source", "source", "detector"])
            v = rng.choice(["permanent", "slos"]) if what == "backend" else rng.choice(SH_SRC) if what == "source" else rng.choice(SH_DET)
            if what != "backend" and rng.random() < (0.7 if small_world else 0.2):
                v = _nudged(rng, v)
                ctx.count("shared:small:component_nudged_through_a_holder")
            steps.append(["mutate_own", name, what, v])
            if rng.random() < 0.3:
                steps.append(_reject_step(rng, name))
        elif r < 0.6:
            steps.append(["mutate_own", name, "ps_add", rng.choice(SH_RULES[1:])])
        elif r < 0.72 and kind == "sampler":
            attr = rng.choice(["backend", "source", "detector"])
            v = (rng.choice([*SH_BREFS, None]) if attr == "backend" else
                 rng.choice(["SRC0", "SRC1", rng.choice(SH_SRC), None]) if attr == "source" else rng.choice(["D0", "D1", rng.choice(SH_DET), None]))
            steps.append(["set", name, attr, v])
        elif r < 0.72 and kind == "quick":
            steps.append(["set", name, rng.choice(["post_select", "post_select", "pnr"]), None])
            steps[-1][3] = _sh_ps(ctx, rng, steps[:-1], 0.5) if steps[-1][2] == "post_select" else rng.random() < 0.5
        elif r < 0.72:
            steps.append(["set", name, "post_select", _sh_ps(ctx, rng, steps, 0.5)])
        elif r < 0.78:
            if rng.random() < (0.8 if small_world else 0.25):
                steps.append(["param_step", rng.choice(["q", "r"] if group[0].startswith("dip") else ["p", "p", "q", "r"]), _small(rng)])
                ctx.count("shared:small:param_step")
            else:
                steps.append(["param", rng.choice([0.1, 0.5, 0.9])])
        elif r < 0.86:
            steps.append(["mutate_circuit", rng.choice(group), rng.choice(EDITS), rng.randrange(2)])
        elif r < 0.93:
            steps.append(["mutate_ps", rng.choice(SH_RULES[1:]), rng.choice(SH_RULES[1:])])
        # after every step: look at one or two holders, not necessarily the one that was touched
        for n in rng.sample(list(objs), min(len(objs), rng.randint(1, 2))):
            obs(n)
    return steps


def gen_defaults(ctx: Ctx, rng) -> list:
    """a world of holders that are ALL created on default components (every call form), in which some holders tune their
    own defaults in place, are put back on a default (= None) or get an explicit component; holders are created before and
    after every tuning and every holder is observed again and again"""
    steps: list = []
    kinds: dict = {}
    mix = rng.choice([["sampler"], ["sampler"], ["sampler", "sampler", "quick", "analyzer"], ["quick", "analyzer"]])
    group = rng.choice([["plain"], ["plain", "lossy"], ["plain", "herald_out0", "idleherald1"], ["lossy1", "swap", "plain"]])
    base = rng.choice(SH_INPUTS[:3])
    main_form = rng.choice(["kw", *FORMS])  # (most holders of a world are created in the same way)

    def new() -> str:
        kind = rng.choice(mix)
        name = {"sampler": "S", "quick": "Q", "analyzer": "A"}[kind] + str(len(kinds) + 1)
        form = main_form if rng.random() < 0.7 else rng.choice(["kw", *FORMS])
        cfg = {"b": "own", "s": "own", "d": "own"} if kind == "sampler" else {"pnr": True, "ps": None} if kind == "quick" else {"ps": None}
        steps.append(["new", name, kind, rng.choice(group), base, {**cfg, "form": form}])
        kinds[name] = kind
        ctx.count(f"defaults:new:{kind}:{form}" + (":after_a_tuning" if any(st[0] == "mutate_own" for st in steps) else ""))
        return name

    def obs(name: str) -> None:
        kind = kinds[name]
        sd = rng.randrange(1000)
        if kind == "analyzer":
            steps.append(["obs", name, "analyze", [base], rng.random() < 0.4])
        elif kind == "quick":
            steps.append(rng.choice([["obs", name, "read"], ["obs", name, "sample", sd], ["obs", name, "sample_N_outputs", 20, sd, None]]))
        else:
            steps.append(rng.choice([["obs", name, "read"], ["obs", name, "read"], ["obs", name, "sample", sd],
                                     ["obs", name, "sample_N_outputs", 20, sd, None], ["obs", name, "sample_N_inputs", 20, sd, None]]))

    def tune(name: str) -> None:
        kind = kinds[name]
        if kind != "sampler":
            steps.append(rng.choice([["mutate_own", name, "ps_add", rng.choice(SH_RULES[1:])], ["set", name, "pnr", rng.random() < 0.5],
                                     ["set", name, "post_select", rng.choice(SH_RULES)]]))
            return
        what = rng.choice(["source", "source", "source", "detector", "detector", "backend"])
        v = rng.choice(SH_SRC[1:]) if what == "source" else rng.choice(SH_DET[1:]) if what == "detector" else rng.choice(["slos", "permanent"])
        if what != "backend" and rng.random() < 0.3:
            v = _nudged(rng, rng.choice(SH_SRC if what == "source" else SH_DET))   # (a default tuned by a LITTLE)
            ctx.count(f"defaults:small:tuned_in_place_by_a_little:{what}")
        steps.append(["mutate_own", name, what, v])
        ctx.count(f"defaults:tuned_in_place:{what}")

    first = new()
    if rng.random() < 0.7:
        new()
    for n in list(kinds):
        if rng.random() < 0.6:
            obs(n)
    tune(first)
    for _ in range(rng.randint(3, 7)):
        r = rng.random()
        name = rng.choice(list(kinds))
        if r < 0.3 and len(kinds) < 5:
            obs(new())
        elif r < 0.55:
            tune(name)
        elif r < 0.7 and kinds[name] == "sampler":
            steps.append(["set", name, rng.choice(["source", "detector", "backend"]), None])
            ctx.count("defaults:component_set_to_None")
        elif r < 0.78 and kinds[name] == "sampler":
            steps.append(rng.choice([["set", name, "source", rng.choice(SH_SRC)], ["set", name, "detector", rng.choice(SH_DET)],
                                     ["set", name, "backend", "str:slos"]]))
        for n in rng.sample(list(kinds), min(len(kinds), rng.randint(1, 3))):
            obs(n)
    for n in kinds:
        obs(n)
    return steps


def _oracle(probs: list[str]) -> list[str]:
    return [q for q in probs if q.startswith("oracle:")]


def _corr_kind(q: str) -> str:
    return q.split(":")[1] if q.startswith("corr:") else ""


def _report_corr(ctx: Ctx, obj: str, steps: list, probs: list[str], rerun, max_tests: int = 200) -> None:
    """a difference between model and implementation on whether a read recomputes: shrink the history on the same
    kind of difference and register it (`probs` may also hold an oracle failure, which is reported by the caller)"""
    probs = [q for q in probs if q.startswith("corr:")]
    if not probs:
        return
    kind = _corr_kind(probs[0])
    ctx.count(f"corr:found:{kind}")
    n = ctx.extra.setdefault("corr_reported", 0)
    if n >= 3:
        return
    ctx.extra["corr_reported"] = n + 1
    small = ddmin(steps, lambda sub: any(_corr_kind(q) == kind for q in rerun(sub)), max_tests=max_tests)
    sprobs = [q for q in rerun(small) if _corr_kind(q) == kind] or probs
    ctx.count(f"corr:reported:{kind}")
    print(f"CORR-DIFFERENCE property=C11 object={obj} history={json.dumps(small)}\n  {sprobs[0]}", flush=True)
    ctx.disagreement(sprobs[0], {"object": obj, "history": small, "problems": sprobs})


def shared_histories(ctx: Ctx, rng) -> None:
    ctx.count("shared:oracle+corr")  # (QuickSamplers on the world model, every Sampler on a cache model of its own)
    todo = [("corpus", h) for h in SHARED_CORPUS]
    for i in range(ctx.n(70, 1500)):
        todo.append(("random", gen_shared(ctx, rng)))
        if i % 3 == 0:
            todo.append(("defaults", gen_defaults(ctx, rng)))
    reported = 0
    for tag, steps in todo:
        if ctx.out_of_time() or reported >= 3:
            break
        probs = run_shared(ctx, steps, count=True)
        nobs = [k for k, st in enumerate(steps) if st[0] == "obs"]
        holders = {st[1] for st in steps if st[0] == "new"}
        ctx.count(f"shared:{tag}")
        for st in steps:
            ctx.count(f"shared:{st[0]}" + (f":{st[2]}" if st[0] in ("set", "obs", "mutate_own") else ""))
        ctx.case(json.dumps(["shared", steps]), len(nobs) >= 2 and len(holders) >= 2)
        if _oracle(probs):
            reported += 1
            small = ddmin(steps, lambda sub: bool(_oracle(run_shared(ctx, sub, corr=False))), max_tests=200)
            sprobs = run_shared(ctx, small) or probs
            sprobs = _oracle(sprobs) + [q for q in sprobs if not q.startswith("oracle:")]
            shape = "+".join(st[0] + (":" + str(st[2]) if st[0] in ("set", "mutate_own") else "") for st in small[:-1])[:90]
            ctx.violation(sprobs[0], {"object": "shared", "history": small, "problems": sprobs},
                          sig={"kind": "shared-" + shape, "object": "shared"})
        _report_corr(ctx, "shared", steps, probs, lambda sub: run_shared(ctx, sub))


# ------------------------------------------------------------------------------------------------
# self-test of the correspondence (every run): the snapshots of the code BEFORE the repairs of F10 and F30 must
# disagree with the implementation on the witnesses of these findings.  This shows that the per-read comparison can
# see a field that is missing from a snapshot.  If the implementation itself lost the field again, the comparison
# with the repaired model reports it (a corr: difference, found by the streams as well) and the pinned model agrees
# with the code - that is a finding, not a fault of the machinery.

F10_WITNESS = ("sampler", "sampler-pinned", [["input", [1, 0, 0]], ["circuit", "idleherald0"], ["read"], ["circuit", "idleherald1"], ["read"]])
F30_WITNESS = ("quick", "quick-pinned", [["input", [1, 1, 0]], ["post_select", [[0], [1]]], ["read"], ["ps_add", [[2], [0]]], ["read"]])
F30_SHARED_WITNESS = [["new", "Q1", "quick", "plain", [1, 1, 0], {"pnr": True, "ps": [[0], [1]]}],
                      ["new", "Q2", "quick", "plain", [1, 1, 0], {"pnr": True, "ps": [[0], [1]]}], ["obs", "Q1", "read"],
                      ["mutate_ps", [[0], [1]], [[2], [0]]], ["obs", "Q1", "read"], ["obs", "Q2", "read"]]


def corr_selftest(ctx: Ctx) -> None:
    seams_selftest()
    # the model alone: the pinned snapshots return the value of ANOTHER configuration on the witnesses
    c = {"ufull": 0, "nModes": 4, "inHer": [[3, 0]], "outHer": [[3, 0]], "input": [1, 0, 0], "backend": 0, "source": [0, 0, 0, 0]}
    r = ctx.model.call({"op": "cache", "snap": "sampler-pinned", "fails": [],
                        "history": [["cfg", c], ["read"], ["cfg", dict(c, inHer=[[3, 1]], outHer=[[3, 1]])], ["read"]]})
    if [(x["recomputed"], x["value"], x["cfg"]) for x in r] != [(True, 0, 0), (False, 0, 1)]:
        raise MachineryFault(f"C11 self-test: the pinned Sampler snapshot does not produce the stale read of F10: {r}")
    for kind, snap, steps in (F10_WITNESS, F30_WITNESS):
        probs, tr = run_history_tr(ctx, kind, steps)
        if [(r["recomputed"], r["raised"]) for r in tr.reads] != [(True, False), (True, False)] or probs:
            # the implementation itself does not recompute twice on the witness (or the oracle fails): a finding, reported
            # like any other difference; the self-test of the comparison is inconclusive on this tree
            ctx.count(f"corr:selftest:{snap}:inconclusive")
            _report_corr(ctx, kind, steps, probs, lambda sub, kind=kind: run_history(ctx, kind, sub))
            continue
        pinned = tr.compare(ctx, snap)
        ctx.count(f"corr:selftest:{snap}:" + ("disagrees" if pinned else "agrees"))
        if not any(q.startswith("corr:over-invalidation") for q in pinned):
            raise MachineryFault(f"C11 self-test: the implementation recomputes at both reads of the witness {steps} but the "
                                 f"comparison with the {snap} model reports {pinned or 'nothing'}: the per-read comparison "
                                 "cannot see a field that is missing from a snapshot")
    tk = {"s": {}, "w": WorldTracker()}
    probs = _run_shared(ctx, F30_SHARED_WITNESS, tk)
    if [(r["recomputed"], r["raised"]) for r in tk["w"].reads] != [(True, False)] * 3 or probs:
        ctx.count("corr:selftest:quick-world-pinned:inconclusive")
        _report_corr(ctx, "shared", F30_SHARED_WITNESS, probs + tk["w"].compare(ctx), lambda sub: run_shared(ctx, sub))
        return
    pinned = tk["w"].compare(ctx, "quick-world-pinned")
    ctx.count("corr:selftest:quick-world-pinned:" + ("disagrees" if pinned else "agrees"))
    if not any(q.startswith("corr:over-invalidation") for q in pinned):
        raise MachineryFault(f"C11 self-test: shared PostSelection witness: the comparison with the pinned world model reports "
                             f"{pinned or 'nothing'}")


def directed_fields(ctx: Ctx) -> None:
    """every field of both snapshots changed alone between two observations, steps that change nothing, equal values
    through different objects (oracle and correspondence)"""
    reported = 0
    for kind in ("sampler", "quick"):
        for label, steps in field_corpus(kind) + defaults_corpus(kind):
            probs = run_history(ctx, kind, steps, count=True)
            ctx.count(f"corr:directed:{kind}:{label}")
            ctx.case(json.dumps([kind, steps]), True)
            if _oracle(probs) and reported < 3:
                reported += 1
                small = ddmin(steps, lambda sub, kind=kind: bool(_oracle(run_history(ctx, kind, sub, corr=False))), max_tests=200)
                sprobs = run_history(ctx, kind, small) or probs
                sprobs = _oracle(sprobs) + [q for q in sprobs if not q.startswith("oracle:")]
                ctx.violation(sprobs[0], {"object": kind, "history": small, "problems": sprobs},
                              sig={"kind": "directed-" + label, "object": kind})
            _report_corr(ctx, kind, steps, probs, lambda sub, kind=kind: run_history(ctx, kind, sub))


def run(ctx: Ctx) -> None:
    ctx.rule = ("random histories (4-14 steps) of circuit reassignment (incl. circuits with equal U_full but different "
                "herald photons / mode split, equal modes but another number of loss elements), in-place circuit edits "
                "(lossless, heralded gate, loss elements added), Parameter updates, input/source/backend/"
                "post-selection/detector changes, steps that change nothing or assign an equal value through a new "
                "object, every kind of reconfiguration also SMALL (1e-3 ... 1e-12: Parameter steps incl. circuits next to an "
                "interference dip, circuits that differ in one value, source / detector values nudged), post-selection given as "
                "look-alike FUNCTIONS (closures / loop lambdas / partials / bound methods / callable objects, same object "
                "again) assigned or passed as call argument, reads and seeded sampling calls on a long-lived Sampler or "
                "QuickSampler, each observation compared with a fresh object AND (whether it recomputed) with the cache "
                "model; histories in which several Samplers / "
                "QuickSamplers / Analyzers share Backend / Source / Detector / PostSelection / circuit objects and are "
                "reconfigured and observed in interleaved order, incl. holders created on default components (argument "
                "left out / None / by position / set back to None) of which one is tuned in place while others exist "
                "before and are created after, every holder's reported settings cross-checked against the harness's own "
                "record of what it was given; non-trivial = a read/sample follows a "
                "reconfiguration that follows an earlier read, resp. >= 2 observations on >= 2 holders; distinct = "
                "distinct history")
    SEAMS.install()
    try:
        _run(ctx)
    finally:
        SEAMS.remove()


def _run(ctx: Ctx) -> None:
    N = ctx.n(140, 2500)
    rng = ctx.rng
    corr_selftest(ctx)
    directed_fields(ctx)
    shared_histories(ctx, pyrandom.Random(f"C11-shared-{ctx.seed}"))
    for i in range(N):
        if ctx.out_of_time():
            break
        kind = "sampler" if rng.random() < 0.6 else "quick"
        steps = gen_history(ctx, rng, kind)
        probs = run_history(ctx, kind, steps, count=True)
        reads = [k for k, s in enumerate(steps) if s[0] in OBS]
        nontriv = len(reads) >= 2 and any(s[0] not in OBS for s in steps[reads[0]:reads[-1]])
        for s in steps:
            ctx.count(f"{kind}:{s[0]}")
        if steps and steps[0][0] in ("sample", "sample_N_outputs", "sample_N_inputs"):
            ctx.count("sampling_before_any_read")
        ctx.case(json.dumps([kind, steps]), nontriv, sample=[kind, steps] if i < 2 else None)
        if _oracle(probs):
            small = ddmin(steps, lambda sub: bool(_oracle(run_history(ctx, kind, sub, corr=False))))
            sprobs = run_history(ctx, kind, small) or probs
            sprobs = _oracle(sprobs) + [q for q in sprobs if not q.startswith("oracle:")]
            kindsig = "no-prior-read" if len(small) == 1 else "stale-after-" + "+".join(sorted({s[0] for s in small[:-1]}))
            ctx.violation(sprobs[0], {"object": kind, "history": small, "problems": sprobs},
                          sig={"kind": kindsig, "object": kind})
        _report_corr(ctx, kind, steps, probs, lambda sub, kind=kind: run_history(ctx, kind, sub), max_tests=400)
    analyzer_probe(ctx, rng)
    analyzer_histories(ctx, rng)


def replay(ctx: Ctx, path: str) -> None:
    data = json.load(open(path))["replay"]
    if "object" not in data and "case" in data:  # (a correspondence-only report: the case is the history)
        data = data["case"]
    SEAMS.install()
    try:
        if data["object"] == "shared":
            probs = run_shared(ctx, data["history"])
        else:
            probs = run_history(ctx, data["object"], data["history"])
    finally:
        SEAMS.remove()
    ctx.case("replay", True, sample=data)
    for p in probs:
        print("replay:", p)
        ctx.violation(p, data, sig={"kind": "replay"})
