"""
C11 — results depend only on the current configuration, not on history.

Model: LW.Model.Cache (read through a snapshot-keyed cache; refinement theorem: every read of any
history returns compute(current configuration) when compute factors through the snapshot — which
the repaired snapshot guarantees).  `compute` of the implementation is "what a freshly created
object with the same settings returns", so the check drives long-lived Sampler / QuickSampler /
Analyzer objects through random histories of reconfigurations, reads and sampling calls and
compares every observation with a fresh object built from the current settings.
"""

from __future__ import annotations

import json
import random as pyrandom

import numpy as np

import lightworks as lw
from core import Ctx, ddmin, exc_class
from lightworks import emulator

TRUSTED = [
    "Lean 4.33 kernel; axioms subset of {propext, Classical.choice, Quot.sound} (audited on every run)",
    "the cache model LW.Model.Cache abstracts U_full/source values to identifiers with decidable equality",
    "numpy / stdlib PRNG determinism for equal seeds",
]
ASSUMPTIONS = ["histories of 4-14 steps on circuits with <= 4 modes, <= 3 photons"]


def circuits(rng):
    """a family of circuits on 3 visible modes; several share U_full but differ in heralds / modes"""
    fam = {}
    p = lw.Parameter(0.3)
    for hp in (0, 1):
        c = lw.Circuit(4)
        c.bs(0, 1, reflectivity=0.4)
        c.bs(1, 2, reflectivity=p)
        c.ps(0, 0.7)
        c.herald(hp, 3)  # idle heralded mode: same U_full, different herald photons
        fam[f"idleherald{hp}"] = c
    c = lw.Circuit(3)
    c.bs(0, 1, reflectivity=0.4)
    c.bs(1, 2, reflectivity=p)
    c.ps(0, 0.7)
    fam["plain"] = c
    c = lw.Circuit(3)
    c.bs(0, 1, reflectivity=0.4)
    c.bs(1, 2, reflectivity=p, loss=0.2)
    fam["lossy"] = c
    c = lw.Circuit(3)
    sub = lw.Circuit(3)
    sub.bs(0, 1)
    sub.bs(1, 2, reflectivity=0.25)
    sub.herald(1, 2, 0)
    c.add(sub, 1)
    c.bs(0, 1, reflectivity=p)
    fam["heralded_sub"] = c
    c = lw.Circuit(3)
    c.mode_swaps({0: 1, 1: 2, 2: 0})
    fam["swap"] = c
    # same mode count and number of heralds, but the output herald sits on different modes
    for tag, (hi, ho) in {"herald_out0": (3, 0), "herald_out2": (3, 2), "herald_in0": (0, 3)}.items():
        c = lw.Circuit(4)
        c.bs(0, 1, reflectivity=0.4)
        c.bs(1, 2, reflectivity=0.7)
        c.bs(2, 3, reflectivity=0.45)
        c.bs(0, 3, reflectivity=0.6)
        c.herald(1, hi, ho)
        fam[tag] = c
    return fam, p


SAME_UFULL = [("idleherald0", "idleherald1"), ("idleherald1", "idleherald0")]
MOVED_HERALD = [("herald_out0", "herald_out2"), ("herald_out2", "herald_out0"), ("herald_out0", "herald_in0"),
                ("herald_in0", "herald_out2")]


def gen_history(ctx: Ctx, rng, kind: str) -> list:
    steps = []
    names = ["idleherald0", "idleherald1", "plain", "lossy", "heralded_sub", "swap", "herald_out0", "herald_out2",
             "herald_in0"]
    inputs = [[1, 0, 0], [1, 1, 0], [0, 1, 1], [2, 0, 0], [0, 0, 0], [1, 1, 1], [1, 0, 1]]
    if rng.random() < 0.35:
        # directed: two circuits with element-wise equal U_full but different herald photons, with an
        # observation in between — only a configuration snapshot that includes the heralds tells them apart
        a, b = rng.choice(SAME_UFULL)
        obs = rng.choice([["read"], ["sample", rng.randrange(1000)], ["sample_N_outputs", 20, rng.randrange(1000)]])
        steps += [["input", rng.choice([[1, 0, 0], [1, 1, 0], [0, 1, 1]])], ["circuit", a], ["read"], ["circuit", b], obs]
        ctx.count("directed:same_U_full_different_heralds")
    elif rng.random() < 0.35:
        # directed: same unitary, same mode count and herald count, herald on another mode, with SAMPLING
        # before and after (tables derived from the heralds must be rebuilt, not only the distribution)
        a, b = rng.choice(MOVED_HERALD)
        sd = rng.randrange(1000)
        first = rng.choice([["sample_N_outputs", 20, sd], ["sample_N_inputs", 20, sd], ["read"]])
        second = rng.choice([["sample_N_outputs", 20, sd + 1], ["sample_N_inputs", 20, sd + 1], ["read"], ["sample", sd]])
        if kind != "sampler":
            first = ["sample_N_outputs", 20, sd] if first[0] == "sample_N_inputs" else first
            second = ["sample_N_outputs", 20, sd + 1] if second[0] == "sample_N_inputs" else second
        steps += [["input", rng.choice([[1, 0, 0], [1, 1, 0], [0, 1, 1]])], ["circuit", a], first, ["circuit", b], second]
        ctx.count("directed:herald_moved_between_sampling_calls")
    for _ in range(rng.randint(4, ctx.n(10, 14))):
        r = rng.random()
        if r < 0.22:
            steps.append(["circuit", rng.choice(names)])
        elif r < 0.3:
            steps.append(["mutate_circuit", rng.choice(["bs", "ps"]), rng.randrange(2)])
        elif r < 0.38:
            steps.append(["param", rng.choice([0.1, 0.5, 0.9])])
        elif r < 0.5:
            steps.append(["input", rng.choice(inputs)])
        elif kind == "sampler" and r < 0.58:
            steps.append(["source", rng.choice([[1, 1, 1], [0.8, 1, 1], [1, 0.9, 1], [1, 1, 0.7], [0.9, 0.95, 0.8]]),
                          rng.random() < 0.5])
        elif kind == "sampler" and r < 0.63:
            steps.append(["backend", rng.choice(["permanent", "slos"])])
        elif kind == "quick" and r < 0.58:
            steps.append(["post_select", rng.choice([None, [[0], [1]], [[0, 1], [1, 2]], [[2], [0]]])])
        elif kind == "quick" and r < 0.63:
            steps.append(["pnr", rng.random() < 0.5])
        elif r < 0.8:
            steps.append(["read"])
        elif r < 0.87:
            steps.append(["sample", rng.randrange(1000)])
        elif r < 0.94:
            steps.append(["sample_N_outputs", rng.choice([5, 20]), rng.randrange(1000)])
        elif kind == "sampler":
            steps.append(["sample_N_inputs", rng.choice([5, 20]), rng.randrange(1000)])
        else:
            steps.append(["read"])
    return steps


def mk_ps(r):
    if r is None:
        return None
    ps = lw.PostSelection()
    ps.add(tuple(r[0]), tuple(r[1]))
    return ps


def norm_dist(d):
    return sorted((tuple(k.s), round(float(v), 12)) for k, v in d.items())


def observe(fn):
    try:
        return ("ok", fn())
    except Exception as e:  # noqa: BLE001
        return ("raise", exc_class(e))


def same_obs(a, b) -> bool:
    if a[0] != b[0]:
        return False
    if a[0] == "raise":
        return a[1] == b[1]
    x, y = a[1], b[1]
    if isinstance(x, list) and x and isinstance(x[0], tuple) and isinstance(x[0][1], float):
        if [k for k, _ in x] != [k for k, _ in y]:
            return False
        return all(abs(p - q) <= 1e-9 for (_, p), (_, q) in zip(x, y))
    return x == y


def run_history(ctx: Ctx, kind: str, steps: list) -> list[str]:
    probs: list[str] = []
    fam, p = circuits(None)
    cur = {"circuit": "plain", "input": [1, 0, 0], "source": [1, 1, 1], "backend": "permanent", "ps": None, "pnr": True}

    def fresh():
        c = fam[cur["circuit"]]
        if kind == "sampler":
            b, pu, ind = cur["source"]
            return emulator.Sampler(c, lw.State(cur["input"]),
                                    source=emulator.Source(brightness=b, purity=pu, indistinguishability=ind),
                                    backend=cur["backend"])
        return emulator.QuickSampler(c, lw.State(cur["input"]), photon_counting=cur["pnr"],
                                     post_select=mk_ps(cur["ps"]))

    try:
        obj = fresh()
    except Exception:  # noqa: BLE001
        return probs
    for k, st in enumerate(steps):
        op = st[0]
        try:
            if op == "circuit":
                obj.circuit = fam[st[1]]
                cur["circuit"] = st[1]
            elif op == "mutate_circuit":
                c = fam[cur["circuit"]]
                if st[1] == "bs":
                    c.bs(st[2], st[2] + 1, reflectivity=0.35)
                else:
                    c.ps(st[2], 0.4)
            elif op == "param":
                p.set(st[1])
            elif op == "input":
                try:
                    obj.input_state = lw.State(st[1])
                    cur["input"] = st[1]
                except Exception:  # noqa: BLE001  (rejected assignment: settings unchanged)
                    pass
            elif op == "source":
                b, pu, ind = st[1]
                if st[2]:
                    obj.source = emulator.Source(brightness=b, purity=pu, indistinguishability=ind)
                else:
                    obj.source.brightness = b
                    obj.source.purity = pu
                    obj.source.indistinguishability = ind
                cur["source"] = st[1]
            elif op == "backend":
                obj.backend = st[1]
                cur["backend"] = st[1]
            elif op == "post_select":
                obj.post_select = mk_ps(st[1])
                cur["ps"] = st[1]
            elif op == "pnr":
                obj.photon_counting = st[1]
                cur["pnr"] = st[1]
            else:
                if op == "read":
                    a = observe(lambda: norm_dist(obj.probability_distribution))
                    fo = observe(lambda: norm_dist(fresh().probability_distribution))
                elif op == "sample":
                    def one(o):
                        pyrandom.seed(st[1])
                        return tuple(o.sample().s)
                    a = observe(lambda: one(obj))
                    fo = observe(lambda: one(fresh()))
                elif op == "sample_N_outputs":
                    a = observe(lambda: sorted((tuple(s.s), n) for s, n in obj.sample_N_outputs(st[1], seed=st[2]).items()))
                    fo = observe(lambda: sorted((tuple(s.s), n) for s, n in fresh().sample_N_outputs(st[1], seed=st[2]).items()))
                else:
                    a = observe(lambda: sorted((tuple(s.s), n) for s, n in obj.sample_N_inputs(st[1], seed=st[2]).items()))
                    fo = observe(lambda: sorted((tuple(s.s), n) for s, n in fresh().sample_N_inputs(st[1], seed=st[2]).items()))
                if not same_obs(a, fo):
                    probs.append(f"oracle: step #{k} {st}: long-lived {kind} gives {str(a)[:140]} but a fresh object with the "
                                 f"same settings ({cur}) gives {str(fo)[:140]}")
                    return probs
        except Exception as e:  # noqa: BLE001
            probs.append(f"oracle: step #{k} {st} raised {exc_class(e)}: {str(e)[:80]}")
            return probs
    return probs


def analyzer_probe(ctx: Ctx, rng) -> None:
    fam, _ = circuits(None)
    for name in ("plain", "lossy"):
        an = emulator.Analyzer(fam[name])
        s = lw.State([1, 0, 0])
        r1 = an.analyze(s, {s: lw.State([0, 1, 0])})
        r2 = an.analyze(lw.State([0, 1, 0]))
        ctx.case(("analyzer", name), True)
        ctx.count("analyzer_probe")
        if hasattr(r2, "error_rate"):
            ctx.violation("oracle: an analysis without an expected mapping carries the error_rate of the previous call",
                          {"circuit": name, "first_error_rate": float(r1.error_rate), "second": float(r2.error_rate)},
                          sig={"kind": "analyzer-stale-error-rate"})


def analyzer_histories(ctx: Ctx, rng) -> None:
    """a long-lived Analyzer under circuit / post-selection reassignment vs a fresh Analyzer per call"""
    names = ["idleherald0", "idleherald1", "plain", "lossy", "heralded_sub", "herald_out0", "herald_out2", "herald_in0"]
    rulesets = [None, [[0], [0, 1]], [[1], [1]], [[0, 1], [1, 2]]]
    for _ in range(ctx.n(25, 400)):
        if ctx.out_of_time():
            break
        fam, p = circuits(None)
        an = None
        cur = {"circuit": rng.choice(names), "ps": None}
        hist = []
        psobjs = {}

        def ps_for(r):
            key = json.dumps(r)
            if key not in psobjs:
                psobjs[key] = mk_ps(r)
            return psobjs[key]

        an = emulator.Analyzer(fam[cur["circuit"]])
        bad = None
        for k in range(rng.randint(2, 6)):
            r = rng.random()
            if r < 0.45:
                cur["circuit"] = rng.choice(names)
                an.circuit = fam[cur["circuit"]]
                hist.append(["circuit", cur["circuit"]])
            elif r < 0.6:
                cur["ps"] = rng.choice(rulesets)
                an.post_selection = ps_for(cur["ps"])
                hist.append(["post_selection", cur["ps"]])
            elif r < 0.68:
                p.set(rng.choice([0.1, 0.5, 0.9]))
                hist.append(["param"])
            ins = rng.choice([[[1, 0, 0]], [[1, 1, 0]], [[0, 1, 1], [1, 0, 1]], [[1, 0, 0], [0, 0, 1]]])
            withexp = rng.random() < 0.4
            hist.append(["analyze", ins, withexp])

            def do(a):
                states = [lw.State(s) for s in ins]
                exp = {st: st for st in states} if withexp else None
                res = a.analyze(states, exp)
                out = {"outputs": [o.s for o in res.outputs], "array": np.round(np.array(res.array, dtype=float), 10).tolist(),
                       "performance": round(float(res.performance), 10), "has_error_rate": hasattr(res, "error_rate")}
                if withexp:
                    er = float(res.error_rate)
                    out["error_rate"] = None if np.isnan(er) else round(er, 9)
                return out

            fresh = emulator.Analyzer(fam[cur["circuit"]])
            if cur["ps"] is not None:
                fresh.post_selection = ps_for(cur["ps"])
            a, b = observe(lambda: do(an)), observe(lambda: do(fresh))
            if a != b and not (a[0] == "ok" and b[0] == "ok" and a[1] == b[1]):
                bad = (k, a, b)
                break
        ctx.case(("analyzer", json.dumps(hist)), len([h for h in hist if h[0] == "analyze"]) >= 2)
        ctx.count("analyzer_histories")
        if bad is not None:
            k, a, b = bad
            ctx.violation(f"oracle: long-lived Analyzer, call #{k}: {str(a)[:150]} but a fresh Analyzer with the same circuit and "
                          f"post-selection gives {str(b)[:150]}", {"object": "analyzer", "history": hist},
                          sig={"kind": "analyzer-history"})
            return


def run(ctx: Ctx) -> None:
    ctx.rule = ("random histories (4-14 steps) of circuit reassignment (incl. circuits with equal U_full but different "
                "herald photons / mode split), in-place circuit edits, Parameter updates, input/source/backend/"
                "post-selection/detector changes, reads and seeded sampling calls on a long-lived Sampler or "
                "QuickSampler, each observation compared with a fresh object; non-trivial = a read/sample follows a "
                "reconfiguration that follows an earlier read; distinct = distinct history")
    N = ctx.n(120, 2500)
    rng = ctx.rng
    for i in range(N):
        if ctx.out_of_time():
            break
        kind = "sampler" if rng.random() < 0.6 else "quick"
        steps = gen_history(ctx, rng, kind)
        probs = run_history(ctx, kind, steps)
        reads = [k for k, s in enumerate(steps) if s[0] in ("read", "sample", "sample_N_outputs", "sample_N_inputs")]
        nontriv = len(reads) >= 2 and any(s[0] not in ("read", "sample", "sample_N_outputs", "sample_N_inputs")
                                          for s in steps[reads[0]:reads[-1]])
        for s in steps:
            ctx.count(f"{kind}:{s[0]}")
        if steps and steps[0][0] in ("sample", "sample_N_outputs", "sample_N_inputs"):
            ctx.count("sampling_before_any_read")
        ctx.case(json.dumps([kind, steps]), nontriv, sample=[kind, steps] if i < 2 else None)
        if probs:
            small = ddmin(steps, lambda sub: bool(run_history(ctx, kind, sub)))
            sprobs = run_history(ctx, kind, small) or probs
            first = small[0][0] if small else ""
            kindsig = "no-prior-read" if len(small) == 1 else "stale-after-" + "+".join(sorted({s[0] for s in small[:-1]}))
            ctx.violation(sprobs[0], {"object": kind, "history": small, "problems": sprobs},
                          sig={"kind": kindsig, "object": kind})
    analyzer_probe(ctx, rng)
    analyzer_histories(ctx, rng)


def replay(ctx: Ctx, path: str) -> None:
    data = json.load(open(path))["replay"]
    probs = run_history(ctx, data["object"], data["history"])
    ctx.case("replay", True, sample=data)
    for p in probs:
        print("replay:", p)
        ctx.violation(p, data, sig={"kind": "replay"})
