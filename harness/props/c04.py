"""
C04 — sampler distribution is normalised, exact and the same for both backends.

Model: LW.Model.Dist (fullDistPermanent, slosPhi/fullDistSlos — the sqrt-free SLOS recursion —,
pdistCalc) on top of LW.Model.Fock.  For generated circuits (loss anywhere, heralds) and inputs
(vacuum, bunched) the implementation's Sampler.probability_distribution is computed with both
backends and compared with the exact model distribution (same 1e-9 truncation) and with the
property's clauses evaluated on the implementation: non-negative, normalised up to the truncation,
no pattern with more photons than injected, each pattern = sum over loss configurations of
|amplitude|^2 computed independently from the implementation's U_full, backends agree.

Two streams:
  1. fresh objects: one Sampler per (circuit, input, backend), backend given as a string;
  2. scenarios (run first; a directed corpus that is the same on every seed, then randomised ones):
     a. components SHARED between consumers - one Backend object (and one Source, one Detector) handed to two or
        three Samplers on RELATED circuits of equal dimensions: a lossy circuit and lw.Unitary(its U_full) with the
        same photons on the same columns, the same calls with other herald photon numbers / a herald on another
        mode / other values, the same calls again, the same circuit object - in both orders, with the backend
        given as an object and as a string, and the first Sampler read again afterwards;
     b. short histories on one living Sampler: circuit extended in place (heralded gate added - input_modes
        unchanged -, top-level herald added, loss element, ordinary components), circuit re-assigned to a related
        one, input re-assigned, backend switched permanent <-> slos and back (string, Backend object, in-place
        assignment of Backend.backend on a shared or on the Sampler's own object), source / detector
        re-assigned, sampling calls (with a shared PostSelection object) between the reads;
     c. several living Samplers sharing components, reconfigured and read in interleaved order.
     d. DEFAULT COMPONENTS PER OBJECT: Samplers created with source / detector / backend omitted or None (and
        re-assigned to None later), one of them tuned IN PLACE through its accessor (sampler.source.brightness =
        0.6, sampler.detector.efficiency = .., sampler.backend.backend = "slos"), others created before and
        after.  The harness keeps its OWN record of what every Sampler was given (a record per default object,
        one shared record per Source / Detector object handed to several Samplers); a Sampler whose record says
        "ideal source" must give the ideal-source distribution, every Sampler must report the settings of its
        record, a Sampler whose record is not ideal is compared with a fresh Sampler holding a fresh Source with
        the recorded values and (brightness only) with the exact mixture over the photons that were emitted.
        What was tuned is set back at the end of the scenario, so that scenarios stay independent.
     e. MAGNITUDE OF A CHANGE: one long-lived Sampler whose circuit holds a Parameter (phase / reflectivity /
        loss; top level or inside a group), or whose circuit is re-assigned to the same calls with one value
        nudged, or whose Source brightness is nudged: the value moves by 1e-3 ... 1e-12 in changing order
        (exact rational points next to each other on the circle), also next to an interference dip where the
        coincidence probability is ~1e-7 and a tiny move is a large relative change.  Reads after a move of size
        d are compared BIT FOR BIT with a fresh Sampler and with the exact model / the loss-configuration sum
        at a tolerance of max(d/50, 1e-13) instead of 1e-9 (the truncation of terms below 1e-9 is mirrored by
        the model, patterns that sit within 1e-12 of the threshold keep the lenient comparison).
     Every read is judged by the property's clauses, by a fresh Sampler with the same settings, and by the exact
     model run on the construction program that describes the circuit object at that moment.
"""

from __future__ import annotations

import json
import math
from fractions import Fraction

import numpy as np

import circgen as cg
import fockgen as fg
import lightworks as lw
from core import GQ, Ctx, ddmin, exc_class, frac_str
from lightworks import emulator

TRUSTED = [
    "Lean 4.33 kernel; axioms subset of {propext, Classical.choice, Quot.sound} (audited on every run)",
    "hand-written model LW.Model.Dist / Fock tied to the code by this correspondence check",
    "thewalrus.perm (permanent); float sqrt/abs/multiplication up to rounding",
    "the model is exact, the code rounds: entries within 1e-12 of the 1e-9 truncation threshold are compared leniently",
]
ASSUMPTIONS = ["<= 5 user modes per level, total modes (with loss) <= 10, <= 5 photons incl. heralds",
               "scenarios: <= 6 Samplers alive, <= 4 related circuits, <= 30 steps",
               "magnitude histories: moves of 1e-3 ... 1e-12 of the rational parameter t of the point "
               "((1-t^2)/(1+t^2), 2t/(1+t^2)); floats of the implementation are compared at >= 1e-13"]
EPS = Fraction(1, 10**9)


def get_eps() -> Fraction:
    from lightworks.__settings import settings

    return Fraction(settings.sampler_probability_threshold).limit_denominator(10**15)


def gen_case(ctx: Ctx, rng):
    prog = fg.gen_circuit(ctx, rng, max_depth=2, max_n=4)
    pool = fg.build_impl(prog)
    c = pool.get("c1")
    if c is None:
        return None
    u = np.array(c.U_full)
    if u.shape[0] > 9:
        return None
    cap = 5 if ctx.thorough else 4
    hp = fg.herald_photons(c)
    if hp > cap - 1:
        return None
    nph = rng.choice([0, 1, 2, 2, 3, 3, 4])
    nph = max(0, min(nph, cap - hp))
    if rng.random() < 0.25:
        # a beam splitter whose coupling is tiny but non-zero (|u|^2 below the 1e-9 truncation): the
        # truncation is per output STATE, never per matrix element
        m = rng.choice([10**5, 3 * 10**4, 2 * 10**5])
        a, b, cc = m * m - 1, 2 * m, m * m + 1
        cs = (Fraction(a, cc), Fraction(b, cc)) if rng.random() < 0.5 else (Fraction(b, cc), Fraction(a, cc))
        n_user = prog[0][2]
        if n_user >= 2 and prog[0][0] == "new":
            m1, m2 = rng.sample(range(n_user), 2)
            pos = rng.randint(1, len(prog))
            prog = prog[:pos] + [cg.op_bs("c1", m1, m2, cs[0], cs[1], rng.choice(["Rx", "H"]))] + prog[pos:]
            ctx.count("tiny_coupling_bs")
            pool = fg.build_impl(prog)
            c = pool.get("c1")
            if c is None:
                return None
    return {"prog": prog, "input": fg.rand_state(rng, c.input_modes, nph)}


def ref_dist(c, full_in: list[int]) -> dict:
    """the property's right-hand side from the implementation's own U_full (no truncation)"""
    u = np.array(c.U_full)
    n = c.n_modes
    nl = u.shape[0] - n
    tot = sum(full_in)
    ins = full_in + [0] * nl
    out: dict = {}
    for t in fg.fock_all(u.shape[0], tot):
        a = fg.ref_amplitude(u, ins, list(t))
        key = tuple(t[:n])
        out[key] = out.get(key, 0.0) + abs(a) ** 2
    return out


def nbasis_of(c, injected: int) -> int:
    return max(1, len(list(fg.fock_all(np.array(c.U_full).shape[0], injected))))


def oracle_problems(b: str, d: dict, c, user_input: list[int], eps: Fraction, relax: float = 0.0,
                    tight: float | None = None) -> list[str]:
    """the property's clauses evaluated on one distribution `d` ({pattern tuple: probability}) that the
    implementation returned for circuit `c` and input `user_input` (heralds not included) with backend `b`;
    `relax` is a relative slack (only used after a sampling call that may renormalise the stored values);
    `tight` replaces the absolute slack of 1e-9 (reads after a tiny change of a value)"""
    probs: list[str] = []
    full_in = fg.add_heralds(user_input, c.heralds["input"])
    injected = sum(full_in)
    ref = ref_dist(c, full_in)
    nbasis = nbasis_of(c, injected)
    tot = sum(d.values())
    if any(p < 0 for p in d.values()):
        probs.append(f"oracle[{b}]: negative probability")
    if not (1 - nbasis * float(eps) - 1e-9 <= tot <= 1 + 1e-9):
        probs.append(f"oracle[{b}]: distribution sums to {tot!r} (truncation allows a deficit of at most {nbasis}*1e-9)")
    for s, p in d.items():
        if sum(s) > injected and p > 1e-12:
            probs.append(f"oracle[{b}]: pattern {s} holds more photons than the {injected} injected")
        if len(s) != c.n_modes:
            probs.append(f"oracle[{b}]: pattern {s} is not on the circuit's {c.n_modes} modes")
    loss_modes = np.array(c.U_full).shape[0] - c.n_modes
    for s in set(d) | set(ref):
        pi, pr = d.get(s, 0.0), ref.get(s, 0.0)
        # the code drops every (pattern, loss configuration) term below the truncation threshold `eps`
        # before it marginalises, so a reported value may fall short of the exact marginal by up to
        # (number of loss configurations of that pattern) * eps; it may never exceed it (vacuum apart,
        # which collects the dropped mass)
        lost = injected - sum(s)
        k_s = math.comb(lost + loss_modes - 1, loss_modes - 1) if loss_modes > 0 and lost >= 0 else 1
        deficit = float(eps) * 1.001 * k_s
        slack = (1e-9 if tight is None or relax else tight) + relax * max(pi, pr)
        if tight is not None and loss_modes == 0 and pi > 0:
            deficit = 0.0  # nothing is marginalised: a pattern is reported as computed or dropped as a whole
        hi = slack + (nbasis * float(eps) if sum(s) == 0 and (tight is None or loss_modes > 0) else 0)
        if not (-(deficit + slack) <= pi - pr <= hi) and not (pi == 0 and pr <= float(eps) * 1.001 * nbasis + slack):
            probs.append(f"oracle[{b}]: P{list(s)} = {pi:.15g} but the sum over loss configurations of |amplitude|^2 is "
                         f"{pr:.15g}" + ("" if tight is None else f" (compared at {slack:.1e})"))
            break
    return probs


_MODEL_CACHE: dict = {}


def model_dist(ctx: Ctx, prog: list, user_input: list[int], b: str, eps: Fraction):
    key = json.dumps([prog, user_input, b, str(eps)])
    if key not in _MODEL_CACHE:
        if len(_MODEL_CACHE) > 4000:
            _MODEL_CACHE.clear()
        _MODEL_CACHE[key] = ctx.model.call({"op": "fock", "what": "dist", "prog": prog, "id": "c1", "input": user_input,
                                            "backend": b, "eps": f"{eps.numerator}/{eps.denominator}"})
    return _MODEL_CACHE[key]


def corr_problems(ctx: Ctx, b: str, d: dict, prog: list, user_input: list[int], eps: Fraction,
                  relax: float = 0.0, tight: float | None = None) -> list[str]:
    """correspondence with the exact model (same truncation rule); `tight`: absolute tolerance instead of 1e-9
    (used when nothing sits at the truncation threshold)"""
    m = model_dist(ctx, prog, user_input, b, eps)
    if "error_class" in m:
        return [f"corr[{b}]: model refuses the input ({m['error_class']}) that the implementation accepts"]
    md = {tuple(s): Fraction(p) for s, p in m["pdist"]}
    exact = {tuple(s): Fraction(p) for s, p in m["pdist_exact"]}
    amb = sum(1 for p in exact.values() if abs(p - eps) <= Fraction(1, 10**12))
    if amb:
        ctx.count("ambiguous_at_threshold", amb)
    for s in set(d) | set(md):
        pi, pm = d.get(s, 0.0), float(md.get(s, 0))
        tol = (1e-9 + amb * 1.1e-9 if (sum(s) == 0 or amb) else 1e-9) + relax * max(pi, pm)
        if tight is not None and not amb and not relax:
            tol = tight
        if abs(pi - pm) > tol:
            return [f"corr[{b}]: P{list(s)} impl={pi:.15g} model={pm:.15g} (compared at {tol:.1e})"]
    return []


def gen_bunch_case(rng) -> dict:
    """MANY photons on few modes (lossless): the occupation factorials of the normalisation leave the 64-bit range
    (15!*12! > 2^63, 13!*13! > 2^64) long before the computation becomes expensive for SLOS (28 output patterns for
    27 photons on two modes).  The exact model's SLOS recursion is compared with the implementation's SLOS backend,
    and - while a permanent of that size is still cheap - with the permanent backend (the two agree by theorem
    C04.backends_agree)."""
    from core import CIRCLE, PYTH

    n = rng.choice([2, 2, 2, 3])
    prog = [["new", "c1", n]]
    for _ in range(rng.randint(0, 4)):
        r = rng.random()
        if r < 0.6:
            m1, m2 = rng.sample(range(n), 2)
            c, s_ = rng.choice(PYTH)
            prog.append(cg.op_bs("c1", m1, m2, c, s_, rng.choice(["Rx", "H"])))
        else:
            prog.append(cg.op_ps("c1", rng.randrange(n), rng.choice(CIRCLE)))
    hi = 30 if n == 2 else 14
    tot = rng.choice([rng.randint(6, hi), rng.randint(12, hi), rng.choice([13, 14, 20, 21, 22, 26, 27])])
    tot = min(tot, hi)
    shape = rng.choice(["one-mode", "split", "split", "random"])
    if shape == "one-mode":
        st = [0] * n
        st[rng.randrange(n)] = tot
    elif shape == "split":
        a = rng.randint(tot // 3, tot - tot // 3)
        st = [0] * n
        i, j = rng.sample(range(n), 2)
        st[i], st[j] = a, tot - a
    else:
        st = fg.rand_state(rng, n, tot)
    return {"kind": "bunch", "prog": prog, "input": st}


def run_bunch(ctx: Ctx, case: dict) -> list[str]:
    probs: list[str] = []
    pool = fg.build_impl(case["prog"])
    c = pool.get("c1")
    if c is None or c.input_modes != len(case["input"]):
        return probs
    eps = get_eps()
    tot = sum(case["input"])
    n = c.n_modes
    nbasis = math.comb(tot + n - 1, n - 1)
    m = model_dist(ctx, case["prog"], case["input"], "slos", eps)
    if "error_class" in m:
        return [f"corr[slos]: model refuses the input ({m['error_class']})"]
    md = {tuple(s_): float(Fraction(p)) for s_, p in m["pdist"]}
    backends = ["slos"] + (["permanent"] if tot <= 14 else [])
    for b in backends:
        try:
            d = emulator.Sampler(c, lw.State(case["input"]), backend=b).probability_distribution
        except Exception as e:  # noqa: BLE001
            return [f"oracle: Sampler(backend={b}).probability_distribution raised {exc_class(e)} for the valid input "
                    f"{case['input']}: {str(e)[:80]}"]
        d = {tuple(s_.s): float(p) for s_, p in d.items()}
        tot_p = sum(d.values())
        if any(not (p >= 0) for p in d.values()):
            probs.append(f"oracle[{b}]: negative or non-finite probability for input {case['input']}")
        if not (1 - nbasis * float(eps) - 1e-9 <= tot_p <= 1 + 1e-9):
            probs.append(f"oracle[{b}]: distribution sums to {tot_p!r} for input {case['input']}")
        for s_, p in d.items():
            if sum(s_) != tot and p > 1e-12:
                probs.append(f"oracle[{b}]: lossless circuit, {tot} photons injected, but pattern {list(s_)} has probability {p:.3g}")
                break
        if probs:
            return probs
        for s_ in set(d) | set(md):
            pi, pm = d.get(s_, 0.0), md.get(s_, 0.0)
            if abs(pi - pm) > 2e-9 + 1e-9 * max(pi, pm):
                return [f"corr[{b}]: P{list(s_)} impl={pi:.15g} model={pm:.15g} for input {case['input']} (many photons)"]
    return probs


def run_case(ctx: Ctx, case: dict) -> list[str]:
    if case.get("kind") == "hist":
        return run_scenario(ctx, case)
    if case.get("kind") == "bunch":
        return run_bunch(ctx, case)
    probs: list[str] = []
    pool = fg.build_impl(case["prog"])
    c = pool.get("c1")
    if c is None or c.input_modes != len(case["input"]):
        return probs  # (shrinking may change the circuit's input size: not a case)
    eps = get_eps()
    dists = {}
    for b in ("permanent", "slos"):
        try:
            d = emulator.Sampler(c, lw.State(case["input"]), backend=b).probability_distribution
            dists[b] = {tuple(s.s): float(p) for s, p in d.items()}
        except Exception as e:  # noqa: BLE001
            probs.append(f"oracle: Sampler(backend={b}).probability_distribution raised {exc_class(e)}: {str(e)[:80]}")
            return probs
    full_in = fg.add_heralds(case["input"], c.heralds["input"])
    nbasis = nbasis_of(c, sum(full_in))
    for b, d in dists.items():
        probs += oracle_problems(b, d, c, case["input"], eps)
        if probs:
            return probs
    dp, ds = dists["permanent"], dists["slos"]
    for s in set(dp) | set(ds):
        if abs(dp.get(s, 0) - ds.get(s, 0)) > 1e-9 + nbasis * float(eps):
            probs.append(f"oracle: backends disagree on {list(s)}: permanent={dp.get(s, 0):.9g} slos={ds.get(s, 0):.9g}")
            return probs
    for b, d in dists.items():
        probs += corr_problems(ctx, b, d, case["prog"], case["input"], eps)
        if probs:
            return probs
    return probs


# ------------------------------------------------------------------------------------------------
# shared components and short histories
#
# A *scenario* is {"kind": "hist", "circuits": [spec..], "comp": {...}, "steps": [...]}:
#   spec  = {"prog": [...]}                       circuit c1 of a construction program
#         | {"ufull_of": j, "model_prog": [...]}  lw.Unitary(circuit_j.U_full): the loss modes of circuit j become
#                                                 ordinary measured modes (model_prog: the same matrix, exact)
#   comp  = {"backends": {"B0": "permanent", ..}, "sources": ["S0", ..], "detectors": {"D0": [eff, dark, pnr], ..},
#            "ps": {"P0": [[modes], [photons]], ..}}   objects created ONCE and handed to several Samplers
#   steps : ["new", name, ci, input, bref, sref, dref]   create a Sampler (bref: None | "str:<name>" | "B0")
#           ["read", name]                               probability_distribution -> all oracles
#           ["circuit", name, ci] ["input", name, s] ["backend", name, bref] ["source", name, sref]
#           ["detector", name, dref]                     assignments on a living Sampler
#           ["backend_mutate", "B0", bname]              Backend.backend assigned on the shared object
#           ["backend_mutate_own", name, bname]          sampler.backend.backend assigned (the Sampler's own Backend
#                                                        object when it was given as a string / by default)
#           ["extend", ci, ops]                          the circuit object is extended in place
#           ["sample", name, how, N, seed, pref]         a sampling call between reads (result not judged here)
#           ["new", ..., {"omit": ["source", ..]}]       the listed keyword arguments are left out instead of None
#           ["tune", name, "source"|"detector", {attr: value}]   sampler.source.attr = value: the object the Sampler
#                                                        holds is changed IN PLACE through the accessor
#           ["pset", key, kind, value]                   Parameter.set on a Parameter of the circuits (exact value)
#           ["read", name, {"tight": tol}]               a read after a tiny move: bit for bit / at `tol`
# Circuit programs may carry Parameters: a bs / ps / loss op whose trailing dict holds {"param": key} passes a
# lightworks.Parameter as reflectivity / phase / loss (first use creates it with the op's value, later uses - also
# in another circuit of the scenario - pass the same object).
# A step that does not apply (unknown name, input of the wrong length) is skipped, so every sub-list of
# steps is a valid scenario (needed for shrinking).


def _spec_ports(spec: dict, specs: list) -> int:
    if "prog" in spec:
        op = spec["prog"][0]
        return op[2] if op[0] == "new" else len(op[2])
    return len(spec["model_prog"][0][2])


IDEAL_SOURCE = {"brightness": 1, "purity": 1, "indistinguishability": 1, "probability_threshold": 0}
IDEAL_DETECTOR = {"efficiency": 1, "p_dark": 0, "photon_counting": True}


def _pex(op: list) -> dict:
    return op[-1] if op and isinstance(op[-1], dict) else {}


def val_float(kind: str, v) -> float:
    """the float handed to the library for an exact value (the conversions of circgen.apply_op)"""
    if kind == "ps":
        g = GQ.parse(v)
        return math.atan2(float(g.im), float(g.re))
    if kind == "bs":
        return float(Fraction(v[0]) ** 2)
    return float(Fraction(v[1]) ** 2)


def op_value(op: list):
    return op[3] if op[0] == "ps" else [op[4], op[5]] if op[0] == "bs" else [op[3], op[4]]


def literal_op(op: list, vals: dict) -> list:
    """the same call with its Parameter replaced by the value in `vals`"""
    ex = _pex(op)
    if "param" not in ex or ex["param"] not in vals:
        return op
    v = vals[ex["param"]]
    new = list(op[:-1])
    if op[0] == "ps":
        new[3] = v
    elif op[0] == "bs":
        new[4], new[5] = v
    else:
        new[3], new[4] = v
    new.append({k: x for k, x in ex.items() if k != "param"})
    return new


def point(t: Fraction) -> tuple[Fraction, Fraction]:
    """the rational point of the unit circle with parameter t"""
    t = Fraction(t)
    return (1 - t * t) / (1 + t * t), 2 * t / (1 + t * t)


def t_of(x, y) -> Fraction | None:
    x, y = Fraction(x), Fraction(y)
    return None if x == -1 else y / (1 + x)


def value_at(kind: str, t: Fraction):
    x, y = point(t)
    return GQ(x, y).s() if kind == "ps" else [frac_str(x), frac_str(y)]


class Scene:
    """the circuit objects of a scenario, their Parameters, and the construction program that describes each of
    them now"""

    def __init__(self, specs: list) -> None:
        self.pools: list[dict] = []
        self.progs: list[list] = []
        self.pars: dict = {}
        self.vals: dict = {}
        for sp in specs:
            if "prog" in sp:
                self.pools.append({})
                self.progs.append([])
                self.extend(len(self.pools) - 1, sp["prog"])
            else:
                src = self.pools[sp["ufull_of"]].get("c1")
                self.pools.append({} if src is None else {"c1": lw.Unitary(np.array(src.U_full))})
                self.progs.append(list(sp["model_prog"]))

    def circ(self, i: int):
        return self.pools[i].get("c1") if 0 <= i < len(self.pools) else None

    def apply(self, i: int, op: list) -> str:
        key = _pex(op).get("param")
        if key is None or op[0] not in ("ps", "bs", "loss"):
            return cg.apply_op(self.pools[i], op)
        name = op[0]
        if key not in self.pars:
            self.vals[key] = op_value(op)
            self.pars[key] = lw.Parameter(val_float(name, self.vals[key]), label=key)
        par = self.pars[key]
        try:
            c = self.pools[i][op[1]]
            if name == "ps":
                c.ps(op[2], par, loss=cg._loss_val(op[4], {}))
            elif name == "bs":
                c.bs(op[2], op[3], reflectivity=par, loss=cg._loss_val(op[7], {}), convention=op[6])
            else:
                c.loss(op[2], par)
        except Exception as e:  # noqa: BLE001
            return exc_class(e)
        return "ok"

    def extend(self, i: int, ops: list) -> list[str]:
        out = [self.apply(i, op) for op in ops]
        self.progs[i] = self.progs[i] + list(ops)
        return out

    def pset(self, key: str, kind: str, value) -> None:
        if key in self.pars:
            self.pars[key].set(val_float(kind, value))
            self.vals[key] = value

    def prog_now(self, i: int) -> list:
        """the construction program of circuit i with the current values of the Parameters as literals"""
        return [literal_op(op, self.vals) for op in self.progs[i]]


def _dist(obj) -> dict:
    return {tuple(s.s): float(p) for s, p in obj.probability_distribution.items()}


def cond_floor(prog: list) -> float:
    """how exactly the floats of the implementation can follow the exact model: the library computes a beam splitter
    from arccos(sqrt(reflectivity)), which loses the coupling sin(theta) = s to rounding as u/s when the
    reflectivity c^2 is next to 1, and the transmission amplitude a of a loss element as u/a when the loss b^2 is
    next to 1 (u ~ 1e-16); a tolerance below that would test the floating-point unit, not the Sampler"""
    worst = 0.0
    for op in prog:
        xs = []
        if op[0] == "bs":
            xs.append(op[5])
            xs += [op[7][0]] if op[7] else []
        elif op[0] == "ps":
            xs += [op[4][0]] if op[4] else []
        elif op[0] == "loss":
            xs.append(op[3])
        for x in xs:
            x = abs(float(Fraction(x)))
            if 0 < x < 1:
                worst = max(worst, 2e-14 / x)
    return worst


def mixture_ref(c, full_in: list[int], brightness: float) -> dict:
    """ideal-source distributions mixed over the photons a source of the given brightness really emits (every
    photon of the input, herald photons included, is there with probability `brightness`, independently)"""
    import itertools

    out: dict = {}
    for sub in itertools.product(*[range(k + 1) for k in full_in]):
        w = 1.0
        for k, j in zip(full_in, sub):
            w *= math.comb(k, j) * brightness ** j * (1 - brightness) ** (k - j)
        if w == 0:
            continue
        for t, p in ref_dist(c, list(sub)).items():
            out[t] = out.get(t, 0.0) + w * p
    return out


def run_scenario(ctx: Ctx, sc: dict) -> list[str]:
    undo: list = []
    try:
        return _run_scenario(ctx, sc, undo)
    finally:
        # what was tuned in place is set back (scenarios stay independent of each other, also when the library
        # hands the same object to several Samplers)
        for comp, attr, old in reversed(undo):
            try:
                setattr(comp, attr, old)
            except Exception:  # noqa: BLE001, PERF203
                pass


def _run_scenario(ctx: Ctx, sc: dict, undo: list) -> list[str]:
    eps = get_eps()
    cap = 6 if ctx.thorough else 5
    try:
        scene = Scene(sc["circuits"])
    except Exception as e:  # noqa: BLE001
        return [f"oracle: building the circuits of the scenario raised {exc_class(e)}: {str(e)[:80]}"]
    comp = sc.get("comp", {})
    backends = {k: emulator.Backend(v) for k, v in comp.get("backends", {}).items()}
    bnames = dict(comp.get("backends", {}))
    sources = {k: emulator.Source() for k in comp.get("sources", [])}
    detectors = {k: emulator.Detector(efficiency=v[0], p_dark=v[1], photon_counting=v[2])
                 for k, v in comp.get("detectors", {}).items()}
    # the harness's own record of what every component object was given (one record per object)
    src_rec = {k: dict(IDEAL_SOURCE) for k in sources}
    det_rec = {k: {"efficiency": v[0], "p_dark": v[1], "photon_counting": v[2]}
               for k, v in comp.get("detectors", {}).items()}
    pss = {}
    for k, v in comp.get("ps", {}).items():
        pss[k] = lw.PostSelection()
        pss[k].add(tuple(v[0]), tuple(v[1]))
    S: dict = {}

    def bk(bref):
        if bref is None:
            return None
        return bref[4:] if bref.startswith("str:") else backends[bref]

    def bname(bref) -> str:
        if bref is None:
            return "permanent"
        return bref[4:] if bref.startswith("str:") else bnames[bref]

    def settings_problems(name: str, s: dict) -> list[str]:
        """every Sampler reports what THIS object was given (read through the public accessors)"""
        obj = s["obj"]
        for what, rec in (("source", s["src"]), ("detector", s["det"])):
            for attr, want in rec.items():
                got = getattr(getattr(obj, what), attr)
                if got != want:
                    return [f"oracle: Sampler {name} reports {what}.{attr} = {got!r}; the {what} this Sampler was given "
                            f"(by default, or explicitly) holds {want!r} - it was changed through another object"]
        if obj.backend.backend != bname(s["bref"]):
            return [f"oracle: Sampler {name} reports backend {obj.backend.backend!r}; what it was given is "
                    f"{bname(s['bref'])!r}"]
        return []

    for k, st in enumerate(sc["steps"]):
        op = st[0]
        if op == "new":
            _, name, ci, inp, bref, sref, dref, *more = st
            omit = (more[0] if more else {}).get("omit", [])
            c = scene.circ(ci)
            if c is None or len(inp) != c.input_modes:
                continue
            kw = {"source": sources.get(sref), "detector": detectors.get(dref), "backend": bk(bref)}
            for w in omit:
                if kw.get(w) is None:
                    kw.pop(w, None)
            try:
                obj = emulator.Sampler(c, lw.State(inp), **kw)
            except Exception as e:  # noqa: BLE001
                return [f"oracle: step #{k} {st[:3]}: creating the Sampler raised {exc_class(e)}: {str(e)[:80]}"]
            S[name] = {"obj": obj, "ci": ci, "input": list(inp), "bref": bref, "relax": 0.0,
                       "src": src_rec[sref] if sref in src_rec else dict(IDEAL_SOURCE),
                       "det": det_rec[dref] if dref in det_rec else dict(IDEAL_DETECTOR)}
            continue
        if op == "backend_mutate":
            if st[1] in backends:
                backends[st[1]].backend = st[2]
                bnames[st[1]] = st[2]
            continue
        if op == "extend":
            if scene.circ(st[1]) is not None:
                scene.extend(st[1], st[2])
            continue
        if op == "pset":
            scene.pset(st[1], st[2], st[3])
            continue
        s = S.get(st[1])
        if s is None:
            continue
        obj = s["obj"]
        c = scene.circ(s["ci"])
        try:
            if op == "circuit":
                if scene.circ(st[2]) is not None:
                    obj.circuit = scene.circ(st[2])
                    s["ci"] = st[2]
            elif op == "input":
                if len(st[2]) == c.input_modes:
                    obj.input_state = lw.State(st[2])
                    s["input"] = list(st[2])
            elif op == "backend":
                obj.backend = bk(st[2])
                s["bref"] = st[2]
            elif op == "source":
                obj.source = sources.get(st[2])
                s["src"] = src_rec[st[2]] if st[2] in src_rec else dict(IDEAL_SOURCE)
            elif op == "detector":
                obj.detector = detectors.get(st[2])
                s["det"] = det_rec[st[2]] if st[2] in det_rec else dict(IDEAL_DETECTOR)
            elif op == "tune":
                target = getattr(obj, st[2])
                rec = s["src"] if st[2] == "source" else s["det"]
                for attr, v in st[3].items():
                    undo.append((target, attr, getattr(target, attr)))
                    setattr(getattr(obj, st[2]), attr, v)
                    rec[attr] = v
            elif op == "backend_mutate_own":
                undo.append((obj.backend, "backend", obj.backend.backend))
                obj.backend.backend = st[2]
                if s["bref"] is None or s["bref"].startswith("str:"):
                    s["bref"] = f"str:{st[2]}"  # a private object: nobody else may notice
                else:
                    bnames[s["bref"]] = st[2]
        except Exception as e:  # noqa: BLE001
            return [f"oracle: step #{k} {st}: the assignment raised {exc_class(e)}: {str(e)[:80]}"]
        if op == "sample":
            _, _, how, n, seed, pref = st
            try:
                if how == "one":
                    import random as pyrandom

                    pyrandom.seed(seed)
                    obj.sample()
                elif how == "outputs":
                    obj.sample_N_outputs(n, post_select=pss.get(pref), seed=seed)
                else:
                    # (may renormalise the stored values when numpy finds the truncated sum too far from one)
                    s["relax"] = 1.01 * nbasis_of(c, sum(s["input"]) + fg.herald_photons(c)) * float(eps)
                    obj.sample_N_inputs(n, post_select=pss.get(pref), seed=seed)
            except Exception:  # noqa: BLE001  (not an observable of this property; C07/C11 judge sampling calls)
                ctx.count("hist:sampling_call_raised")
            continue
        if op != "read":
            continue
        if len(s["input"]) != c.input_modes:
            ctx.count("hist:read_skipped_input_length")
            continue
        if sum(s["input"]) + fg.herald_photons(c) > cap or np.array(c.U_full).shape[0] > 11:
            ctx.count("hist:read_skipped_too_large")
            continue
        tight = st[2].get("tight") if len(st) > 2 and isinstance(st[2], dict) else None
        b = bname(s["bref"])
        where = f"step #{k} read {st[1]} (circuit {s['ci']}, input {s['input']}, backend {s['bref']}={b})"
        # (reported after the clauses about the distribution, which are what the property is about)
        setp = [f"{p}  [{where}]" for p in settings_problems(st[1], s)]
        try:
            d = _dist(obj)
        except Exception as e:  # noqa: BLE001
            return [f"oracle: {where}: probability_distribution raised {exc_class(e)}: {str(e)[:80]}"]
        rec = s["src"]
        ideal = rec["brightness"] == 1 and rec["purity"] == 1 and rec["indistinguishability"] == 1
        if ideal:
            probs = oracle_problems(b, d, c, s["input"], eps, s["relax"], tight)
            if probs:
                return [f"{probs[0]}  [{where}]", *probs[1:], *setp]
        elif rec["purity"] == 1 and rec["indistinguishability"] == 1:
            # the property speaks about the ideal source; a source that only loses photons is a mixture of ideal ones
            ctx.count("hist:read:brightness-mixture")
            full_in = fg.add_heralds(s["input"], c.heralds["input"])
            ref = mixture_ref(c, full_in, rec["brightness"])
            slack = 2 ** sum(full_in) * nbasis_of(c, sum(full_in)) * float(eps) + 1e-9
            for t in set(d) | set(ref):
                if abs(d.get(t, 0.0) - ref.get(t, 0.0)) > slack:
                    return [f"oracle[{b}]: P{list(t)} = {d.get(t, 0.0):.9g} with a source of brightness {rec['brightness']!r} "
                            f"but the mixture of the ideal-source distributions gives {ref.get(t, 0.0):.9g}  [{where}]", *setp]
        else:
            ctx.count("hist:read:imperfect-source:fresh-object-only")
        # a fresh Sampler (own Backend / Source / Detector) with the same settings
        try:
            fd = _dist(emulator.Sampler(c, lw.State(s["input"]), backend=b) if ideal else
                       emulator.Sampler(c, lw.State(s["input"]), source=emulator.Source(**rec), backend=b))
        except Exception as e:  # noqa: BLE001
            return [f"oracle: {where}: a fresh Sampler with the same settings raised {exc_class(e)}: {str(e)[:80]}"]
        for t in set(d) | set(fd):
            x, y = d.get(t, 0.0), fd.get(t, 0.0)
            if (x != y) if (tight is not None and not s["relax"]) else (abs(x - y) > 1e-9 + s["relax"] * max(x, y)):
                return [f"oracle[{b}]: P{list(t)} = {x!r} but a fresh Sampler with the same settings gives {y!r}"
                        f"{' (bit-for-bit comparison after a small change of a value)' if tight is not None else ''}"
                        f"  [{where}]", *setp]
        if setp:
            return setp
        if not ideal:
            continue
        pnow = scene.prog_now(s["ci"])
        probs = corr_problems(ctx, b, d, pnow, s["input"], eps, s["relax"],
                              None if tight is None else max(tight, cond_floor(pnow)))
        if probs:
            return [f"{probs[0]}  [{where}]"]
    return []


# ---- generation of scenarios


def _clone(x):
    return json.loads(json.dumps(x))


def _dims_ok(c, cap: int, user_photons: int = 0) -> bool:
    return c is not None and np.array(c.U_full).shape[0] <= 9 and fg.herald_photons(c) + user_photons <= cap


def rel_ufull(ctx: Ctx, specs: list, j: int) -> dict | None:
    """the circuit 'Unitary(U_full of circuit j)': same matrix, no loss modes, no heralds"""
    if "prog" not in specs[j]:
        return None
    m = ctx.model.call({"op": "circ", "prog": specs[j]["prog"], "observe": ["c1"]})
    fin = m["final"].get("c1")
    if not fin:
        return None
    return {"ufull_of": j, "model_prog": [["unitary", "c1", fin["U_full"]]]}


def rel_reherald(rng, prog: list) -> list | None:
    """same calls, other herald photon numbers (U_full and all dimensions stay the same)"""
    q = _clone(prog)
    hs = [op for op in q if op[0] == "herald" and isinstance(op[2], int)]
    if not hs:
        return None
    for op in rng.sample(hs, rng.randint(1, len(hs))):
        op[2] = rng.choice([v for v in (0, 1, 1, 2) if v != op[2]])
    return q


def rel_moved(rng, prog: list) -> list | None:
    """same calls, one top-level herald declared on another output (or input) mode"""
    q = _clone(prog)
    hs = [op for op in q if op[0] == "herald" and op[1] == "c1"]
    if not hs or q[0][0] != "new":
        return None
    op = rng.choice(hs)
    w = rng.choice([3, 4, 4])
    op[w] = rng.choice([m for m in range(q[0][2]) if m != op[w]] or [op[w]])
    if isinstance(op[-1], dict):
        op[-1].pop("form", None)
    return q


def rel_revalue(rng, prog: list) -> list | None:
    """same calls on the same modes, other values (reflectivities, phases, non-zero losses)"""
    from core import CIRCLE, PYTH, frac_str

    inner = [p for p in PYTH if 0 < p[1] < 1]
    q = _clone(prog)
    changed = False
    for op in q:
        ex = op[-1] if isinstance(op[-1], dict) else {}
        if op[0] == "bs" and "refl" not in ex and rng.random() < 0.7:
            c, s = rng.choice(inner)
            op[4], op[5] = frac_str(c), frac_str(s)
            changed = True
        elif op[0] == "ps" and rng.random() < 0.7:
            g = rng.choice(CIRCLE)
            op[3] = g.s()
            changed = True
        elif op[0] == "loss" and "loss" not in ex and Fraction(op[4]) != 0 and rng.random() < 0.7:
            a, b = rng.choice(inner)
            op[3], op[4] = frac_str(a), frac_str(b)
            changed = True
    return q if changed else None


def gen_extension(ctx: Ctx, rng, scene: Scene, ports: int, ci: int, user_photons: int, cap: int,
                  kind: str | None = None) -> list | None:
    """calls that extend circuit ci in place; tried on a scratch copy first"""
    c = scene.circ(ci)
    kind = kind or rng.choice(["gate", "gate", "prim", "prim", "herald", "loss"])
    tag = f"x{len(scene.progs[ci])}"
    if kind == "gate":
        # a heralded gate: Circuit.add of a block that carries its own ancilla (the circuit gains a mode and a
        # herald, its input_modes stay the same)
        sz = rng.randint(2, 3)
        if ports < sz - 1:
            return None
        room = cap - user_photons - fg.herald_photons(c)
        ph = rng.choice([0, 1, 1]) if room >= 1 else 0
        hm = rng.randrange(sz)
        ho = hm if rng.random() < 0.5 else rng.randrange(sz)
        ops = [["unitary", tag, cg.mat_json(cg.exact_unitary(rng, sz, depth=rng.randint(2, 5)))],
               ["herald", tag, ph, hm, ho], ["add", "c1", tag, rng.randint(0, ports - (sz - 1)), rng.random() < 0.5]]
    elif kind == "herald":
        room = cap - user_photons - fg.herald_photons(c)
        ph = rng.choice([0, 1, 1]) if room >= 1 else 0
        i = rng.randrange(ports)
        ops = [["herald", "c1", ph, i, i if rng.random() < 0.5 else rng.randrange(ports)]]
    elif kind == "loss":
        from core import PYTH

        a, b = rng.choice([p for p in PYTH if 0 < p[1] < 1])
        ops = [cg.op_loss("c1", rng.randrange(ports), a, b)]
    else:
        ops = [cg.rand_prim_op(rng, "c1", ports, p_invalid=0.0, allow_loss=rng.random() < 0.4)
               for _ in range(rng.randint(1, 2))]
    # scratch run: accepted by the implementation and still small enough?
    trial = Scene.__new__(Scene)
    trial.pools = [{k: v.copy() for k, v in scene.pools[ci].items()}]
    trial.progs = [[]]
    trial.pars, trial.vals = {}, {}
    try:
        res = trial.extend(0, _clone(ops))
    except Exception:  # noqa: BLE001
        return None
    if any(r != "ok" for r in res) or not _dims_ok(trial.circ(0), cap):
        return None
    ctx.count(f"hist:extend:{kind}")
    return ops


class HistGen:
    """random / directed scenarios; mirrors the configuration on its own circuit objects to stay valid"""

    def __init__(self, ctx: Ctx, rng, specs: list, cap: int) -> None:
        self.ctx, self.rng, self.cap = ctx, rng, cap
        self.specs = specs
        self.scene = Scene(specs)
        self.ports = [_spec_ports(sp, specs) for sp in specs]
        self.steps: list = []
        self.S: dict = {}
        self.comp = {"backends": {}, "sources": [], "detectors": {}, "ps": {}}

    def state_for(self, ci: int, like: list | None = None) -> list[int]:
        c = self.scene.circ(ci)
        room = max(0, self.cap - fg.herald_photons(c))
        if like is not None and len(like) == c.input_modes and sum(like) <= room:
            return list(like)
        nph = min(room, self.rng.choice([0, 1, 2, 2, 3, 3]))
        return fg.rand_state(self.rng, c.input_modes, nph)

    def new(self, name: str, ci: int, inp: list | None, bref, sref=None, dref=None, omit: list | None = None) -> None:
        inp = self.state_for(ci, inp)
        self.steps.append(["new", name, ci, inp, bref, sref, dref] + ([{"omit": list(omit)}] if omit else []))
        self.S[name] = {"ci": ci, "input": inp, "bref": bref}

    def read(self, name: str, tight: float | None = None) -> None:
        self.steps.append(["read", name] if tight is None else ["read", name, {"tight": tight}])

    def tune(self, name: str, what: str, values: dict) -> None:
        self.steps.append(["tune", name, what, dict(values)])
        self.ctx.count(f"hist:tune:{what}:" + "+".join(sorted(values)))

    def small_input(self, ci: int, most: int = 2) -> list[int]:
        c = self.scene.circ(ci)
        room = max(0, min(most, self.cap - fg.herald_photons(c)))
        return fg.rand_state(self.rng, c.input_modes, min(room, self.rng.choice([1, 2, 2])))

    def fix_input(self, name: str, force: bool = False) -> None:
        s = self.S[name]
        c = self.scene.circ(s["ci"])
        if force or len(s["input"]) != c.input_modes or sum(s["input"]) + fg.herald_photons(c) > self.cap:
            inp = self.state_for(s["ci"], None if force else s["input"])
            self.steps.append(["input", name, inp])
            s["input"] = inp

    def set_circuit(self, name: str, ci: int) -> None:
        self.steps.append(["circuit", name, ci])
        self.S[name]["ci"] = ci
        self.fix_input(name)

    def extend(self, ci: int, kind: str | None = None) -> bool:
        users = [s for s in self.S.values() if s["ci"] == ci]
        ops = gen_extension(self.ctx, self.rng, self.scene, self.ports[ci], ci, max([sum(s["input"]) for s in users] or [0]),
                            self.cap, kind)
        if ops is None:
            return False
        self.steps.append(["extend", ci, ops])
        self.scene.extend(ci, _clone(ops))
        for n, s in self.S.items():
            if s["ci"] == ci:
                self.fix_input(n)
        return True

    def scenario(self) -> dict:
        return {"kind": "hist", "circuits": self.specs, "comp": self.comp, "steps": self.steps}


def corpus_bases() -> list:
    F = Fraction
    from core import GQ

    i = GQ(0, 1)
    w = GQ(F(3, 5), F(4, 5))
    return [
        # one loss element between two beam splitters (one loss mode)
        [["new", "c1", 2], cg.op_ps("c1", 0, w), cg.op_bs("c1", 0, 1, F(3, 5), F(4, 5)), cg.op_loss("c1", 0, F(4, 5), F(3, 5)),
         cg.op_ps("c1", 1, i), cg.op_bs("c1", 0, 1, F(5, 13), F(12, 13), "H")],
        # lossy beam splitter (two loss modes) and a top-level herald whose output sits on another mode
        [["new", "c1", 3], cg.op_bs("c1", 0, 1, F(4, 5), F(3, 5)), cg.op_bs("c1", 1, 2, F(8, 17), F(15, 17), "Rx", (F(12, 13), F(5, 13))),
         ["herald", "c1", 1, 2, 0], cg.op_bs("c1", 0, 2, F(3, 5), F(4, 5), "H")],
        # a heralded gate added as a group, then loss on a user mode, idle herald with no photon
        [["new", "c1", 3], ["unitary", "g1", [["3/5,0", "0,4/5"], ["0,4/5", "3/5,0"]]], ["herald", "g1", 1, 1, 1],
         ["add", "c1", "g1", 1, True], cg.op_loss("c1", 1, F(3, 5), F(4, 5)), cg.op_bs("c1", 0, 1, F(5, 13), F(12, 13)),
         ["herald", "c1", 0, 2, 2]],
        # lossless, two top-level heralds
        [["new", "c1", 4], cg.op_bs("c1", 0, 1, F(3, 5), F(4, 5)), cg.op_bs("c1", 2, 3, F(4, 5), F(3, 5), "H"),
         cg.op_bs("c1", 1, 2, F(8, 17), F(15, 17)), ["herald", "c1", 1, 3, 3], ["herald", "c1", 0, 0, 1],
         cg.op_ps("c1", 1, w)],
    ]


RELATIONS = ["ufull", "reherald", "moved", "revalue", "same_calls", "same_object"]


def related_spec(ctx: Ctx, rng, specs: list, j: int, rel: str, cap: int) -> dict | int | None:
    """a circuit related to circuit j (a new spec, or j itself for 'same_object')"""
    if rel == "same_object":
        return j
    if rel == "ufull":
        return rel_ufull(ctx, specs, j)
    if "prog" not in specs[j]:
        return None
    prog = specs[j]["prog"]
    q = {"reherald": rel_reherald, "moved": rel_moved, "revalue": rel_revalue,
         "same_calls": lambda _r, p: _clone(p)}[rel](rng, prog)
    if q is None:
        return None
    a, b = fg.build_impl(prog).get("c1"), fg.build_impl(q).get("c1")
    if b is None or a is None or not _dims_ok(b, cap):
        return None
    if b.input_modes != a.input_modes or np.array(a.U_full).shape != np.array(b.U_full).shape or (
            len(a.heralds["input"]) != len(b.heralds["input"])):
        return None
    return {"prog": q}


def pair_scenarios(ctx: Ctx, rng, base: list, base_input: list | None, cap: int, rels: list, names=("permanent", "slos"),
                   sharings=("obj", "str"), orders=(0, 1)) -> list:
    """two (three) Samplers on related circuits of equal dimensions that share their components, both orders"""
    out = []
    for rel in rels:
        specs = [{"prog": base}]
        r = related_spec(ctx, rng, specs, 0, rel, cap)
        if r is None:
            ctx.count(f"hist:relation_not_applicable:{rel}")
            continue
        ib = 0 if isinstance(r, int) else 1
        if ib:
            specs.append(r)
        for bn in names:
            for sharing in sharings:
                for order in orders:
                    g = HistGen(ctx, rng, _clone(specs), cap)
                    ia = g.state_for(0, base_input)
                    if rel == "ufull":
                        a = g.scene.circ(0)
                        k = np.array(a.U_full).shape[0] - a.n_modes
                        inb = fg.add_heralds(ia, a.heralds["input"]) + [0] * k  # the same photons on the same columns
                    else:
                        inb = ia if rng.random() < 0.7 else None
                    if sharing == "obj":
                        g.comp = {"backends": {"B0": bn}, "sources": ["S0"], "detectors": {"D0": [1, 0, True]}, "ps": {}}
                        refs = ("B0", "S0", "D0")
                    else:
                        refs = (f"str:{bn}", None, None)
                    first, second = ((0, ia), (ib, inb)) if order == 0 else ((ib, inb), (0, ia))
                    g.new("s1", first[0], first[1], *refs)
                    g.read("s1")
                    g.new("s2", second[0], second[1], *refs)
                    g.read("s2")
                    g.read("s1")
                    g.new("s3", first[0], first[1], *refs)
                    g.read("s3")
                    ctx.count(f"hist:pair:{rel}:{sharing}")
                    out.append(g.scenario())
    return out


def single_history(ctx: Ctx, rng, base: list, base_input: list | None, cap: int, bn: str, directed: bool) -> dict:
    """one Sampler driven through in-place extensions, herald changes, input and backend switches"""
    other = "slos" if bn == "permanent" else "permanent"
    specs = [{"prog": base}]
    for rel in ("reherald", "revalue", "moved"):
        r = related_spec(ctx, rng, specs, 0, rel, cap)
        if isinstance(r, dict):
            specs.append(r)
    g = HistGen(ctx, rng, specs, cap)
    g.comp = {"backends": {"B0": bn, "B1": other}, "sources": ["S0"], "detectors": {"D0": [1, 0, True], "D1": [0.9, 0, False]},
              "ps": {"P0": [[0], [0]], "P1": [[0], [1]]}}
    g.new("s1", 0, base_input, rng.choice(["B0", f"str:{bn}", "B0"]), rng.choice(["S0", None]), rng.choice(["D0", None]))
    g.read("s1")

    def act(kind: str) -> None:
        s = g.S["s1"]
        if kind.startswith("extend"):
            if not g.extend(s["ci"], kind[7:] or None):
                return
        elif kind == "backend_str":
            cur = "B0" if s["bref"] is None else s["bref"]
            now = cur[4:] if cur.startswith("str:") else g.comp_now[cur]
            g.steps.append(["backend", "s1", f"str:{'slos' if now == 'permanent' else 'permanent'}"])
            s["bref"] = g.steps[-1][2]
        elif kind == "backend_obj":
            g.steps.append(["backend", "s1", rng.choice(["B0", "B1"])])
            s["bref"] = g.steps[-1][2]
        elif kind == "backend_mutate":
            b = rng.choice(["B0", "B1"])
            g.comp_now[b] = "slos" if g.comp_now[b] == "permanent" else "permanent"
            g.steps.append(["backend_mutate", b, g.comp_now[b]])
        elif kind == "backend_mutate_own":
            cur = s["bref"]
            if cur is None or cur.startswith("str:"):
                now = "permanent" if cur is None else cur[4:]
                new = "slos" if now == "permanent" else "permanent"
                s["bref"] = f"str:{new}"
            else:
                new = g.comp_now[cur] = "slos" if g.comp_now[cur] == "permanent" else "permanent"
            g.steps.append(["backend_mutate_own", "s1", new])
        elif kind == "circuit":
            g.set_circuit("s1", rng.choice([i for i in range(len(specs)) if i != s["ci"]] or [0]))
        elif kind == "input":
            g.fix_input("s1", force=True)
        elif kind == "source":
            g.steps.append(["source", "s1", rng.choice(["S0", None])])
        elif kind == "detector":
            g.steps.append(["detector", "s1", rng.choice(["D0", "D1", None])])
        elif kind == "sample":
            g.steps.append(["sample", "s1", rng.choice(["one", "outputs", "inputs"]), rng.choice([5, 20]), rng.randrange(1000),
                            rng.choice(["P0", "P1", None])])
        ctx.count(f"hist:single:{kind}")
        g.read("s1")

    g.comp_now = dict(g.comp["backends"])
    if directed:
        plan = ["extend:gate", "backend_str", "backend_str", "circuit", "backend_obj", "extend:prim", "input", "backend_mutate",
                "extend:herald", "sample", "circuit", "backend_mutate_own", "extend:gate", "backend_mutate", "extend:loss"]
    else:
        plan = [rng.choice(["extend:gate", "extend:gate", "extend:prim", "extend:herald", "extend:loss", "backend_str",
                            "backend_obj", "backend_mutate", "backend_mutate_own", "circuit", "circuit", "input", "source",
                            "detector", "sample"])
                for _ in range(rng.randint(3, 7))]
    for kind in plan:
        act(kind)
    del g.comp_now
    return g.scenario()


def shared_history(ctx: Ctx, rng, base: list, base_input: list | None, cap: int) -> dict | None:
    """several Samplers that live at the same time, share Backend / Source / Detector objects and circuit objects, and
    are reconfigured and read in interleaved order"""
    specs = [{"prog": base}]
    for rel in rng.sample(RELATIONS[:5], rng.randint(1, 3)):
        r = related_spec(ctx, rng, specs, 0, rel, cap)
        if isinstance(r, dict):
            specs.append(r)
            ctx.count(f"hist:shared:relation:{rel}")
    g = HistGen(ctx, rng, specs, cap)
    b0 = rng.choice(["permanent", "slos"])
    now = {"B0": b0, "B1": rng.choice(["permanent", "slos"])}
    g.comp = {"backends": dict(now), "sources": ["S0"], "detectors": {"D0": [1, 0, True], "D1": [0.8, 0, False]},
              "ps": {"P0": [[0], [1]]}}
    brefs = ["B0", "B0", "B0", "B1", f"str:{b0}", None]
    k = 0

    def add_sampler() -> str:
        nonlocal k
        k += 1
        name = f"s{k}"
        ci = rng.randrange(len(specs))
        like = next((s["input"] for s in g.S.values()), base_input)
        if "ufull_of" in specs[ci] and g.S:
            # the photons of an existing Sampler of the source circuit, on the same columns of the same matrix
            srcs = [s for s in g.S.values() if s["ci"] == specs[ci]["ufull_of"]]
            a = g.scene.circ(specs[ci]["ufull_of"])
            if srcs and len(srcs[0]["input"]) == a.input_modes:
                like = fg.add_heralds(srcs[0]["input"], a.heralds["input"]) + [0] * (np.array(a.U_full).shape[0] - a.n_modes)
        g.new(name, ci, like, rng.choice(brefs), rng.choice(["S0", "S0", None]), rng.choice(["D0", "D1", None]))
        g.read(name)
        return name

    add_sampler()
    for _ in range(rng.randint(3, 8)):
        r = rng.random()
        name = rng.choice(list(g.S))
        s = g.S[name]
        if r < 0.3 and len(g.S) < 4:
            add_sampler()
            ctx.count("hist:shared:new_sampler")
        elif r < 0.42:
            g.set_circuit(name, rng.randrange(len(specs)))
            g.read(name)
            ctx.count("hist:shared:circuit")
        elif r < 0.52:
            if g.extend(s["ci"]):
                for n2 in [n for n, t in g.S.items() if t["ci"] == s["ci"]]:
                    g.read(n2)
        elif r < 0.6:
            g.fix_input(name, force=True)
            g.read(name)
            ctx.count("hist:shared:input")
        elif r < 0.7:
            g.steps.append(["backend", name, rng.choice(brefs + ["str:slos", "str:permanent"])])
            s["bref"] = g.steps[-1][2]
            g.read(name)
            ctx.count("hist:shared:backend")
        elif r < 0.78:
            b = rng.choice(["B0", "B1"])
            now[b] = "slos" if now[b] == "permanent" else "permanent"
            g.steps.append(["backend_mutate", b, now[b]])
            for n2 in [n for n, t in g.S.items() if t["bref"] == b] or [name]:
                g.read(n2)
            ctx.count("hist:shared:backend_mutate")
        elif r < 0.83:
            # the Backend object that this Sampler holds is switched through the Sampler: every Sampler that was
            # handed the same object follows, Samplers that were given a string (their own object) must not
            cur = s["bref"]
            if cur is None or cur.startswith("str:"):
                new = "slos" if (cur or "str:permanent")[4:] == "permanent" else "permanent"
                s["bref"] = f"str:{new}"
            else:
                new = now[cur] = "slos" if now[cur] == "permanent" else "permanent"
            g.steps.append(["backend_mutate_own", name, new])
            for n2 in list(g.S):
                g.read(n2)
            ctx.count("hist:shared:backend_mutate_own")
        elif r < 0.9:
            g.steps.append(["sample", name, rng.choice(["one", "outputs", "inputs"]), rng.choice([5, 20]), rng.randrange(1000),
                            rng.choice(["P0", None])])
            g.read(rng.choice(list(g.S)))
            ctx.count("hist:shared:sample")
        else:
            g.read(name)
    return g.scenario()


# ---- default components per object

TUNES = {"source": [{"brightness": 0.6}, {"indistinguishability": 0.8, "brightness": 0.6}, {"purity": 0.9},
                    {"indistinguishability": 0.5}, {"brightness": 0.85, "purity": 0.95}],
         "detector": [{"efficiency": 0.7}, {"p_dark": 0.05}, {"photon_counting": False},
                      {"efficiency": 0.5, "photon_counting": False}]}
ALL_KW = ["source", "detector", "backend"]


def defaults_scenario(ctx: Ctx, rng, base: list, cap: int, what: str, variant: int) -> dict:
    """Samplers that were given NO source / detector / backend (argument left out, None, re-assigned to None); one
    of them is tuned in place through its accessor; the others - created before and after - must not notice, a
    Sampler that shares an explicitly given object must"""
    specs = [{"prog": base}]
    for rel in ("revalue", "same_calls"):
        r = related_spec(ctx, rng, specs, 0, rel, cap)
        if isinstance(r, dict):
            specs.append(r)
            break
    g = HistGen(ctx, rng, specs, cap)
    ib = len(specs) - 1
    g.comp = {"backends": {"B0": rng.choice(["permanent", "slos"])}, "sources": ["S0"], "detectors": {"D0": [1, 0, True]},
              "ps": {"P0": [[0], [0]]}}
    omit_first = variant % 2 == 0
    b2 = [None, "str:slos", "str:permanent"][variant % 3]
    in0, in1 = g.small_input(0), g.small_input(ib)
    tunes = TUNES.get(what, [])
    t1 = tunes[variant % len(tunes)] if tunes else None
    t2 = tunes[(variant + 1 + variant // len(tunes)) % len(tunes)] if tunes else None

    def tune(name: str, t) -> None:
        if what == "backend":
            cur = g.S[name]["bref"]
            now = "permanent" if cur is None else cur[4:]
            new = "slos" if now == "permanent" else "permanent"
            g.steps.append(["backend_mutate_own", name, new])
            g.S[name]["bref"] = f"str:{new}"
            ctx.count("hist:tune:backend")
        else:
            g.tune(name, what, t)

    def sample(name: str) -> None:
        g.steps.append(["sample", name, rng.choice(["outputs", "inputs", "one"]), 10, rng.randrange(1000), None])

    g.new("s1", 0, in0, None, None, None, ALL_KW if omit_first else None)
    g.new("s2", ib, in1, b2 if what != "backend" else None, None, None, None if omit_first else ALL_KW)
    if variant % 4 < 2:
        g.read("s1")
        g.read("s2")
    tune("s1", t1)
    g.read("s2")
    if what == "detector":
        sample("s1")
        sample("s2")
    g.new("s3", 0 if variant % 2 else ib, in0 if variant % 2 else in1, None, None, None, ALL_KW if variant % 3 else None)
    g.read("s3")
    g.read("s1")
    # the tuned Sampler goes back to a default object: ideal again, and a NEW object
    if what == "backend":
        g.steps.append(["backend", "s1", None])
        g.S["s1"]["bref"] = None
    else:
        g.steps.append([what, "s1", None])
    g.read("s1")
    tune("s1", t2)
    g.read("s2")
    g.read("s3")
    g.read("s1")
    if what != "backend":
        # an object given explicitly to two Samplers IS shared: tuning it through one accessor shows in both,
        # and in nobody else
        g.new("s4", 0, in0, "B0", "S0", "D0")
        g.new("s5", ib, in1, "B0", "S0", "D0")
        tune("s4", t1)
        g.read("s5")
        g.read("s2")
        g.steps.append([what, "s5", None])
        g.read("s5")
        g.new("s6", ib, in1, None, None, None, ALL_KW)
        g.read("s6")
    ctx.count(f"hist:defaults:{what}")
    return g.scenario()


# ---- magnitude of a change

MAG_EXPS = [3, 6, 8, 5, 10, 7, 12, 9, 4, 11]


def tight_for(delta: Fraction | float) -> float:
    return max(float(delta) / 50, 1e-13)


def mag_bases() -> list:
    """(program with ONE Parameter 'p0', kind, input) - the Parameter's value is the rational point with parameter t"""
    F = Fraction
    from core import GQ

    def par(op):
        op[-1]["param"] = "p0"
        return op

    w = GQ(F(3, 5), F(4, 5))
    out = []
    # two photons on a beam splitter next to the interference dip: P[1,1] = (2R-1)^2 ~ 6e-8 resp. 2e-6
    for t in (F(29, 70), F(12, 29)):
        c, s_ = point(t)
        out.append(([["new", "c1", 2], par(cg.op_bs("c1", 0, 1, c, s_, "Rx"))], "bs", [1, 1]))
    # a phase between beam splitters, a loss element on the third mode (the shape of a fine fringe scan)
    x, y = point(F(2, 5))
    out.append(([["new", "c1", 3], cg.op_bs("c1", 0, 1, F(3, 5), F(4, 5), "H"), cg.op_bs("c1", 1, 2, F(4, 5), F(3, 5), "H"),
                 par(cg.op_ps("c1", 1, GQ(x, y))), cg.op_loss("c1", 2, F(12, 13), F(5, 13)),
                 cg.op_bs("c1", 0, 1, F(5, 13), F(12, 13), "H"), cg.op_bs("c1", 1, 2, F(3, 5), F(4, 5), "Rx")], "ps", [1, 1, 0]))
    # a loss element whose value moves
    a, b = point(F(1, 3))
    out.append(([["new", "c1", 2], cg.op_bs("c1", 0, 1, F(3, 5), F(4, 5)), par(cg.op_loss("c1", 0, a, b)), cg.op_ps("c1", 1, w),
                 cg.op_bs("c1", 0, 1, F(8, 17), F(15, 17), "H")], "loss", [2, 0]))
    # the Parameter inside a heralded group
    x, y = point(F(3, 7))
    out.append(([["new", "g1", 3], cg.op_bs("g1", 0, 2, F(4, 5), F(3, 5)), par(cg.op_ps("g1", 2, GQ(x, y))),
                 cg.op_bs("g1", 1, 2, F(5, 13), F(12, 13), "H"), ["herald", "g1", 1, 2, 2],
                 ["new", "c1", 3], cg.op_bs("c1", 1, 2, F(3, 5), F(4, 5), "H"), ["add", "c1", "g1", 0, True],
                 cg.op_bs("c1", 1, 2, F(8, 17), F(15, 17))], "ps", [1, 0, 1]))
    # a reflectivity next to 1 (the beam splitter is almost absent), loss on the other arm
    c, s_ = point(F(1, 10**4))
    out.append(([["new", "c1", 3], cg.op_bs("c1", 0, 1, F(3, 5), F(4, 5)), par(cg.op_bs("c1", 1, 2, c, s_, "H")),
                 cg.op_loss("c1", 0, F(4, 5), F(3, 5)), cg.op_bs("c1", 0, 1, F(12, 13), F(5, 13), "H")], "bs", [1, 1, 0]))
    return out


def find_param_op(prog: list, key: str = "p0"):
    for op in prog:
        if _pex(op).get("param") == key:
            return op
    return None


def magnitude_scenario(ctx: Ctx, rng, prog: list, kind: str, inp: list | None, cap: int, bn: str, mover: str,
                       exps: list) -> dict | None:
    """one long-lived Sampler; the value of ONE component moves by 10^-e for every e of `exps`"""
    op0 = find_param_op(prog)
    if op0 is None:
        return None
    v0 = op_value(op0)
    t0 = t_of(GQ.parse(v0).re, GQ.parse(v0).im) if kind == "ps" else t_of(*v0)
    if t0 is None:
        return None
    ts = [t0]
    for j, e in enumerate(exps):
        t = ts[-1] + (1 if j % 3 else -1) * Fraction(1, 10**e)
        if kind != "ps" and not 0 <= t <= 1:
            # reflectivity = x^2 and loss = y^2 of the point (x, y): the library sees the squares, so the point stays
            # in the first quadrant (as all generated beam splitters and loss elements do)
            t = ts[-1] - (1 if j % 3 else -1) * Fraction(1, 10**e)
        ts.append(t)
    if mover == "pset":
        g = HistGen(ctx, rng, [{"prog": prog}], cap)
        g.comp = {"backends": {"B0": bn}, "sources": [], "detectors": {}, "ps": {}}
        g.new("s1", 0, inp, rng.choice(["B0", f"str:{bn}"]), None, None, ["source", "detector"])
        g.read("s1", 1e-13)
        for e, t in zip(exps, ts[1:]):
            g.steps.append(["pset", "p0", kind, value_at(kind, t)])
            g.read("s1", tight_for(Fraction(1, 10**e)))
        g.steps.append(["pset", "p0", kind, value_at(kind, ts[0])])
        g.read("s1", 1e-13)
    elif mover == "circuit":
        # the same calls with the value as a literal, one circuit object per value
        def lit(t):
            q = []
            for op in _clone(prog):
                if _pex(op).get("param") == "p0":
                    op = literal_op(op, {"p0": value_at(kind, t)})
                q.append(op)
            return {"prog": q}

        use = ts[:6]
        g = HistGen(ctx, rng, [lit(t) for t in use], cap)
        g.comp = {"backends": {"B0": bn}, "sources": [], "detectors": {}, "ps": {}}
        g.new("s1", 0, inp, f"str:{bn}", None, None)
        g.read("s1", 1e-13)
        for j in range(1, len(use)):
            g.steps.append(["circuit", "s1", j])
            g.S["s1"]["ci"] = j
            g.read("s1", tight_for(abs(use[j] - use[j - 1])))
        g.steps.append(["circuit", "s1", 0])
        g.read("s1", tight_for(abs(use[-1] - use[0])))
    else:
        # the brightness of the Sampler's own (default) Source leaves 1 by 10^-e and comes back
        g = HistGen(ctx, rng, [{"prog": prog}], cap)
        g.comp = {"backends": {"B0": bn}, "sources": ["S0"], "detectors": {}, "ps": {}}
        g.new("s1", 0, inp, "B0", rng.choice([None, "S0"]), None)
        g.read("s1")
        for j, e in enumerate(exps[:6]):
            g.tune("s1", "source", {"brightness": 1 - 10.0 ** -e})
            g.read("s1", 1e-13)
            if j % 2:
                g.tune("s1", "source", {"brightness": 1})
                g.read("s1", 1e-13)
        g.tune("s1", "source", {"brightness": 1})
        g.read("s1", 1e-13)
    ctx.count(f"hist:magnitude:{mover}:{kind}")
    return g.scenario()


def random_mag_base(ctx: Ctx, rng, cap: int):
    """a circuit of the tree generator in which one bs / ps / loss call (at any depth) gets the Parameter"""
    case = hist_base(ctx, rng, cap)
    if case is None:
        return None
    prog = _clone(case["prog"])
    cands = []
    for op in prog:
        ex = _pex(op)
        if op[0] not in ("bs", "ps", "loss") or "refl" in ex or "loss" in ex or "conv" in ex:
            continue
        v = op_value(op)
        t = t_of(GQ.parse(v).re, GQ.parse(v).im) if op[0] == "ps" else t_of(*v)
        if t is not None:
            cands.append(op)
    if not cands:
        return None
    op = rng.choice(cands)
    if isinstance(op[-1], dict):
        op[-1]["param"] = "p0"
    else:
        op.append({"param": "p0"})
    c = Scene([{"prog": prog}]).circ(0)
    if c is None or c.input_modes != len(case["input"]):
        return None
    return prog, op[0], case["input"]


def hist_base(ctx: Ctx, rng, cap: int):
    """a base circuit for scenarios: from the tree generator, preferring lossy and heralded ones"""
    best = None
    for _ in range(6):
        case = gen_case(ctx, rng)
        if case is None:
            continue
        c = fg.build_impl(case["prog"]).get("c1")
        if c is None or np.array(c.U_full).shape[0] > 8 or fg.herald_photons(c) + sum(case["input"]) > cap - 1:
            continue
        lossy = any(fg.is_lossy(op) for op in case["prog"])
        her = any(op[0] == "herald" for op in case["prog"])
        best = case
        if lossy and (her or rng.random() < 0.5):
            break
    return best


def report(ctx: Ctx, case: dict, probs: list[str]) -> None:
    """shrink a failing scenario over its steps and report it"""
    ctx.count("cases_with_problems")
    try:
        small = ddmin(case["steps"], lambda sub: bool(run_scenario(ctx, {**case, "steps": sub})), max_tests=120)
    except Exception:  # noqa: BLE001
        small = case["steps"]
    scase = {**case, "steps": small}
    sprobs = run_scenario(ctx, scase) or probs
    oracle = [p for p in sprobs if p.startswith("oracle")]
    shape = "+".join(st[0] for st in small)[:80]
    if oracle:
        ctx.violation(oracle[0], {"case": scase, "problems": sprobs}, sig={"kind": "history", "shape": shape})
    else:
        ctx.disagreement(sprobs[0], {"case": scase, "problems": sprobs})


def run_hist(ctx: Ctx, rng) -> None:
    import random as pyrandom

    cap = 5 if ctx.thorough else 4
    scs: list = []
    # 1. directed corpus (the same on every seed)
    crng = pyrandom.Random("c04-hist-corpus")
    for base in corpus_bases():
        scs += [("corpus:pair", s) for s in pair_scenarios(ctx, crng, base, None, cap, RELATIONS)]
        for bn in ("permanent", "slos"):
            scs.append(("corpus:single", single_history(ctx, crng, base, None, cap, bn, True)))
    # 2. randomised
    n_rand = ctx.n(36, 700)
    for i in range(n_rand):
        case = hist_base(ctx, rng, cap)
        if case is None:
            continue
        r = i % 3
        if r == 0:
            rel = rng.sample(RELATIONS, 2)
            scs += [("random:pair", s) for s in pair_scenarios(ctx, rng, case["prog"], case["input"], cap, rel,
                                                               names=(rng.choice(["permanent", "slos"]),),
                                                               sharings=("obj",) if rng.random() < 0.75 else ("str",))]
        elif r == 1:
            scs.append(("random:single", single_history(ctx, rng, case["prog"], case["input"], cap,
                                                        rng.choice(["permanent", "slos"]), False)))
        else:
            scs.append(("random:shared", shared_history(ctx, rng, case["prog"], case["input"], cap)))
    # 3. default components per object / magnitude of a change (own streams: the ones above stay what they were)
    extra: list = []
    for base in corpus_bases():
        for what, nvar in (("source", 5), ("detector", 4), ("backend", 2)):
            extra += [("corpus:defaults", defaults_scenario(ctx, crng, base, cap, what, v)) for v in range(nvar)]
    for k, (prog, kind, inp) in enumerate(mag_bases()):
        for bn in ("permanent", "slos"):
            for j, mover in enumerate(("pset", "circuit", "brightness")):
                exps = MAG_EXPS[(k + j) % 3:] + MAG_EXPS[:(k + j) % 3]
                extra.append(("corpus:magnitude", magnitude_scenario(ctx, crng, prog, kind, inp, cap, bn, mover, exps)))
    xrng = pyrandom.Random(f"C04-hist-defaults-magnitude-{ctx.seed}")
    for i in range(ctx.n(45, 900)):
        if i % 3 == 0:
            case = hist_base(ctx, xrng, cap)
            if case is not None:
                extra.append(("random:defaults", defaults_scenario(ctx, xrng, case["prog"], cap,
                                                                   xrng.choice(["source", "source", "detector", "backend"]),
                                                                   xrng.randrange(60))))
        else:
            mb = random_mag_base(ctx, xrng, cap)
            if mb is not None:
                exps = xrng.sample(range(3, 13), xrng.randint(4, 7))
                extra.append(("random:magnitude", magnitude_scenario(
                    ctx, xrng, mb[0], mb[1], mb[2], cap, xrng.choice(["permanent", "slos"]),
                    xrng.choice(["pset", "pset", "circuit", "brightness"]), exps)))
    # the directed part of the new streams runs right after the directed part of the old ones
    ncorp = sum(1 for tag, _ in scs if tag.startswith("corpus"))
    scs = scs[:ncorp] + [x for x in extra if x[1] is not None and x[0].startswith("corpus")] + scs[ncorp:] + \
        [x for x in extra if x[1] is not None and not x[0].startswith("corpus")]
    reported = 0
    for tag, sc in scs:
        if ctx.out_of_time() or reported >= 4:
            break
        probs = run_scenario(ctx, sc)
        reads = [k for k, st in enumerate(sc["steps"]) if st[0] == "read"]
        ctx.count(f"hist:{tag}")
        ctx.count("hist:reads", len(reads))
        ctx.case(json.dumps(sc), len(reads) >= 2, sample=None)
        if probs:
            reported += 1
            report(ctx, sc, probs)


def run(ctx: Ctx) -> None:
    ctx.rule = ("circuits from the tree generator (0-4 loss elements anywhere, heralds), inputs with 0-4 photons incl. "
                "vacuum and bunched, both backends, on fresh objects; plus scenarios in which Backend / Source / Detector "
                "objects and circuit objects are shared by several Samplers on related circuits of equal dimensions "
                "(Unitary of the U_full, other herald photons / modes, other values, same calls) in both orders, and short "
                "histories on living Samplers (in-place extension, herald change, input / backend re-assignment), every "
                "read compared with the exact model, the loss-configuration sum and a fresh Sampler; Samplers left with "
                "default source / detector / backend objects while another Sampler's default object is tuned in place; "
                "one long-lived Sampler whose Parameter / circuit / source value moves by 1e-3 ... 1e-12 (reads bit for bit "
                "with a fresh Sampler and at max(move/50, 1e-13) with the exact model); non-trivial = >= 2 "
                "photons injected and the circuit has loss or a herald, resp. >= 2 reads; distinct = distinct (program, "
                "input) resp. scenario")
    N = ctx.n(160, 4000)
    rng = ctx.rng
    import random as pyrandom

    run_hist(ctx, pyrandom.Random(f"C04-hist-{ctx.seed}"))
    # the global setting `sampler_probability_threshold` moved away from its import-time value (always restored):
    # both backends must truncate at the CURRENT value (and agree with each other and with the exact model run
    # at that value)
    from lightworks.__settings import settings as lw_settings

    trng = pyrandom.Random(f"C04-threshold-{ctx.seed}")
    thr_default = lw_settings.sampler_probability_threshold
    try:
        for k in range(ctx.n(40, 500)):
            if ctx.out_of_time():
                break
            thr = trng.choice([1e-6, 1e-4, 1e-3, 1e-2, 5e-2, 1e-12, 0.0])
            case = gen_case(ctx, trng)
            if case is None:
                continue
            lw_settings.sampler_probability_threshold = thr
            case = {**case, "threshold": thr}
            probs = run_case(ctx, case)
            ctx.count(f"threshold:{thr:g}")
            ctx.case(json.dumps(case), True)
            if probs:
                ctx.count("cases_with_problems")
                oracle = [p for p in probs if p.startswith("oracle")]
                rp = {"case": case, "problems": probs}
                if oracle:
                    ctx.violation(oracle[0] + f" [settings.sampler_probability_threshold = {thr:g}]", rp,
                                  sig={"kind": "global-threshold"})
                else:
                    ctx.disagreement(probs[0] + f" [settings.sampler_probability_threshold = {thr:g}]", rp)
            lw_settings.sampler_probability_threshold = thr_default
    finally:
        lw_settings.sampler_probability_threshold = thr_default
    brng = pyrandom.Random(f"C04-bunch-{ctx.seed}")
    for k in range(ctx.n(40, 600)):
        if ctx.out_of_time():
            break
        case = gen_bunch_case(brng)
        probs = run_case(ctx, case)
        ctx.count("bunch:photons>=13" if sum(case["input"]) >= 13 else "bunch:photons<13")
        ctx.count(f"bunch:modes={case['prog'][0][2]}")
        ctx.case(json.dumps(case), True, sample=case if k == 0 else None)
        if probs:
            ctx.count("cases_with_problems")
            oracle = [p for p in probs if p.startswith("oracle")]
            if oracle:
                ctx.violation(oracle[0], {"case": case, "problems": probs},
                              sig={"kind": "many-photons", "backend": "permanent" if "permanent" in oracle[0] else "slos"})
            else:
                ctx.disagreement(probs[0], {"case": case, "problems": probs})
    done = 0
    while done < N and not ctx.out_of_time():
        case = gen_case(ctx, rng)
        if case is None:
            ctx.count("skipped:too_large")
            continue
        done += 1
        probs = run_case(ctx, case)
        prog = case["prog"]
        lossy = any(fg.is_lossy(op) for op in prog)
        her = any(op[0] == "herald" for op in prog)
        ctx.count("lossy" if lossy else "lossless")
        ctx.count("heralded" if her else "no_heralds")
        ctx.count(f"photons:{sum(case['input'])}")
        ctx.case(json.dumps(case), sum(case["input"]) >= 2 and (lossy or her), sample=case if done <= 2 else None)
        if probs:
            ctx.count("cases_with_problems")

            def still(sub):
                return cg.well_formed(sub) and bool(run_case(ctx, {**case, "prog": sub}))

            try:
                small = ddmin(prog, still, max_tests=150)
            except Exception:  # noqa: BLE001
                small = prog
            scase = {**case, "prog": small}
            sprobs = run_case(ctx, scase) or probs
            oracle = [p for p in sprobs if p.startswith("oracle")]
            if oracle:
                kind = "vacuum-overwrite" if "sums to" in oracle[0] or "P[0" in oracle[0] else oracle[0][7:40]
                ctx.violation(oracle[0], {"case": scase, "problems": sprobs}, sig={"kind": kind})
            else:
                ctx.disagreement(sprobs[0], {"case": scase, "problems": sprobs})


def replay(ctx: Ctx, path: str) -> None:
    data = json.load(open(path))["replay"]
    if "threshold" in data["case"]:
        from lightworks.__settings import settings as lw_settings

        lw_settings.sampler_probability_threshold = data["case"]["threshold"]
    probs = run_case(ctx, data["case"])
    ctx.case("replay", True, sample=data["case"])
    for p in probs:
        print("replay:", p)
        (ctx.violation(p, data, sig={"kind": "replay"}) if p.startswith("oracle") else ctx.disagreement(p, data))
