"""
C04 — sampler distribution is normalised, exact and the same for both backends.

Model: LW.Model.Dist (fullDistPermanent, slosPhi/fullDistSlos — the sqrt-free SLOS recursion —,
pdistCalc) on top of LW.Model.Fock.  For generated circuits (loss anywhere, heralds) and inputs
(vacuum, bunched) the implementation's Sampler.probability_distribution is computed with both
backends and compared with the exact model distribution (same 1e-9 truncation) and with the
property's clauses evaluated on the implementation: non-negative, normalised up to the truncation,
no pattern with more photons than injected, each pattern = sum over loss configurations of
|amplitude|^2 computed independently from the implementation's U_full, backends agree.
"""

from __future__ import annotations

import json
from fractions import Fraction

import numpy as np

import circgen as cg
import fockgen as fg
import lightworks as lw
from core import Ctx, ddmin, exc_class
from lightworks import emulator

TRUSTED = [
    "Lean 4.33 kernel; axioms subset of {propext, Classical.choice, Quot.sound} (audited on every run)",
    "hand-written model LW.Model.Dist / Fock tied to the code by this correspondence check",
    "thewalrus.perm (permanent); float sqrt/abs/multiplication up to rounding",
    "the model is exact, the code rounds: entries within 1e-12 of the 1e-9 truncation threshold are compared leniently",
]
ASSUMPTIONS = ["<= 5 user modes per level, total modes (with loss) <= 10, <= 5 photons incl. heralds"]
EPS = Fraction(1, 10**9)


def get_eps() -> Fraction:
    from lightworks.__settings import settings

    return Fraction(settings.sampler_probability_threshold).limit_denominator(10**15)


def gen_case(ctx: Ctx, rng):
    prog = fg.gen_circuit(ctx, rng, max_depth=2, max_n=4)
    pool = fg.build_impl(prog)
    c = pool.get("c1")
    if c is None:
        return None
    u = np.array(c.U_full)
    if u.shape[0] > 9:
        return None
    cap = 5 if ctx.thorough else 4
    hp = fg.herald_photons(c)
    if hp > cap - 1:
        return None
    nph = rng.choice([0, 1, 2, 2, 3, 3, 4])
    nph = max(0, min(nph, cap - hp))
    if rng.random() < 0.25:
        # a beam splitter whose coupling is tiny but non-zero (|u|^2 below the 1e-9 truncation): the
        # truncation is per output STATE, never per matrix element
        m = rng.choice([10**5, 3 * 10**4, 2 * 10**5])
        a, b, cc = m * m - 1, 2 * m, m * m + 1
        cs = (Fraction(a, cc), Fraction(b, cc)) if rng.random() < 0.5 else (Fraction(b, cc), Fraction(a, cc))
        n_user = prog[0][2]
        if n_user >= 2 and prog[0][0] == "new":
            m1, m2 = rng.sample(range(n_user), 2)
            pos = rng.randint(1, len(prog))
            prog = prog[:pos] + [cg.op_bs("c1", m1, m2, cs[0], cs[1], rng.choice(["Rx", "H"]))] + prog[pos:]
            ctx.count("tiny_coupling_bs")
            pool = fg.build_impl(prog)
            c = pool.get("c1")
            if c is None:
                return None
    return {"prog": prog, "input": fg.rand_state(rng, c.input_modes, nph)}


def ref_dist(c, full_in: list[int]) -> dict:
    """the property's right-hand side from the implementation's own U_full (no truncation)"""
    u = np.array(c.U_full)
    n = c.n_modes
    nl = u.shape[0] - n
    tot = sum(full_in)
    ins = full_in + [0] * nl
    out: dict = {}
    for t in fg.fock_all(u.shape[0], tot):
        a = fg.ref_amplitude(u, ins, list(t))
        key = tuple(t[:n])
        out[key] = out.get(key, 0.0) + abs(a) ** 2
    return out


def run_case(ctx: Ctx, case: dict) -> list[str]:
    probs: list[str] = []
    pool = fg.build_impl(case["prog"])
    c = pool.get("c1")
    if c is None or c.input_modes != len(case["input"]):
        return probs  # (shrinking may change the circuit's input size: not a case)
    eps = get_eps()
    dists = {}
    for b in ("permanent", "slos"):
        try:
            d = emulator.Sampler(c, lw.State(case["input"]), backend=b).probability_distribution
            dists[b] = {tuple(s.s): float(p) for s, p in d.items()}
        except Exception as e:  # noqa: BLE001
            probs.append(f"oracle: Sampler(backend={b}).probability_distribution raised {exc_class(e)}: {str(e)[:80]}")
            return probs
    full_in = fg.add_heralds(case["input"], c.heralds["input"])
    injected = sum(full_in)
    ref = ref_dist(c, full_in)
    nbasis = max(1, len(list(fg.fock_all(np.array(c.U_full).shape[0], injected))))
    for b, d in dists.items():
        tot = sum(d.values())
        if any(p < -1e-15 for p in d.values()):
            probs.append(f"oracle[{b}]: negative probability")
        if not (1 - nbasis * float(eps) - 1e-9 <= tot <= 1 + 1e-9):
            probs.append(f"oracle[{b}]: distribution sums to {tot!r} (truncation allows a deficit of at most {nbasis}*1e-9)")
        for s, p in d.items():
            if sum(s) > injected and p > 1e-12:
                probs.append(f"oracle[{b}]: pattern {s} holds more photons than the {injected} injected")
            if len(s) != c.n_modes:
                probs.append(f"oracle[{b}]: pattern {s} is not on the circuit's {c.n_modes} modes")
        for s in set(d) | set(ref):
            pi, pr = d.get(s, 0.0), ref.get(s, 0.0)
            tol = 1e-9 + (nbasis * float(eps) if sum(s) == 0 else 0) + (float(eps) * 1.001 * nbasis if pi == 0 else 0)
            if abs(pi - pr) > tol:
                probs.append(f"oracle[{b}]: P{list(s)} = {pi:.9g} but the sum over loss configurations of |amplitude|^2 is {pr:.9g}")
                break
        if probs:
            return probs
    dp, ds = dists["permanent"], dists["slos"]
    for s in set(dp) | set(ds):
        if abs(dp.get(s, 0) - ds.get(s, 0)) > 1e-9 + nbasis * float(eps):
            probs.append(f"oracle: backends disagree on {list(s)}: permanent={dp.get(s, 0):.9g} slos={ds.get(s, 0):.9g}")
            return probs
    # correspondence with the exact model (same truncation rule)
    for b, d in dists.items():
        m = ctx.model.call({"op": "fock", "what": "dist", "prog": case["prog"], "id": "c1", "input": case["input"],
                            "backend": b, "eps": f"{eps.numerator}/{eps.denominator}"})
        if "error_class" in m:
            probs.append(f"corr[{b}]: model refuses the input ({m['error_class']}) that the implementation accepts")
            return probs
        md = {tuple(s): Fraction(p) for s, p in m["pdist"]}
        exact = {tuple(s): Fraction(p) for s, p in m["pdist_exact"]}
        amb = sum(1 for p in exact.values() if abs(p - eps) <= Fraction(1, 10**12))
        if amb:
            ctx.count("ambiguous_at_threshold", amb)
        for s in set(d) | set(md):
            pi, pm = d.get(s, 0.0), float(md.get(s, 0))
            tol = 1e-9 + amb * 1.1e-9 if (sum(s) == 0 or amb) else 1e-9
            if abs(pi - pm) > tol:
                probs.append(f"corr[{b}]: P{list(s)} impl={pi:.12g} model={pm:.12g}")
                return probs
    return probs


def run(ctx: Ctx) -> None:
    ctx.rule = ("circuits from the tree generator (0-4 loss elements anywhere, heralds), inputs with 0-4 photons incl. "
                "vacuum and bunched, both backends; non-trivial = >= 2 photons injected and the circuit has loss or a "
                "herald; distinct = distinct (program, input)")
    N = ctx.n(160, 4000)
    rng = ctx.rng
    done = 0
    while done < N and not ctx.out_of_time():
        case = gen_case(ctx, rng)
        if case is None:
            ctx.count("skipped:too_large")
            continue
        done += 1
        probs = run_case(ctx, case)
        prog = case["prog"]
        lossy = any(fg.is_lossy(op) for op in prog)
        her = any(op[0] == "herald" for op in prog)
        ctx.count("lossy" if lossy else "lossless")
        ctx.count("heralded" if her else "no_heralds")
        ctx.count(f"photons:{sum(case['input'])}")
        ctx.case(json.dumps(case), sum(case["input"]) >= 2 and (lossy or her), sample=case if done <= 2 else None)
        if probs:
            ctx.count("cases_with_problems")

            def still(sub):
                return cg.well_formed(sub) and bool(run_case(ctx, {**case, "prog": sub}))

            try:
                small = ddmin(prog, still, max_tests=150)
            except Exception:  # noqa: BLE001
                small = prog
            scase = {**case, "prog": small}
            sprobs = run_case(ctx, scase) or probs
            oracle = [p for p in sprobs if p.startswith("oracle")]
            if oracle:
                kind = "vacuum-overwrite" if "sums to" in oracle[0] or "P[0" in oracle[0] else oracle[0][7:40]
                ctx.violation(oracle[0], {"case": scase, "problems": sprobs}, sig={"kind": kind})
            else:
                ctx.disagreement(sprobs[0], {"case": scase, "problems": sprobs})


def replay(ctx: Ctx, path: str) -> None:
    data = json.load(open(path))["replay"]
    probs = run_case(ctx, data["case"])
    ctx.case("replay", True, sample=data["case"])
    for p in probs:
        print("replay:", p)
        (ctx.violation(p, data, sig={"kind": "replay"}) if p.startswith("oracle") else ctx.disagreement(p, data))
